package main

import (
	"encoding/json"
	"fmt"
	"os"
	"strconv"
)

func usage() {
	fmt.Fprintln(os.Stderr, `usage:
  vcheck run <property> [--tier quick|thorough] [--seed N] [--replay file]
  vcheck worker <specfile> <outfile>
  vcheck list`)
}

func main() {
	if len(os.Args) < 2 {
		usage()
		os.Exit(2)
	}
	switch os.Args[1] {
	case "worker":
		if len(os.Args) != 4 {
			usage()
			os.Exit(2)
		}
		os.Exit(workerMain(os.Args[2], os.Args[3]))
	case "crashchild":
		os.Exit(crashChildMain(os.Args[2]))
	case "cases":
		// vcheck cases <prop> <tier> <seed>: print the case list as JSON
		p := props[os.Args[2]]
		seed, _ := strconv.ParseInt(os.Args[4], 10, 64)
		cs := p.Cases(os.Args[3], seed)
		for i := range cs {
			cs[i].Prop, cs[i].Tier, cs[i].Seed, cs[i].Index = os.Args[2], os.Args[3], seed, i
		}
		b, _ := json.Marshal(cs)
		fmt.Println(string(b))
	case "findcollisions":
		os.Exit(findCollisionsMain(os.Args[2:]))
	case "findshape":
		os.Exit(findShapeMain(os.Args[2:]))
	case "list":
		for id, p := range props {
			fmt.Println(id, p.Engine, p.Level)
		}
	case "run":
		if len(os.Args) < 3 {
			usage()
			os.Exit(2)
		}
		prop := os.Args[2]
		tier := os.Getenv("VERIF_TIER")
		if tier == "" {
			tier = "quick"
		}
		var seed int64 = 1
		if s := os.Getenv("VERIF_SEED"); s != "" {
			if v, err := strconv.ParseInt(s, 10, 64); err == nil {
				seed = v
			}
		}
		replay := ""
		for i := 3; i < len(os.Args); i++ {
			switch os.Args[i] {
			case "--tier":
				i++
				if i < len(os.Args) {
					tier = os.Args[i]
				}
			case "--seed":
				i++
				if i < len(os.Args) {
					if v, err := strconv.ParseInt(os.Args[i], 10, 64); err == nil {
						seed = v
					}
				}
			case "--replay":
				i++
				if i < len(os.Args) {
					replay = os.Args[i]
				}
			}
		}
		if tier != "quick" && tier != "thorough" {
			fmt.Fprintln(os.Stderr, "tier must be quick or thorough")
			os.Exit(2)
		}
		os.Exit(orchestrate(prop, tier, seed, replay))
	default:
		usage()
		os.Exit(2)
	}
}
