package main

import (
	"crypto/ecdsa"
	"fmt"
	"math/rand"
	"os"
	"sort"
	"time"

	"github.com/mosaicnetworks/babble/src/common"
	"github.com/mosaicnetworks/babble/src/crypto/keys"
	hg "github.com/mosaicnetworks/babble/src/hashgraph"
	"github.com/mosaicnetworks/babble/src/peers"
)

// ---------------------------------------------------------------------------
// C07 event admission: tamperer over valid DAGs
// ---------------------------------------------------------------------------

// digestHg captures everything C07 says a refused event must leave unchanged.
func digestHg(h *hg.Hashgraph, blocks int) string {
	st := h.Store
	parts := []string{}
	known := st.KnownEvents()
	ids := []int{}
	for id := range known {
		ids = append(ids, int(id))
	}
	sort.Ints(ids)
	for _, id := range ids {
		parts = append(parts, fmt.Sprintf("k%d=%d", id, known[uint32(id)]))
	}
	rep := st.RepertoireByPubKey()
	pks := []string{}
	for pk := range rep {
		pks = append(pks, pk)
	}
	sort.Strings(pks)
	for _, pk := range pks {
		evs, _ := st.ParticipantEvents(pk, -1)
		last, _ := st.LastEventFrom(pk)
		parts = append(parts, fmt.Sprintf("%s:%d:%s:%s", pk[:8], len(evs), last, shortHash(fmt.Sprint(evs))))
	}
	parts = append(parts, fmt.Sprint(h.UndeterminedEvents), fmt.Sprint(h.VerifPendingRounds()), fmt.Sprint(h.PendingSignatures.Len()),
		fmt.Sprint(h.VerifTopologicalIndex(), h.PendingLoadedEvents, st.LastRound(), st.LastBlockIndex(), st.ConsensusEventsCount(), blocks))
	return shortHash(fmt.Sprint(parts))
}

// admission model kept by the harness
type admModel struct {
	known   map[string]*hg.Event // hash -> event as accepted
	last    map[string]string    // creator -> last hash
	listing map[string][]string  // creator -> hashes by position
	rep     map[string]bool      // creators in the repertoire
}

// harnessVerify checks the event's signature against its stated creator and
// every membership request's signature against the peer it concerns, with the
// harness's own use of the signature primitives (not Event.Verify, which is
// part of what is being judged).
func harnessVerify(ev *hg.Event) (ok bool) {
	defer func() {
		if r := recover(); r != nil {
			ok = false
		}
	}()
	check := func(pub []byte, hash []byte, sig string) bool {
		r, s, err := keys.DecodeSignature(sig)
		if err != nil || r == nil || s == nil {
			return false
		}
		pk := keys.ToPublicKey(pub)
		if pk == nil || pk.X == nil || pk.Y == nil {
			return false
		}
		return ecdsa.Verify(pk, hash, r, s)
	}
	for i := range ev.Body.InternalTransactions {
		itx := &ev.Body.InternalTransactions[i]
		h, err := itx.Body.Hash()
		if err != nil {
			return false
		}
		if !check(itx.Body.Peer.PubKeyBytes(), h, itx.Signature) {
			return false
		}
	}
	h, err := ev.Body.Hash()
	if err != nil {
		return false
	}
	return check(ev.Body.Creator, h, ev.Signature)
}

func (m *admModel) admissible(ev *hg.Event) (bool, string) {
	if !harnessVerify(ev) {
		return false, "signature or membership-request signature invalid"
	}
	c := ev.Creator()
	if !m.rep[c] {
		return false, "creator is not a known participant"
	}
	if len(ev.Body.Parents) != 2 {
		return false, "malformed parents"
	}
	sp, op := ev.SelfParent(), ev.OtherParent()
	if sp != m.last[c] {
		return false, "self-parent is not the creator's latest event"
	}
	if op != "" && m.known[op] == nil {
		return false, "other-parent unknown"
	}
	want := 0
	if sp != "" {
		want = m.known[sp].Index() + 1
	}
	if ev.Index() != want {
		return false, fmt.Sprintf("index %d is not self-parent's index + 1 (%d)", ev.Index(), want)
	}
	return true, ""
}

func safeVerify(ev *hg.Event) (ok bool, err error) {
	defer func() {
		if r := recover(); r != nil {
			ok, err = false, fmt.Errorf("panic in Verify: %v", r)
		}
	}()
	return ev.Verify()
}

func (m *admModel) accept(ev *hg.Event) {
	c := ev.Creator()
	m.known[ev.Hex()] = ev
	m.last[c] = ev.Hex()
	m.listing[c] = append(m.listing[c], ev.Hex())
}

type tamperCase struct {
	name string
	ev   *hg.Event
}

func cloneBody(b hg.EventBody) hg.EventBody {
	c := b
	c.Transactions = nil
	for _, tx := range b.Transactions {
		c.Transactions = append(c.Transactions, append([]byte{}, tx...))
	}
	c.InternalTransactions = append([]hg.InternalTransaction{}, b.InternalTransactions...)
	c.Parents = append([]string{}, b.Parents...)
	c.Creator = append([]byte{}, b.Creator...)
	c.BlockSignatures = append([]hg.BlockSignature{}, b.BlockSignatures...)
	return c
}

// tamperings of a valid candidate event c created by creator index ci of dag d.
func tamperings(rng *rand.Rand, d *Dag, m *admModel, c *DagEvent, stranger *SimKey, allowNilSig bool) []tamperCase {
	out := []tamperCase{}
	key := d.Keys[c.Creator]
	mk := func(name string, mod func(b *hg.EventBody), resign bool, signer *SimKey) {
		b := cloneBody(c.Body)
		mod(&b)
		ev := &hg.Event{Body: b, Signature: c.Signature}
		if resign {
			k := key
			if signer != nil {
				k = signer.K
			}
			if err := ev.Sign(k); err != nil {
				return
			}
		}
		out = append(out, tamperCase{name, ev})
	}
	anyKnown := func(not string) string {
		hs := []string{}
		for h := range m.known {
			if h != not {
				hs = append(hs, h)
			}
		}
		if len(hs) == 0 {
			return ""
		}
		sort.Strings(hs)
		return hs[rng.Intn(len(hs))]
	}
	// a genuine later event that builds on this one, offered before this one is
	// known (it arrives too early and must be refused; it is offered again, with
	// another signature, when its turn comes)
	for j, later := range d.Events {
		if later.Hash == c.Hash {
			for _, l2 := range d.Events[j+1:] {
				if l2.Parents[0] == c.Hash || l2.Parents[1] == c.Hash {
					out = append(out, tamperCase{"a genuine later event that builds on this one, offered before it", l2.fresh()})
					break
				}
			}
			break
		}
	}
	// --- not re-signed: any altered field invalidates the signature
	mk("payload altered, not re-signed", func(b *hg.EventBody) { b.Transactions = append(b.Transactions, []byte("evil")) }, false, nil)
	mk("timestamp altered, not re-signed", func(b *hg.EventBody) { b.Timestamp++ }, false, nil)
	mk("index altered, not re-signed", func(b *hg.EventBody) { b.Index++ }, false, nil)
	mk("other-parent altered, not re-signed", func(b *hg.EventBody) { b.Parents[1] = anyKnown(b.Parents[1]) }, false, nil)
	mk("self-parent altered, not re-signed", func(b *hg.EventBody) { b.Parents[0] = anyKnown(b.Parents[0]) }, false, nil)
	mk("block signature added, not re-signed", func(b *hg.EventBody) {
		b.BlockSignatures = append(b.BlockSignatures, hg.BlockSignature{Validator: b.Creator, Index: 0, Signature: "1|1"})
	}, false, nil)
	mk("creator swapped, not re-signed", func(b *hg.EventBody) { b.Creator = keysPub(d.Keys[(c.Creator+1)%d.N]) }, false, nil)
	// signature strings
	for _, s := range []string{"", "x", "1|1", "zz|zz|zz", "10|"} {
		sig := s
		if !allowNilSig && (sig == "10|" || sig == "x") {
			continue
		}
		ev := &hg.Event{Body: cloneBody(c.Body), Signature: sig}
		out = append(out, tamperCase{fmt.Sprintf("signature replaced by %q", sig), ev})
	}
	if allowNilSig {
		for _, s := range []string{"|", "!|!", "|1", "1|"} {
			out = append(out, tamperCase{fmt.Sprintf("signature replaced by %q", s), &hg.Event{Body: cloneBody(c.Body), Signature: s}})
		}
	}
	// --- re-signed by the (Byzantine) creator
	spIdx := -1
	if sp := c.Body.Parents[0]; sp != "" && m.known[sp] != nil {
		spIdx = m.known[sp].Index()
	}
	for _, delta := range []int{-1, 1, 2, 7} {
		dd := delta
		mk(fmt.Sprintf("index %+d, re-signed by creator", dd), func(b *hg.EventBody) { b.Index = spIdx + 1 + dd }, true, nil)
	}
	mk("negative index, re-signed by creator", func(b *hg.EventBody) { b.Index = -4 }, true, nil)
	mk("index equal to self-parent's, re-signed by creator", func(b *hg.EventBody) { b.Index = spIdx }, true, nil)
	// equivocation: build on an older own event (same height as an existing one)
	if l := m.listing[pubHexUpper(key2hex(d, c.Creator))]; len(l) >= 2 {
		older := l[rng.Intn(len(l)-1)]
		oi := m.known[older].Index()
		mk("equivocation: self-parent is an older own event (index continues from it), re-signed", func(b *hg.EventBody) { b.Parents[0] = older; b.Index = oi + 1 }, true, nil)
		mk("equivocation keeping the index, re-signed", func(b *hg.EventBody) { b.Parents[0] = older }, true, nil)
	}
	if c.Body.Parents[0] != "" {
		mk("self-parent emptied (second 'first' event), re-signed", func(b *hg.EventBody) { b.Parents[0] = ""; b.Index = 0 }, true, nil)
		mk("self-parent emptied keeping index, re-signed", func(b *hg.EventBody) { b.Parents[0] = "" }, true, nil)
	}
	// self-parent belongs to another creator
	for oc := range m.last {
		if oc != pubHexUpper(key2hex(d, c.Creator)) && m.last[oc] != "" {
			o := m.last[oc]
			mk("self-parent is another creator's event, re-signed", func(b *hg.EventBody) { b.Parents[0] = o }, true, nil)
			break
		}
	}
	// first events: a creator without any event yet claims a foreign or unknown
	// self-parent, with an index that is consistent with that claim
	if c.Body.Parents[0] == "" {
		for oc := range m.last {
			if oc != pubHexUpper(key2hex(d, c.Creator)) && m.last[oc] != "" {
				o := m.last[oc]
				oi := m.known[o].Index()
				mk("first event naming another creator's event as self-parent, index continuing from it, re-signed", func(b *hg.EventBody) { b.Parents[0] = o; b.Index = oi + 1 }, true, nil)
				break
			}
		}
		for _, idx := range []int{0, 1, 5, -3} {
			ix := idx
			mk(fmt.Sprintf("first event naming an unknown hash as self-parent, index %d, re-signed", ix), func(b *hg.EventBody) {
				b.Parents[0] = "0X" + fmt.Sprintf("%064X", rng.Int63())
				b.Index = ix
			}, true, nil)
		}
	}
	mk("other-parent unknown hash, re-signed", func(b *hg.EventBody) { b.Parents[1] = "0X" + fmt.Sprintf("%064X", rng.Int63()) }, true, nil)
	mk("other-parent malformed string, re-signed", func(b *hg.EventBody) { b.Parents[1] = "zz" }, true, nil)
	// foreign creator
	mk("foreign creator (key outside the repertoire), signed by it", func(b *hg.EventBody) {
		b.Creator = keysPub(stranger.K)
		b.Parents[0] = ""
		b.Index = 0
	}, true, stranger)
	mk("foreign creator keeping the victim's self-parent, signed by it", func(b *hg.EventBody) { b.Creator = keysPub(stranger.K) }, true, stranger)
	// signed by another validator's key (valid key, wrong creator)
	mk("signed with another validator's key", func(b *hg.EventBody) {}, true, &SimKey{d.Keys[(c.Creator+1)%d.N]})
	// byte for byte the same body (same hash) under a signature that is not the creator's
	for _, k := range []*SimKey{{d.Keys[(c.Creator+1)%d.N]}, stranger} {
		same := c.fresh()
		if err := same.Sign(k.K); err == nil && same.Signature != c.Signature {
			out = append(out, tamperCase{"the very same body under another validator's key (same hash, other signature)", same})
		}
	}
	// membership requests
	joinPeer := mkPeer(stranger.K, "x:1", "joiner")
	mk("join request signed by someone else, event re-signed", func(b *hg.EventBody) {
		itx := hg.NewInternalTransactionJoin(*joinPeer)
		itx.Sign(key) // signed by the event creator, not by the peer it concerns
		b.InternalTransactions = append(b.InternalTransactions, itx)
	}, true, nil)
	mk("leave request for another validator signed by the creator, event re-signed", func(b *hg.EventBody) {
		itx := hg.NewInternalTransactionLeave(*d.Peers[(c.Creator+1)%d.N])
		itx.Sign(key)
		b.InternalTransactions = append(b.InternalTransactions, itx)
	}, true, nil)
	// requests about the event's own creator (the shape of a leave request, or of
	// a validator asking to be added again) whose signature is not the creator's
	self := *d.Peers[c.Creator]
	mk("leave request about the creator itself signed by an unrelated key, event re-signed", func(b *hg.EventBody) {
		itx := hg.NewInternalTransactionLeave(self)
		itx.Sign(stranger.K)
		b.InternalTransactions = append(b.InternalTransactions, itx)
	}, true, nil)
	mk("leave request about the creator itself with signature 1|1, event re-signed", func(b *hg.EventBody) {
		itx := hg.NewInternalTransactionLeave(self)
		itx.Signature = "1|1"
		b.InternalTransactions = append(b.InternalTransactions, itx)
	}, true, nil)
	mk("join request about the creator itself signed by another validator, event re-signed", func(b *hg.EventBody) {
		itx := hg.NewInternalTransactionJoin(self)
		itx.Sign(d.Keys[(c.Creator+1)%d.N])
		b.InternalTransactions = append(b.InternalTransactions, itx)
	}, true, nil)
	mk("leave request about the creator itself, signed, then its peer address altered, event re-signed", func(b *hg.EventBody) {
		itx := hg.NewInternalTransactionLeave(self)
		itx.Sign(key)
		itx.Body.Peer.NetAddr = "elsewhere:1"
		b.InternalTransactions = append(b.InternalTransactions, itx)
	}, true, nil)
	mk("unsigned join request, event re-signed", func(b *hg.EventBody) {
		itx := hg.NewInternalTransactionJoin(*joinPeer)
		itx.Signature = "1|1"
		b.InternalTransactions = append(b.InternalTransactions, itx)
	}, true, nil)
	return out
}

func key2hex(d *Dag, i int) string { return pubHex(d.Keys[i]) }
func pubHexUpper(s string) string  { return s }

// toWireManual builds the wire form of ev as its (Byzantine) sender would,
// resolving parents in the harness's model.
func toWireManual(ev *hg.Event, m *admModel, rep map[string]*peers.Peer) (hg.WireEvent, bool) {
	creator, ok := rep[ev.Creator()]
	if !ok {
		return hg.WireEvent{}, false
	}
	w := hg.WireEvent{Signature: ev.Signature}
	w.Body.Transactions = ev.Body.Transactions
	w.Body.InternalTransactions = ev.Body.InternalTransactions
	w.Body.CreatorID = creator.ID()
	w.Body.Index = ev.Body.Index
	w.Body.Timestamp = ev.Body.Timestamp
	w.Body.SelfParentIndex = -1
	w.Body.OtherParentIndex = -1
	for _, bs := range ev.Body.BlockSignatures {
		w.Body.BlockSignatures = append(w.Body.BlockSignatures, bs.ToWire())
	}
	if len(ev.Body.Parents) != 2 {
		return w, false
	}
	if sp := ev.SelfParent(); sp != "" {
		p := m.known[sp]
		if p == nil || p.Creator() != ev.Creator() {
			return w, false // not expressible in wire form
		}
		w.Body.SelfParentIndex = p.Index()
	}
	if op := ev.OtherParent(); op != "" {
		p := m.known[op]
		if p == nil {
			return w, false
		}
		oc, ok := rep[p.Creator()]
		if !ok {
			return w, false
		}
		w.Body.OtherParentCreatorID = oc.ID()
		w.Body.OtherParentIndex = p.Index()
	}
	return w, true
}

func checkListings(res *CaseResult, h *hg.Hashgraph, m *admModel, creators []string) (string, string) {
	for _, c := range creators {
		evs, err := h.Store.ParticipantEvents(c, -1)
		if err != nil {
			continue
		}
		res.count("admission_listing_checks", 1)
		prev := ""
		for i, eh := range evs {
			ev, err := h.Store.GetEvent(eh)
			if err != nil {
				return "C07:listing-entry-unreadable", fmt.Sprintf("creator %s: listed event %s cannot be read", c[:10], eh[:12])
			}
			if ev.Index() != i {
				return "C07:listing-index-not-position", fmt.Sprintf("creator %s: event at position %d of the per-creator listing has index %d", c[:10], i, ev.Index())
			}
			if ev.SelfParent() != prev {
				return "C07:listing-self-parent-not-predecessor", fmt.Sprintf("creator %s: event at position %d does not have its predecessor as self-parent", c[:10], i)
			}
			if ev.Creator() != c {
				return "C07:listing-foreign-event", fmt.Sprintf("creator %s: listing contains an event of %s", c[:10], ev.Creator()[:10])
			}
			prev = eh
		}
		if len(evs) != len(m.listing[c]) {
			return "C07:listing-length", fmt.Sprintf("creator %s: listing has %d entries, %d events were admitted", c[:10], len(evs), len(m.listing[c]))
		}
		if k := h.Store.KnownEvents()[h.Store.RepertoireByPubKey()[c].ID()]; k != len(evs)-1 {
			return "C07:known-events-mismatch", fmt.Sprintf("creator %s: KnownEvents says %d, listing has %d entries", c[:10], k, len(evs))
		}
	}
	return "", ""
}

func runC07(cs CaseSpec) *CaseResult {
	res := newResult(cs)
	rng := cs.rng("c07")
	sp := dagSpecFromCase(cs)
	if sp.N < 2 {
		sp.N = 2
	}
	sp.Events = int(cs.I("events", 120))
	d := genDag(rng, cs.Seed*104729+int64(cs.Index), sp)
	stranger := &SimKey{detKey(cs.Seed, "stranger", cs.Index)}
	allowNil := cs.I("nilsig", 1) == 1
	viaWire := cs.I("wire", 0) == 1

	store := hg.NewInmemStore(len(d.Events)*3 + 500)
	blocks := 0
	ps := peers.NewPeerSet(clonePeers(d.Peers))
	var h *hg.Hashgraph
	var core interface {
		FromWire([]hg.WireEvent) ([]hg.Event, error)
	}
	// an observer core (its own key is not a validator) gives access to the
	// real wire-decoding path used by sync
	obs := &SimKey{detKey(cs.Seed, "observer", cs.Index)}
	vc := newObserverCore(obs, ps, store, func(b hg.Block) { blocks++ })
	h = vc.Hg()
	core = vc
	m := &admModel{known: map[string]*hg.Event{}, last: map[string]string{}, listing: map[string][]string{}, rep: map[string]bool{}}
	creators := []string{}
	for _, p := range d.Peers {
		m.rep[p.PubKeyString()] = true
		m.last[p.PubKeyString()] = ""
		creators = append(creators, p.PubKeyString())
	}
	rep := h.Store.RepertoireByPubKey()
	attempts := 0
	maxAttempts := int(cs.I("attempts", 60))
	attemptEvery := len(d.Events) * 25 / (maxAttempts + 1)
	if attemptEvery < 1 {
		attemptEvery = 1
	}
	kinds := map[string]bool{}
	early := map[string]bool{} // genuine events that were offered (and refused) before their parents were known
	for i, de := range d.Events {
		// hostile attempts before inserting the i-th valid event
		firstOfCreator := de.Body.Parents[0] == ""
		offeredEarly := early[de.Hash]
		if (attempts < maxAttempts && i > 0 && rng.Intn(attemptEvery+1) == 0) || (firstOfCreator && i > 0) || offeredEarly {
			tcs := tamperings(rng, d, m, de, stranger, allowNil)
			for _, ti := range rng.Perm(len(tcs)) {
				if attempts >= maxAttempts && !firstOfCreator && !offeredEarly {
					break
				}
				tc := tcs[ti]
				if firstOfCreator && attempts >= maxAttempts && !containsStr(tc.name, "first event") && !offeredEarly {
					continue
				}
				if offeredEarly && attempts >= maxAttempts && !containsStr(tc.name, "another validator's key") && !containsStr(tc.name, "signature replaced") {
					continue // the event was seen (and refused) before: what matters now is a copy under another signature
				}
				if containsStr(tc.name, "offered before it") {
					early[tc.ev.Hex()] = true
					res.count("admission_genuine_events_offered_before_their_parent", 1)
				}
				if offeredEarly && (containsStr(tc.name, "another validator's key") || containsStr(tc.name, "signature replaced")) {
					res.count("admission_copies_under_another_signature_of_events_refused_earlier", 1)
				}
				adm, why := m.admissible(tc.ev)
				if adm {
					res.count("admission_tamperings_that_are_admissible_skipped", 1)
					continue
				}
				before := digestHg(h, blocks)
				var err error
				path := "InsertEvent"
				evToInsert := tc.ev
				if viaWire && attempts%2 == 1 {
					if w, ok := toWireManual(tc.ev, m, rep); ok {
						path = "wire (ReadWireInfo + insert)"
						evs, e := core.FromWire([]hg.WireEvent{w})
						if e != nil {
							err = e
							evToInsert = nil
						} else {
							evToInsert = &evs[0]
							// what arrives is what the receiver reconstructed: judge that
							adm2, why2 := m.admissible(evToInsert)
							if adm2 {
								res.count("admission_wire_reconstruction_admissible_skipped", 1)
								continue
							}
							why = why2
						}
					}
				}
				attempts++
				res.Evaluations++
				res.count("admission_hostile_attempts", 1)
				kinds[tc.name] = true
				if evToInsert != nil {
					err = guardedInsert(vc, evToInsert)
				}
				after := digestHg(h, blocks)
				if os.Getenv("VERIF_TRACE_TAMPER") != "" && (offeredEarly || containsStr(tc.name, "offered before it")) {
					fmt.Fprintf(os.Stderr, "TAMPER i=%d %q path=%s hash=%s err=%v\n", i, tc.name, path, trunc(tc.ev.Hex(), 14), err)
				}
				if err == nil {
					res.violate("C07", "C07:inadmissible-event-admitted:"+sigClass(why),
						fmt.Sprintf("an event that is not admissible (%s) was inserted without error via %s; tampering: %s", why, path, tc.name),
						map[string]interface{}{"tampering": tc.name, "why_inadmissible": why, "path": path, "event_index": tc.ev.Index(), "after_valid_events": i, "n": d.N})
					return res
				}
				if isPanicErr(err) {
					res.count("admission_attempts_ending_in_panic", 1)
				}
				if before != after {
					res.violate("C07", "C07:refused-event-changed-state",
						fmt.Sprintf("an event refused with %q left the hashgraph state changed; tampering: %s", trunc(err.Error(), 80), tc.name),
						map[string]interface{}{"tampering": tc.name, "path": path, "after_valid_events": i})
					return res
				}
				res.count("admission_refusals_state_unchanged", 1)
			}
		}
		ev := de.fresh()
		if err := vc.InsertEventAndRunConsensus(ev, true); err != nil {
			res.inconclusive(fmt.Sprintf("valid event %d refused: %v", i, err))
			return res
		}
		m.accept(ev)
		if i%20 == 19 || i == len(d.Events)-1 {
			if sig, msg := checkListings(res, h, m, creators); sig != "" {
				res.violate("C07", sig, msg, map[string]interface{}{"after_valid_events": i + 1})
				return res
			}
		}
	}
	res.count("admission_valid_events_inserted", int64(len(d.Events)))
	res.count("admission_distinct_tampering_kinds", int64(len(kinds)))
	if attempts >= 10 {
		res.digest("c07", cs.Seed, cs.Index, attempts, d.Events[len(d.Events)-1].Hash)
	}
	names := []string{}
	for k := range kinds {
		names = append(names, k)
	}
	sort.Strings(names)
	res.Sample = map[string]interface{}{"kind": "tampering run", "n": d.N, "valid_events": len(d.Events), "hostile_attempts": attempts, "tampering_kinds": names}
	return res
}

func sigClass(why string) string {
	switch {
	case containsStr(why, "index"):
		return "index"
	case containsStr(why, "self-parent"):
		return "self-parent"
	case containsStr(why, "other-parent"):
		return "other-parent"
	case containsStr(why, "signature"):
		return "signature"
	case containsStr(why, "participant"):
		return "creator"
	}
	return "other"
}

type panicErr struct{ v interface{} }

func (p panicErr) Error() string { return fmt.Sprintf("panic: %v", p.v) }
func isPanicErr(err error) bool {
	_, ok := err.(panicErr)
	return ok
}

func guardedInsert(vc *observerCore, ev *hg.Event) (err error) {
	defer func() {
		if r := recover(); r != nil {
			err = panicErr{r}
		}
	}()
	return vc.InsertEventAndRunConsensus(ev, false)
}

var _ = common.EncodeToString

func init() {
	register(&PropDef{
		ID: "C07", Level: "exploration", Engine: "dagcheck",
		Rule:          "one case = one seeded valid DAG fed to a real Hashgraph (through the real core insert path) with ~60 hostile insertion attempts interleaved at random points, drawn from a tamper grammar over the next valid event (every body field altered without re-signing, malformed signatures, and re-signed by the Byzantine creator: wrong/duplicate/negative/skipped indexes, equivocations, emptied/foreign self-parent, unknown other-parent, foreign creator, wrong signer, membership requests not signed by the peer concerned), directly and through the wire decoding path; oracle: harness-side reference predicate + state digest unchanged after refusal + per-creator listing invariants; non-trivial: >=10 hostile attempts judged; distinct by (seed,index,attempts,last hash)",
		Assumptions:   []string{"a valid event being refused is not flagged", "a panic inside the insertion attempt counts as a refusal here (process survival is C08) but the state must still be unchanged"},
		MinNontrivial: 8,
		Cases: func(tier string, seed int64) []CaseSpec {
			cs := dagCases(tier, seed+611953, 64, 900)
			for i := range cs {
				cs[i].Kind = "tamper"
				cs[i].P["events"] = int64(60 + (i*37)%120)
				if cs[i].P["n"] < 2 {
					cs[i].P["n"] = 2
				}
				cs[i].P["wire"] = int64(i % 2)
				cs[i].P["attempts"] = 60
			}
			// the bootstrap route (c07boot.go): one stored event record altered while
			// the node is down
			k := 16
			if tier == "thorough" {
				k = 200
			}
			bc := dagCases(tier, seed+611953+7, k, k)
			for i := range bc {
				bc[i].Kind = "bootstrap"
				bc[i].Index = len(cs) + i
				bc[i].P["events"] = int64(30 + (i*17)%60)
				if bc[i].P["n"] < 2 {
					bc[i].P["n"] = 2
				}
				bc[i].P["maintenance"] = int64((i / 3) % 2)
			}
			cs = append(cs, bc...)
			return cs
		},
		Run: func(cs CaseSpec) *CaseResult {
			if cs.Kind == "bootstrap" {
				return runC07Bootstrap(cs)
			}
			return runC07(cs)
		},
		PerCaseTimeout: 10 * time.Minute,
	})
}
