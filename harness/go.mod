module verif/harness

go 1.20

require (
	github.com/dgraph-io/badger v1.6.0
	github.com/mosaicnetworks/babble v0.0.0
	github.com/sirupsen/logrus v1.2.0
)

require (
	github.com/AndreasBriese/bbloom v0.0.0-20190306092124-e2d15f34fcf9 // indirect
	github.com/btcsuite/btcd v0.0.0-20190523000118-16327141da8c // indirect
	github.com/dgryski/go-farm v0.0.0-20190423205320-6a90982ecee2 // indirect
	github.com/dustin/go-humanize v1.0.0 // indirect
	github.com/golang/protobuf v1.3.1 // indirect
	github.com/mattn/go-colorable v0.1.2 // indirect
	github.com/mattn/go-isatty v0.0.8 // indirect
	github.com/mgutz/ansi v0.0.0-20170206155736-9520e82c474b // indirect
	github.com/pion/datachannel v1.4.14 // indirect
	github.com/pion/dtls/v2 v2.0.0-rc.6 // indirect
	github.com/pion/ice v0.7.8 // indirect
	github.com/pion/logging v0.2.2 // indirect
	github.com/pion/mdns v0.0.4 // indirect
	github.com/pion/rtcp v1.2.1 // indirect
	github.com/pion/rtp v1.3.2 // indirect
	github.com/pion/sctp v1.7.4 // indirect
	github.com/pion/sdp/v2 v2.3.4 // indirect
	github.com/pion/srtp v1.2.7 // indirect
	github.com/pion/stun v0.3.3 // indirect
	github.com/pion/transport v0.8.10 // indirect
	github.com/pion/turn/v2 v2.0.2 // indirect
	github.com/pion/webrtc/v2 v2.2.0 // indirect
	github.com/pkg/errors v0.9.1 // indirect
	github.com/ugorji/go/codec v1.1.7 // indirect
	github.com/x-cray/logrus-prefixed-formatter v0.5.2 // indirect
	golang.org/x/crypto v0.0.0-20200128174031-69ecbb4d6d5d // indirect
	golang.org/x/net v0.0.0-20200226121028-0de0cce0169b // indirect
	golang.org/x/sys v0.0.0-20191120155948-bd437916bb0e // indirect
	golang.org/x/xerrors v0.0.0-20191204190536-9bdfabe68543 // indirect
)

replace github.com/mosaicnetworks/babble => /repo
