package main

import (
	"encoding/json"
	"fmt"
	"net"
	"strings"
	"sync"
	"time"

	"github.com/mosaicnetworks/babble/src/config"
	hg "github.com/mosaicnetworks/babble/src/hashgraph"
	bnet "github.com/mosaicnetworks/babble/src/net"
	"github.com/mosaicnetworks/babble/src/node"
	_state "github.com/mosaicnetworks/babble/src/node/state"
	"github.com/mosaicnetworks/babble/src/peers"
	"github.com/mosaicnetworks/babble/src/proxy/inmem"
)

// ---------------------------------------------------------------------------
// C17, live tier: the node's own background loop (RunAsync: control timer,
// babble(), gossip goroutines, real TCP transport) must suspend the node once
// the undetermined events created since start exceed limit x validators, and
// the suspended node must stay frozen and keep answering sync requests. The
// synchronous simulator calls the suspension check itself after every step, so
// only this tier exercises where the real loop calls it.
//
// Verdicts are on logical quantities read under the node's own lock (state,
// number of undetermined events); wall clock is a watchdog only.
// ---------------------------------------------------------------------------

func newLiveNodeWith(seed int64, idx int, key *SimKey, tr *bnet.NetworkTransport, self *peers.Peer, current, genesis []*peers.Peer, tune func(c *config.Config)) (*liveNode, error) {
	l := &liveNode{Key: key, Peer: self, Trans: tr}
	conf := config.NewDefaultConfig()
	conf.LogLevel = "panic"
	conf.HeartbeatTimeout = 5 * time.Millisecond
	conf.SlowHeartbeatTimeout = 20 * time.Millisecond
	conf.TCPTimeout = 300 * time.Millisecond
	conf.JoinTimeout = 2 * time.Second
	conf.CacheSize = 20000
	conf.Moniker = self.Moniker
	if tune != nil {
		tune(conf)
	}
	l.Conf = conf
	l.App = NewApp(self.Moniker)
	l.Proxy = inmem.NewInmemProxy(l.App, conf.Logger())
	l.Node = node.NewNode(conf, node.NewValidator(key.K, self.Moniker), peers.NewPeerSet(clonePeers(current)), peers.NewPeerSet(clonePeers(genesis)),
		hg.NewInmemStore(conf.CacheSize), tr, l.Proxy)
	if err := l.Node.Init(); err != nil {
		return nil, err
	}
	return l, nil
}

type liveView struct {
	state        _state.State
	undetermined int
	initial      int
	validators   int
	ownSeq       int
	blocks       int
}

func viewLive(l *liveNode) liveView {
	var v liveView
	l.Node.VerifLockCore(func() {
		c := l.Node.VerifCore()
		v.undetermined = len(c.Hg().UndeterminedEvents)
		v.validators = c.Validators().Len()
		_, v.ownSeq = c.Head()
	})
	v.state = l.Node.GetState()
	v.initial = l.Node.VerifInitialUndeterminedEvents()
	v.blocks = len(l.App.DeliveredCopy())
	return v
}

// runC17BabbleReturn: the instant the node's own babbling loop returns - which
// is when Suspend() has finished waiting for the routines the loop launched -
// is taken through a hook (VerifRunBabbleOnce does what Run does for one call
// of babble()). From that instant on nothing may change in the node, although
// a live validator keeps gossiping with it. This is the only place where
// "Suspend waits for every launched routine" is observable from outside: once
// the Suspended state is merely *visible*, routines that were in flight before
// may legitimately still be finishing.
func runC17BabbleReturn(cs CaseSpec) *CaseResult {
	res := newResult(cs)
	limit := int(cs.I("limit", 3))
	seed := cs.Seed*1000 + int64(cs.Index)
	n := 3
	var all []*liveNode
	defer func() {
		for _, l := range all {
			func() {
				defer func() { recover() }()
				l.Node.Shutdown()
			}()
		}
	}()
	keys := []*SimKey{}
	ps := []*peers.Peer{}
	trs := []*bnet.NetworkTransport{}
	for i := 0; i < n; i++ {
		kk := &SimKey{detKey(seed, "c17ret", i)}
		keys = append(keys, kk)
		addr := fmt.Sprintf("127.0.0.1:%d", 1+i) // the third validator never runs
		if i < 2 {
			tr, err := bnet.NewTCPTransport("127.0.0.1:0", "", 3, 300*time.Millisecond, 300*time.Millisecond, quietLogger())
			if err != nil {
				res.inconclusive(err.Error())
				return res
			}
			trs = append(trs, tr)
			addr = tr.LocalAddr()
		}
		ps = append(ps, mkPeer(kk.K, addr, fmt.Sprintf("c17ret%d", i)))
	}
	for i := 0; i < 2; i++ {
		lim := limit
		if i == 1 {
			lim = 1000000 // the companion never gives up
		}
		l, err := newLiveNodeWith(seed, i, keys[i], trs[i], ps[i], ps, ps, func(c *config.Config) { c.SuspendLimit = lim })
		if err != nil {
			res.inconclusive(err.Error())
			return res
		}
		all = append(all, l)
	}
	a, b := all[0], all[1]
	b.Node.RunAsync(true)
	returned := make(chan liveView, 1)
	go func() {
		a.Node.VerifRunBabbleOnce(true)
		returned <- viewLive(a)
	}()
	stop := make(chan struct{})
	defer close(stop)
	go func() {
		i := 0
		for {
			select {
			case <-stop:
				return
			default:
			}
			for _, l := range all {
				func() {
					defer func() { recover() }()
					done := make(chan struct{})
					go func() {
						defer func() { recover(); close(done) }()
						l.Proxy.SubmitTx([]byte(fmt.Sprintf("c17ret-%d-%s", i, l.Peer.Moniker)))
					}()
					select {
					case <-done:
					case <-time.After(20 * time.Millisecond):
					}
				}()
			}
			i++
			time.Sleep(2 * time.Millisecond)
		}
	}()
	var at liveView
	select {
	case at = <-returned:
	case <-time.After(time.Duration(cs.I("watchdog_s", 40)) * time.Second):
		res.inconclusive("watchdog: the babbling loop did not return (the node did not suspend itself)")
		return res
	}
	res.Evaluations++
	res.count("live_babble_loop_returns_observed", 1)
	if at.state != _state.Suspended {
		res.inconclusive("the babbling loop returned in state " + at.state.String())
		return res
	}
	// the companion keeps gossiping; several heartbeats and TCP round trips go by
	time.Sleep(400 * time.Millisecond)
	after := viewLive(a)
	res.Evaluations++
	if after.undetermined != at.undetermined || after.ownSeq != at.ownSeq || after.blocks != at.blocks {
		res.violate("C17", "C17:live-node-changes-after-its-suspension-completed",
			fmt.Sprintf("live node %s had finished suspending itself (its babbling loop had returned) and then changed: undetermined %d -> %d, own sequence %d -> %d, blocks %d -> %d", a.Peer.Moniker,
				at.undetermined, after.undetermined, at.ownSeq, after.ownSeq, at.blocks, after.blocks), map[string]interface{}{"limit": limit})
		return res
	}
	res.digest("c17ret", cs.Seed, cs.Index, limit)
	res.Sample = map[string]interface{}{"kind": "live node observed from the instant its babbling loop returned", "limit": limit, "undetermined": at.undetermined, "own_sequence": at.ownSeq}
	return res
}

// runC17SuspendCall: the application suspends a node (Node.Suspend, public
// API) while three live validators keep pushing events at it and its store is
// slow (injected delays inside the writes it makes under its core lock), so
// that request handlers which passed the state gate are queueing on that lock.
// When Suspend() returns the node must be frozen: whatever was in flight has
// to be over by then, however long it takes.
func runC17SuspendCall(cs CaseSpec) *CaseResult {
	res := newResult(cs)
	seed := cs.Seed*1000 + int64(cs.Index)
	n := 4
	var all []*liveNode
	defer func() {
		for _, l := range all {
			func() {
				defer func() { recover() }()
				l.Node.Shutdown()
			}()
		}
	}()
	keys := []*SimKey{}
	ps := []*peers.Peer{}
	trs := []*bnet.NetworkTransport{}
	for i := 0; i < n; i++ {
		kk := &SimKey{detKey(seed, "c17call", i)}
		keys = append(keys, kk)
		tr, err := bnet.NewTCPTransport("127.0.0.1:0", "", 3, 300*time.Millisecond, 300*time.Millisecond, quietLogger())
		if err != nil {
			res.inconclusive(err.Error())
			return res
		}
		trs = append(trs, tr)
		ps = append(ps, mkPeer(kk.K, tr.LocalAddr(), fmt.Sprintf("c17call%d", i)))
	}
	jit := newJitter(seed, 1, time.Duration(2+cs.I("slow_ms", 6))*time.Millisecond)
	for i := 0; i < n; i++ {
		i := i
		l := &liveNode{Key: keys[i], Peer: ps[i], Trans: trs[i]}
		conf := config.NewDefaultConfig()
		conf.LogLevel = "panic"
		conf.HeartbeatTimeout = 10 * time.Millisecond
		conf.SlowHeartbeatTimeout = 40 * time.Millisecond
		conf.TCPTimeout = 300 * time.Millisecond
		conf.SuspendLimit = 1000000
		conf.CacheSize = 20000
		conf.Moniker = ps[i].Moniker
		var store hg.Store = hg.NewInmemStore(conf.CacheSize)
		if i == 0 {
			// the watched node: slow store, and a short transport timeout in its
			// configuration (the transport object itself keeps 300 ms)
			conf.TCPTimeout = time.Duration(10+cs.I("tcp_ms", 10)) * time.Millisecond
			store = &jitterStore{Store: store, j: jit}
		}
		l.Conf = conf
		l.App = NewApp(ps[i].Moniker)
		l.Proxy = inmem.NewInmemProxy(l.App, conf.Logger())
		l.Node = node.NewNode(conf, node.NewValidator(keys[i].K, ps[i].Moniker), peers.NewPeerSet(clonePeers(ps)), peers.NewPeerSet(clonePeers(ps)), store, trs[i], l.Proxy)
		if err := l.Node.Init(); err != nil {
			res.inconclusive(err.Error())
			return res
		}
		all = append(all, l)
	}
	a := all[0]
	for _, l := range all {
		l.Node.RunAsync(true)
	}
	stop := make(chan struct{})
	defer close(stop)
	go func() {
		i := 0
		for {
			select {
			case <-stop:
				return
			default:
			}
			for _, l := range all[1:] {
				func() {
					defer func() { recover() }()
					l.Proxy.SubmitTx([]byte(fmt.Sprintf("c17call-%d-%s", i, l.Peer.Moniker)))
				}()
			}
			i++
			time.Sleep(time.Millisecond)
		}
	}()
	// let the watched node fall behind the three others
	deadline := time.Now().Add(time.Duration(cs.I("watchdog_s", 40)) * time.Second)
	for time.Now().Before(deadline) {
		v := viewLive(a)
		if v.undetermined+v.blocks*4 >= int(cs.I("warm", 40)) {
			break
		}
		time.Sleep(5 * time.Millisecond)
	}
	if time.Now().After(deadline) {
		res.inconclusive("watchdog: the watched node did not receive enough events")
		return res
	}
	// (under sustained incoming traffic the wait inside Suspend can take long:
	// refusal handlers keep being launched while it waits; a wall-clock
	// watchdog makes such a run inconclusive)
	// meanwhile many short requests arrive over many connections: every one
	// launches a handler routine that is over at once, so the number of running
	// routines keeps touching zero while Suspend() waits for it to be zero
	floodStop := make(chan struct{})
	var floodWG sync.WaitGroup
	if cs.I("flood", 0) == 1 { // off: with the slow store the node drowns in queued handlers and Suspend() never gets its turn
		req, _ := json.Marshal(&bnet.SyncRequest{FromID: all[1].Peer.ID(), Known: map[uint32]int{}, SyncLimit: 1})
		payload := append([]byte{1}, append(req, '\n')...)
		target := a.Trans.LocalAddr()
		for c := 0; c < int(cs.I("floodconns", 3)); c++ {
			floodWG.Add(1)
			go func() {
				defer floodWG.Done()
				for {
					select {
					case <-floodStop:
						return
					default:
					}
					conn, err := net.DialTimeout("tcp", target, time.Second)
					if err != nil {
						time.Sleep(time.Millisecond)
						continue
					}
					conn.SetDeadline(time.Now().Add(20 * time.Millisecond))
					conn.Write(payload)
					conn.Close()
				}
			}()
		}
		time.Sleep(30 * time.Millisecond)
		res.count("live_suspend_calls_under_a_flood_of_short_requests", 1)
	}
	defer func() { close(floodStop); floodWG.Wait() }()
	suspDone := make(chan struct{})
	go func() {
		a.Node.Suspend()
		close(suspDone)
	}()
	select {
	case <-suspDone:
	case <-time.After(25 * time.Second):
		res.inconclusive("watchdog: Suspend() did not return within 25 s under the incoming traffic")
		return res
	}
	at := viewLive(a)
	var known0 int
	a.Node.VerifLockCore(func() {
		for _, idx := range a.Node.VerifCore().KnownEvents() {
			known0 += idx + 1
		}
	})
	res.Evaluations++
	res.count("live_suspend_calls_under_load", 1)
	time.Sleep(500 * time.Millisecond)
	after := viewLive(a)
	var known1 int
	a.Node.VerifLockCore(func() {
		for _, idx := range a.Node.VerifCore().KnownEvents() {
			known1 += idx + 1
		}
	})
	res.Evaluations++
	if after.undetermined != at.undetermined || after.ownSeq != at.ownSeq || after.blocks != at.blocks || known0 != known1 {
		res.violate("C17", "C17:live-node-changes-after-its-suspension-completed",
			fmt.Sprintf("live node %s changed after Suspend() had returned, while three validators kept pushing events at it: known events %d -> %d, undetermined %d -> %d, own sequence %d -> %d, blocks %d -> %d", a.Peer.Moniker,
				known0, known1, at.undetermined, after.undetermined, at.ownSeq, after.ownSeq, at.blocks, after.blocks), map[string]interface{}{"mode": "suspend-call"})
		return res
	}
	jit.mu.Lock()
	res.count("live_injected_store_delays", jit.Naps)
	jit.mu.Unlock()
	res.digest("c17call", cs.Seed, cs.Index, known0)
	res.Sample = map[string]interface{}{"kind": "Suspend() called while three live validators push at a node with a slow store", "known_events_at_return": known0, "undetermined": at.undetermined}
	return res
}

func runC17Live(cs CaseSpec) *CaseResult {
	if cs.Str("mode", "") == "babble-return" {
		return runC17BabbleReturn(cs)
	}
	if cs.Str("mode", "") == "suspend-call" {
		return runC17SuspendCall(cs)
	}
	res := newResult(cs)
	mode := cs.Str("mode", "lonely-self")
	limit := int(cs.I("limit", 5))
	tune := func(c *config.Config) {
		c.SuspendLimit = limit
		if cs.I("pendingjoin", 0) == 1 {
			c.JoinTimeout = 6 * time.Second
		}
	}
	seed := cs.Seed*1000 + int64(cs.Index)
	var watched []*liveNode
	var all []*liveNode
	defer func() {
		for _, l := range all {
			func() {
				defer func() { recover() }()
				l.Node.Shutdown()
			}()
		}
	}()
	mkTransport := func() (*bnet.NetworkTransport, error) {
		return bnet.NewTCPTransport("127.0.0.1:0", "", 3, 300*time.Millisecond, 300*time.Millisecond, quietLogger())
	}
	switch mode {
	case "lonely-self":
		// one running node; the validator set has three members, the two others
		// never run, and its gossip list only contains itself (every heartbeat
		// takes the monologue branch).
		n := int(cs.I("n", 3))
		keys := []*SimKey{}
		ps := []*peers.Peer{}
		tr, err := mkTransport()
		if err != nil {
			res.inconclusive(err.Error())
			return res
		}
		for i := 0; i < n; i++ {
			k := &SimKey{detKey(seed, "c17live", i)}
			keys = append(keys, k)
			addr := tr.LocalAddr()
			if i > 0 {
				addr = fmt.Sprintf("127.0.0.1:%d", 1+i) // nothing listens there
			}
			ps = append(ps, mkPeer(k.K, addr, fmt.Sprintf("c17live%d", i)))
		}
		cur := ps
		if mode == "lonely-self" {
			cur = ps[:1]
		}
		l, err := newLiveNodeWith(seed, 0, keys[0], tr, ps[0], cur, ps, tune)
		if err != nil {
			res.inconclusive(err.Error())
			return res
		}
		all = append(all, l)
		watched = append(watched, l)
		l.Node.RunAsync(true)
	default: // absent: more than a third of the validators never run
		n := int(cs.I("n", 4))
		if n < 4 {
			n = 4
		}
		k := n/3 + 1
		keys := []*SimKey{}
		ps := []*peers.Peer{}
		trs := []*bnet.NetworkTransport{}
		for i := 0; i < n; i++ {
			kk := &SimKey{detKey(seed, "c17live", i)}
			keys = append(keys, kk)
			addr := fmt.Sprintf("127.0.0.1:%d", 1+i) // nothing listens there
			if i < n-k {
				tr, err := mkTransport()
				if err != nil {
					res.inconclusive(err.Error())
					return res
				}
				trs = append(trs, tr)
				addr = tr.LocalAddr()
			}
			ps = append(ps, mkPeer(kk.K, addr, fmt.Sprintf("c17live%d", i)))
		}
		for i := 0; i < n-k; i++ {
			t := tune
			pusher := cs.I("pendingjoin", 0) == 1 && n-k >= 2 && i == n-k-1
			if cs.I("passive", 0) == 1 && n-k >= 2 {
				// the watched nodes are started without gossip (Run(false)): they only
				// answer; validator 0 never gives up and keeps pushing events at them
				pusher = i == 0
			}
			if pusher {
				// one running validator never gives up (huge limit): it keeps pushing
				// events at the others after they decided to suspend themselves
				t = func(c *config.Config) { c.SuspendLimit = 1000000 }
			}
			l, err := newLiveNodeWith(seed, i, keys[i], trs[i], ps[i], ps, ps, t)
			if err != nil {
				res.inconclusive(err.Error())
				return res
			}
			all = append(all, l)
			if !pusher {
				watched = append(watched, l)
			}
		}
		for _, l := range all {
			passive := false
			if cs.I("passive", 0) == 1 {
				for _, w := range watched {
					if w == l {
						passive = true
					}
				}
			}
			if passive {
				res.count("live_watched_nodes_started_without_gossip", 1)
			}
			l.Node.RunAsync(!passive)
		}
		res.count("live_validators_never_started", int64(k))
	}
	if cs.I("pendingjoin", 0) == 1 {
		// a join request that cannot complete (no quorum) is pending at every watched
		// node: its handler is parked until the join timeout while the node decides
		// to suspend itself
		for i, l := range watched {
			jk := &SimKey{detKey(seed, "c17live-joiner", i)}
			jp := mkPeer(jk.K, fmt.Sprintf("127.0.0.1:%d", 50+i), fmt.Sprintf("c17joiner%d", i))
			itx := hg.NewInternalTransactionJoin(*jp)
			if err := itx.Sign(jk.K); err != nil {
				continue
			}
			jc, err := mkTransport()
			if err != nil {
				continue
			}
			target := l.Trans.LocalAddr()
			go func() {
				defer jc.Close()
				var resp bnet.JoinResponse
				jc.Join(target, &bnet.JoinRequest{InternalTransaction: itx}, &resp)
			}()
			res.count("live_join_requests_left_pending", 1)
		}
		time.Sleep(50 * time.Millisecond)
	}
	// feed transactions so that the watched nodes keep creating events
	stop := make(chan struct{})
	defer close(stop)
	go func() {
		i := 0
		for {
			select {
			case <-stop:
				return
			default:
			}
			for _, l := range watched {
				if l.Node.GetState() == _state.Babbling {
					func() {
						defer func() { recover() }()
						l.Proxy.SubmitTx([]byte(fmt.Sprintf("c17live-%d-%s", i, l.Peer.Moniker)))
					}()
				}
			}
			i++
			time.Sleep(2 * time.Millisecond)
		}
	}()
	// observe
	slack := 12 + 4*len(watched) // events in flight between a check and our read
	deadline := time.Now().Add(time.Duration(cs.I("watchdog_s", 40)) * time.Second)
	suspended := map[*liveNode]liveView{}
	for time.Now().Before(deadline) && len(suspended) < len(watched) {
		for _, l := range watched {
			if _, done := suspended[l]; done {
				continue
			}
			v := viewLive(l)
			res.Evaluations++
			threshold := limit * v.validators
			newUndet := v.undetermined - v.initial
			res.max("live_max_new_undetermined_events_seen_while_babbling", int64(newUndet))
			switch v.state {
			case _state.Suspended:
				suspended[l] = v
				res.count("live_suspensions_observed", 1)
				if newUndet <= threshold {
					// (the node is only ever evicted through consensus, which cannot happen here)
					res.violate("C17", "C17:live-suspended-below-limit",
						fmt.Sprintf("live node %s suspended itself with %d new undetermined events, limit %d x %d validators = %d", l.Peer.Moniker, newUndet, limit, v.validators, threshold),
						map[string]interface{}{"mode": mode})
					return res
				}
			case _state.Babbling:
				if newUndet > threshold+slack {
					// read again after a few heartbeats: the check runs after every tick
					time.Sleep(100 * time.Millisecond)
					v2 := viewLive(l)
					if v2.state == _state.Babbling && v2.undetermined-v2.initial > threshold+slack {
						res.violate("C17", "C17:live-not-suspended-above-limit",
							fmt.Sprintf("live node %s is still babbling with %d new undetermined events (then %d), limit %d x %d validators = %d", l.Peer.Moniker, newUndet, v2.undetermined-v2.initial, limit, v.validators, threshold),
							map[string]interface{}{"mode": mode, "threshold": threshold, "new_undetermined": newUndet})
						return res
					}
				}
			}
		}
		time.Sleep(3 * time.Millisecond)
	}
	if len(suspended) < len(watched) {
		res.inconclusive(fmt.Sprintf("watchdog: %d of %d watched nodes reached the limit", len(suspended), len(watched)))
		return res
	}
	// frozen: further submissions and time change nothing; sync requests are still served
	before := map[*liveNode]liveView{}
	for _, l := range watched {
		before[l] = viewLive(l)
	}
	for i := 0; i < 30; i++ {
		for _, l := range watched {
			func() {
				defer func() { recover() }()
				done := make(chan struct{})
				go func() {
					defer func() { recover(); close(done) }()
					l.Proxy.SubmitTx([]byte(fmt.Sprintf("c17live-after-%d", i)))
				}()
				select {
				case <-done:
				case <-time.After(50 * time.Millisecond):
				}
			}()
		}
		time.Sleep(3 * time.Millisecond)
	}
	client, err := mkTransport()
	if err == nil {
		defer client.Close()
	}
	for _, l := range watched {
		after := viewLive(l)
		res.Evaluations++
		if after.undetermined != before[l].undetermined || after.ownSeq != before[l].ownSeq || after.blocks != before[l].blocks {
			if cs.Str("race", "") == "1" {
				// under the race detector the routines that were in flight when the node
				// announced the Suspended state finish an order of magnitude later than
				// the moment the reference snapshot was taken: a timing-dependent answer
				// of a race-instrumented case is inconclusive, never a verdict (DESIGN 2.6);
				// the plain twin of this case and the babble-return cases decide
				res.inconclusive(fmt.Sprintf("race build: suspended live node %s still changed after the reference snapshot (undetermined %d -> %d, own sequence %d -> %d)", l.Peer.Moniker, before[l].undetermined, after.undetermined, before[l].ownSeq, after.ownSeq))
				return res
			}
			res.violate("C17", "C17:live-suspended-node-changed",
				fmt.Sprintf("suspended live node %s changed after further submissions: undetermined %d -> %d, own sequence %d -> %d, blocks %d -> %d", l.Peer.Moniker,
					before[l].undetermined, after.undetermined, before[l].ownSeq, after.ownSeq, before[l].blocks, after.blocks), map[string]interface{}{"mode": mode})
			return res
		}
		if client != nil {
			known := map[uint32]int{}
			var total int
			l.Node.VerifLockCore(func() {
				for id, idx := range l.Node.VerifCore().KnownEvents() {
					known[id] = -1
					total += idx + 1
				}
			})
			var resp bnet.SyncResponse
			err := client.Sync(l.Trans.LocalAddr(), &bnet.SyncRequest{FromID: l.Peer.ID() + 1, Known: known, SyncLimit: 100000}, &resp)
			res.count("live_sync_requests_to_suspended_nodes", 1)
			if err != nil {
				res.violate("C17", "C17:live-suspended-node-refuses-sync", fmt.Sprintf("suspended live node %s answered a sync request with an error: %v", l.Peer.Moniker, err), map[string]interface{}{"mode": mode})
				return res
			}
			if len(resp.Events) != total {
				res.violate("C17", "C17:live-suspended-node-wrong-diff", fmt.Sprintf("suspended live node %s holds %d events but answered a sync request that knows nothing with %d events", l.Peer.Moniker, total, len(resp.Events)), map[string]interface{}{"mode": mode})
				return res
			}
		}
	}
	res.digest("c17live", cs.Seed, cs.Index, mode, limit)
	res.Sample = map[string]interface{}{"kind": "live node(s) losing quorum", "mode": mode, "limit": limit, "watched": len(watched), "suspended": len(suspended)}
	return res
}

func init() {
	// A live C17 case whose worker dies of Go's WaitGroup-misuse panic raised
	// under Node.Suspend / Node.Shutdown (the wait for the node's routines
	// racing with the launch of a handler for an incoming request) is a node
	// that died while suspending itself instead of going on answering sync
	// requests.
	crashHandlers["C17"] = func(r *CaseResult) *Violation {
		if r.Case.Kind != "live" || !strings.Contains(r.Note, "WaitGroup is reused before previous Wait has returned") {
			return nil
		}
		sig := "C17:node-dies-while-suspending"
		msg := "a live node died of 'sync: WaitGroup is reused before previous Wait has returned' while it was suspending itself under incoming requests: the wait for its routines (state.Manager.WaitRoutines) raced with the launch of a handler (GoFunc)"
		path := writeWitness(r.Case, "C17", sig, msg, map[string]interface{}{"output": r.Note})
		return &Violation{Prop: "C17", Sig: sig, Msg: msg, Replay: path}
	}
}
