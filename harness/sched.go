package main

import (
	"fmt"
	"os"
	"sort"

	hg "github.com/mosaicnetworks/babble/src/hashgraph"
	_state "github.com/mosaicnetworks/babble/src/node/state"
	"github.com/mosaicnetworks/babble/src/peers"
)

// ScheduleSpec describes one random history. Everything is derived from the
// case's PRNG; amounts are step counts, never durations.
type ScheduleSpec struct {
	Steps      int
	Shape      string  // uniform | lag | silent | partition | split
	SubmitProb float64 // probability of a submission before a step
	BurstProb  float64 // probability that a submission is a burst of 5-30
	TruncProb  float64 // probability a gossip uses a tiny sync limit
	DropProb   float64 // probability of each kind of dropped half-exchange
	StaleProb  float64
	PullOnly   float64 // probability that a step is a bare pull
	TxKinds    int
	// membership script
	Joins             int  // number of join requests spread over the run
	Leaves            int  // number of leave requests
	Refused           int  // number of joins the application refuses
	Simultaneous      bool // issue two membership requests in the same step
	Rejoin            bool // a node that left joins again
	FastSyncJoiners   bool
	CallbackTxProb    float64 // application submits follow-up txs from inside the commit callback
	KeepSilent        bool    // the silent minority stays silent (dead) during the fair suffix
	DupProb           float64 // probability that a submission repeats the bytes of an earlier one
	EmptyProb         float64 // probability that a submission is the empty transaction
	FFResets          int     // number of times a validator loses its data and fast-syncs back
	FFSingleServer    bool    // only one (random) peer answers fast-forward requests
	FFOldest          bool    // with FFSingleServer: always in place, always served by the peer with the oldest anchor
	PuppetProb        float64 // probability that a step is a puppet (Byzantine-content validator) exchange
	CloseLeaves       bool    // the second leave request follows the first within a few steps
	LagAtSecondChange bool    // with CloseOnCommit: a remaining validator lags from the second request on
	CloseOnCommit     bool    // with CloseLeaves: the second leave is requested when the first is seen committed
	CloseGap          int     // with CloseLeaves: the second leave comes 4..4+CloseGap steps after the first (default 16)
	ResetInWindow     bool    // with CloseLeaves: the fast-forward resets follow the second leave closely, a join comes later
}

type shapeState struct {
	lagger                  *SimNode
	lagUntil                int
	silentSet               map[int]bool
	silentFrom, silentUntil int
	partFrom, partUntil     int
	hidden                  *SimNode // "split" shape: one creator hidden from half the nodes
}

func (nw *Network) babblers() []*SimNode {
	res := []*SimNode{}
	for _, n := range nw.Nodes {
		if n.babbling() && !n.Silent && !n.Left {
			res = append(res, n)
		}
	}
	return res
}

func (nw *Network) upReal() []*SimNode {
	res := []*SimNode{}
	for _, n := range nw.Nodes {
		if n.Up && !n.Puppet && n.Node != nil && !n.Left {
			res = append(res, n)
		}
	}
	return res
}

// RunSchedule drives the network through a random history.
func (nw *Network) RunSchedule(sp ScheduleSpec) {
	rng := nw.Rng
	ss := &shapeState{}
	n0 := len(nw.upReal())
	maxSilent := (n0 - 1) / 3 // strictly less than a third
	switch sp.Shape {
	case "lag":
		if n0 >= 2 {
			b := nw.upReal()
			ss.lagger = b[rng.Intn(len(b))]
			ss.lagUntil = sp.Steps/2 + rng.Intn(sp.Steps/4+1)
		}
	case "silent":
		if maxSilent > 0 {
			ss.silentSet = map[int]bool{}
			b := nw.upReal()
			k := 1 + rng.Intn(maxSilent)
			for _, i := range rng.Perm(len(b))[:k] {
				ss.silentSet[b[i].Idx] = true
			}
			ss.silentFrom = sp.Steps/6 + rng.Intn(sp.Steps/3+1)
			if rng.Intn(2) == 0 {
				ss.silentUntil = ss.silentFrom + sp.Steps/4 + rng.Intn(sp.Steps/4+1)
			} else {
				ss.silentUntil = sp.Steps * 10 // never returns
			}
		}
	case "partition":
		ss.partFrom = sp.Steps/6 + rng.Intn(sp.Steps/4+1)
		ss.partUntil = ss.partFrom + sp.Steps/5 + rng.Intn(sp.Steps/4+1)
	case "split":
		if n0 >= 3 {
			b := nw.upReal()
			ss.hidden = b[rng.Intn(len(b))]
		}
	}

	// membership schedule: step -> action
	type mAct struct {
		kind string
	}
	acts := map[int][]mAct{}
	place := func(kind string) {
		st := sp.Steps/10 + rng.Intn(sp.Steps*7/10+1)
		acts[st] = append(acts[st], mAct{kind})
		if sp.Simultaneous && rng.Intn(2) == 0 {
			acts[st] = append(acts[st], mAct{"join"})
		}
	}
	for i := 0; i < sp.Joins; i++ {
		place("join")
	}
	for i := 0; i < sp.Refused; i++ {
		place("refused")
	}
	firstLeave, closeSecond := -1, -1
	pendingCloseLeave := 0
	windowResets, windowSeen := 0, -1
	for i := 0; i < sp.Leaves; i++ {
		if i > 0 && sp.CloseLeaves && sp.CloseOnCommit && firstLeave >= 0 {
			// issued when the first leave is seen committed somewhere (below)
			pendingCloseLeave++
			continue
		}
		if i > 0 && sp.CloseLeaves && firstLeave >= 0 {
			// a second leave a few steps after the first: both changes pending at once
			gap := 16
			if sp.CloseGap > 0 {
				gap = sp.CloseGap
			}
			st := firstLeave + 4 + rng.Intn(gap)
			acts[st] = append(acts[st], mAct{"leave"})
			closeSecond = st
			continue
		}
		if !sp.CloseLeaves {
			place("leave")
			continue
		}
		st := sp.Steps/10 + rng.Intn(sp.Steps*6/10+1)
		acts[st] = append(acts[st], mAct{"leave"})
		firstLeave = st
	}
	if sp.Rejoin {
		st := sp.Steps * 8 / 10
		acts[st] = append(acts[st], mAct{"rejoin"})
	}
	for i := 0; i < sp.FFResets; i++ {
		st := sp.Steps/5 + rng.Intn(sp.Steps*7/10+1)
		if sp.ResetInWindow && closeSecond >= 0 {
			// resets while both validator-set changes are still pending (decided but
			// not yet in force): triggered below by the state of the anchors
			windowResets++
			continue
		}
		acts[st] = append(acts[st], mAct{"ffreset"})
	}
	joinCount := 0

	if sp.CallbackTxProb > 0 {
		for _, n := range nw.Nodes {
			nw.installCallbackSubmitter(n, sp.CallbackTxProb)
		}
	}

	for step := 0; step < sp.Steps && !nw.stopped; step++ {
		// shape transitions
		if ss.silentSet != nil {
			on := step >= ss.silentFrom && step < ss.silentUntil
			for idx := range ss.silentSet {
				nw.Nodes[idx].Silent = on
			}
		}
		if sp.Shape == "partition" {
			if step == ss.partFrom {
				nw.Partition = map[int]int{}
				for _, n := range nw.Nodes {
					nw.Partition[n.Idx] = rng.Intn(2)
				}
				nw.Res.count("partitions_started", 1)
			}
			if step == ss.partUntil {
				nw.Partition = nil
			}
			if nw.Partition != nil {
				for _, n := range nw.Nodes {
					if _, ok := nw.Partition[n.Idx]; !ok {
						nw.Partition[n.Idx] = rng.Intn(2)
					}
				}
			}
		}
		if pendingCloseLeave > 0 {
			// the first leave has just been committed by some node: the second request
			// follows within a few steps, so that it is committed three to four rounds
			// after the first, around the round at which the first takes effect
			seen := false
			for _, q := range nw.Nodes {
				if q.App == nil {
					continue
				}
				for _, dl := range q.App.Delivered {
					for _, rc := range dl.Resp.InternalTransactionReceipts {
						if rc.Accepted && rc.InternalTransaction.Body.Type == hg.PEER_REMOVE {
							seen = true
						}
					}
				}
			}
			if seen {
				st := step + rng.Intn(10)
				acts[st] = append(acts[st], mAct{"leave"})
				closeSecond = st
				pendingCloseLeave--
				nw.Res.count("second_leave_issued_right_after_the_first_was_committed", 1)
				if sp.LagAtSecondChange {
					// and one of the remaining validators falls behind for about three
					// rounds: its witnesses of the coming rounds reach the others late and
					// unevenly, so that nodes decide these rounds at different moments
					cands := []*SimNode{}
					for _, q := range nw.babblers() {
						if nw.leaving[q.Idx] == nil && q.Core.Validators().ByID[q.ID] != nil {
							cands = append(cands, q)
						}
					}
					if len(cands) > 0 {
						ss.lagger = cands[rng.Intn(len(cands))]
						ss.lagUntil = st + 20 + rng.Intn(45)
					}
				}
			}
		}
		if sp.ResetInWindow && windowResets > 0 && step%4 == 0 {
			// does some node offer an anchor whose frame carries two or more pending
			// validator-sets? then a validator resets itself now
			for _, q := range nw.babblers() {
				if _, fr, err := q.Core.GetAnchorBlockWithFrame(); err == nil && fr != nil {
					pending := 0
					for r := range fr.PeerSets {
						if r > fr.Round {
							pending++
						}
					}
					if pending >= 2 {
						acts[step] = append(acts[step], mAct{"ffreset"})
						windowResets--
						nw.Res.count("resets_triggered_while_two_validator_sets_pending", 1)
						if windowSeen < 0 {
							windowSeen = step
							nw.Res.count("histories_with_two_pending_validator_sets_at_an_anchor", 1)
							// one more change after the resets
							st := step + 50 + rng.Intn(40)
							if n0 >= 6 {
								acts[st] = append(acts[st], mAct{"leave"})
							} else {
								acts[st] = append(acts[st], mAct{"join"})
							}
						}
						break
					}
				}
			}
		}
		// membership actions
		for _, a := range acts[step] {
			b := nw.babblers()
			if len(b) == 0 {
				break
			}
			switch a.kind {
			case "join", "refused":
				host := b[rng.Intn(len(b))]
				name := ""
				if a.kind == "refused" {
					name = fmt.Sprintf("refuse%d", joinCount)
				}
				joinCount++
				o := nw.DefaultOpts
				o.FastSync = sp.FastSyncJoiners && rng.Intn(2) == 0
				nw.StartJoin(host, name, o)
			case "leave":
				// never let the validator set fall below 2, and never remove so
				// many that the silent minority reaches a third
				cands := []*SimNode{}
				for _, n := range b {
					minSet := 3
					if sp.CloseLeaves {
						minSet = 2 // two leaves in a row may shrink a set of four to two
					}
					if n.Core.Validators().ByID[n.ID] != nil && n.Core.Validators().Len() > minSet && nw.leaving[n.Idx] == nil && (len(nw.leaving) < 2 || (sp.ResetInWindow && len(nw.leaving) < 3)) {
						cands = append(cands, n)
					}
				}
				if len(cands) > 0 {
					l := cands[rng.Intn(len(cands))]
					if nw.leaving == nil {
						nw.leaving = map[int]*ItxRecord{}
					}
					if nw.leaving[l.Idx] == nil {
						nw.leaving[l.Idx] = nw.RequestLeave(l)
					}
				}
			case "ffreset":
				// a validator whose events are all known to everybody loses its
				// data and comes back with fast-sync enabled
				if len(b) < 3 {
					break
				}
				x := b[rng.Intn(len(b))]
				if sp.ResetInWindow {
					// not one of the leaving validators
					stay := []*SimNode{}
					for _, q := range b {
						if nw.leaving[q.Idx] == nil {
							stay = append(stay, q)
						}
					}
					if len(stay) == 0 {
						break
					}
					x = stay[rng.Intn(len(stay))]
				}
				if x.Core.Validators().ByID[x.ID] == nil {
					break
				}
				if sp.ResetInWindow {
					// everybody fetches x's events first: the window is short
					for _, o := range b {
						if o == x {
							continue
						}
						if xp := o.Core.Peers().ByPubKey[x.PubHex]; xp != nil {
							nw.Pull(o, xp, Fault{}, 0)
						}
					}
				}
				allKnow := true
				mine := x.Core.KnownEvents()[x.ID]
				for _, o := range b {
					if o.Core.KnownEvents()[x.ID] != mine {
						allKnow = false
					}
				}
				if !allKnow {
					// postpone to a later step
					acts[step+3] = append(acts[step+3], mAct{"ffreset"})
					break
				}
				o := x.Opts
				o.FastSync = true
				cur := clonePeers(x.Core.Peers().Peers)
				inPlace := rng.Intn(2) == 0 || sp.FFOldest
				var err error
				if inPlace {
					// the running node (e.g. restarted with bootstrap + fast-sync) resets
					// its existing hashgraph in place
					x.Node.VerifTransition(_state.CatchingUp)
					nw.Res.count("ffreset_in_place", 1)
				} else {
					err = nw.startNode(x, o, cur, clonePeers(nw.Genesis))
				}
				if err == nil {
					nw.Res.count("ffreset_total", 1)
					if sp.FFSingleServer {
						others := []*SimNode{}
						for _, q := range b {
							if q != x {
								others = append(others, q)
							}
						}
						srv := others[rng.Intn(len(others))]
						if rng.Intn(2) == 0 || sp.FFOldest {
							// the peer whose anchor is the oldest (a lagging server)
							best := 1 << 30
							for _, q := range others {
								if b, _, err := q.Core.GetAnchorBlockWithFrame(); err == nil && b.Index() > 0 && b.Index() < best {
									best, srv = b.Index(), q
								}
							}
						}
						nw.FFServe = map[int]bool{srv.Idx: true}
					}
					if sp.ResetInWindow && x.Node.GetState() == _state.CatchingUp {
						nw.FastForward(x)
					}
				}
			case "rejoin":
				for _, n := range nw.Nodes {
					if n.Left && n.Node != nil && n.Node.GetState() == _state.Suspended {
						host := b[rng.Intn(len(b))]
						o := nw.DefaultOpts
						nw.Res.count("rejoin_requests", 1)
						nw.StartJoinOf(n, host, o)
						break
					}
				}
			}
		}
		// submissions
		if rng.Float64() < sp.SubmitProb {
			up := nw.upReal()
			if len(up) > 0 {
				k := 1
				if rng.Float64() < sp.BurstProb {
					k = 5 + rng.Intn(26)
				}
				for j := 0; j < k; j++ {
					n := up[rng.Intn(len(up))]
					if n.Silent {
						continue
					}
					kind := 0
					if sp.TxKinds > 0 {
						kind = rng.Intn(sp.TxKinds)
					}
					switch {
					case sp.DupProb > 0 && len(nw.SubmitOrder) > 0 && rng.Float64() < sp.DupProb:
						nw.Submit(n, nw.SubmitOrder[rng.Intn(len(nw.SubmitOrder))].Bytes)
						nw.Res.count("submit_duplicate_content", 1)
					case sp.EmptyProb > 0 && rng.Float64() < sp.EmptyProb:
						nw.Submit(n, []byte{})
						nw.Res.count("submit_empty", 1)
					default:
						nw.Submit(n, nw.NewTx(n.Idx, kind))
					}
				}
			}
		}
		// puppet exchange
		if len(nw.puppets) > 0 && rng.Float64() < sp.PuppetProb {
			b := nw.babblers()
			if len(b) > 0 {
				idxs := []int{}
				for i := range nw.puppets {
					idxs = append(idxs, i)
				}
				sort.Ints(idxs)
				p := nw.puppets[idxs[rng.Intn(len(idxs))]]
				p.Step(b[rng.Intn(len(b))])
				continue
			}
		}
		// nodes waiting to fast-forward
		acted := false
		for _, n := range nw.upReal() {
			if n.Node.GetState() == _state.CatchingUp && !n.Silent {
				nw.FastForward(n)
				nw.FFServe = nil
				acted = true
				break
			}
		}
		if acted {
			continue
		}
		// pick the actor
		b := nw.babblers()
		if len(b) == 0 {
			nw.afterStep()
			continue
		}
		var a *SimNode
		for tries := 0; tries < 20; tries++ {
			a = b[rng.Intn(len(b))]
			if ss.lagger != nil && a == ss.lagger && step < ss.lagUntil && rng.Float64() > 0.04 {
				a = nil
				continue
			}
			break
		}
		if a == nil {
			nw.afterStep()
			continue
		}
		sel := nw.selectable(a)
		if len(sel) == 0 {
			nw.Monologue(a)
			continue
		}
		// choose the target
		var tgt *peers.Peer
		for tries := 0; tries < 20; tries++ {
			tgt = sel[rng.Intn(len(sel))]
			tn := nw.nodeByID(tgt.ID())
			if ss.lagger != nil && tn == ss.lagger && step < ss.lagUntil && rng.Float64() > 0.04 {
				tgt = nil
				continue
			}
			if ss.hidden != nil && tn != nil {
				// split view: nodes with odd index do not talk to the hidden creator for
				// three quarters of the run
				if step < sp.Steps*3/4 && ((tn == ss.hidden && a.Idx%2 == 1) || (a == ss.hidden && tn.Idx%2 == 1)) && rng.Float64() > 0.02 {
					tgt = nil
					continue
				}
			}
			break
		}
		if tgt == nil {
			nw.afterStep()
			continue
		}
		f := Fault{}
		limit := 0
		if rng.Float64() < sp.TruncProb || (ss.lagger == a && step >= ss.lagUntil && rng.Intn(2) == 0) {
			limit = 1 + rng.Intn(12)
		}
		if rng.Float64() < sp.DropProb {
			switch rng.Intn(4) {
			case 0:
				f.DropSyncReq = true
			case 1:
				f.DropSyncResp = true
			case 2:
				f.DropEagerReq = true
			case 3:
				f.DropEagerResp = true
			}
		}
		if rng.Float64() < sp.StaleProb {
			f.StaleSync = true
		}
		if rng.Float64() < sp.PullOnly {
			nw.Pull(a, tgt, f, limit)
		} else {
			nw.Gossip(a, tgt, f, limit)
		}
		nw.retireLeavers()
	}
	// end of shape: everybody back (unless the minority is dead for good)
	for _, n := range nw.Nodes {
		if nw.PinnedSilent[n.Idx] {
			n.Silent = true
			continue
		}
		if sp.KeepSilent && ss.silentSet != nil && ss.silentSet[n.Idx] && ss.silentUntil > sp.Steps {
			n.Silent = true
			continue
		}
		n.Silent = false
	}
	nw.Partition = nil
}

// retireLeavers marks nodes whose leave request took effect and that suspended
// themselves (evicted) as having left.
func (nw *Network) retireLeavers() {
	for idx, rec := range nw.leaving {
		n := nw.Nodes[idx]
		if rec == nil || n.Left {
			continue
		}
		if n.Node.GetState() == _state.Suspended {
			n.Left = true
			nw.Res.count("leave_completed", 1)
			delete(nw.leaving, idx)
		}
	}
}

func (nw *Network) installCallbackSubmitter(n *SimNode, prob float64) {
	if n.App == nil || n.Puppet {
		return
	}
	node := n
	app := n.App
	app.OnCommit = func(b *hg.Block) {
		if nw.Rng.Float64() < prob {
			tx := nw.NewTx(node.Idx, 0)
			cp := append([]byte{}, tx...)
			key := string(tx)
			nw.Submitted[key] = &SubmittedTx{Bytes: cp, Node: node.Idx, Step: nw.Step, Count: 1, Inc: node.Incarnation, ByNode: map[[2]int]int{{node.Idx, node.Incarnation}: 1}}
			nw.SubmitOrder = append(nw.SubmitOrder, nw.Submitted[key])
			nw.Rec.noteSubmission(node, cp)
			// the commit callback runs inside the node's own lock hold
			node.Core.AddTransactions([][]byte{tx})
			nw.Res.count("callback_submissions", 1)
		}
	}
}

// FastForward runs the node's real fastForward routine.
func (nw *Network) FastForward(n *SimNode) error {
	prevRestores := n.App.Restores
	ownLast := n.Node.GetLastBlockIndex()
	nw.ffOffers = nil
	nw.ffJunkOffered = false
	err := n.Node.VerifFastForward()
	nw.Res.count("step_fastforward", 1)
	if err == nil && nw.ffJunkOffered {
		nw.Res.count("ff_responses_with_added_signature_entries_adopted", 1)
	}
	if err == nil {
		n.ResetEpochs++
		if n.AnchorAtReset == nil {
			n.AnchorAtReset = map[int]int{}
			n.AnchorRRAtReset = map[int]int{}
		}
		// the anchor the node adopted is the best offer it was given (highest
		// block index above 0), independently of what its store now claims
		lb, lrr := -1, -1
		for _, o := range nw.ffOffers {
			if o[0] > lb && o[0] > 0 {
				lb, lrr = o[0], o[1]
			}
		}
		if lb < 0 {
			lb = n.Node.GetLastBlockIndex()
			if b, e := n.Node.GetBlock(lb); e == nil {
				lrr = b.RoundReceived()
			}
		}
		n.AnchorAtReset[n.App.Epoch] = lb
		n.AnchorRRAtReset[n.App.Epoch] = lrr
		if os.Getenv("VERIF_TRACE_FF") != "" {
			fmt.Fprintf(os.Stderr, "TRACEFF step=%d node %d offers=%v chosen=%d (rr %d) own_last_before=%d last_block_after=%d app_epoch=%d restores %d->%d store=%s incarnation=%d\n",
				nw.Step, n.Idx, nw.ffOffers, lb, lrr, ownLast, n.Node.GetLastBlockIndex(), n.App.Epoch, prevRestores, n.App.Restores, n.Opts.Store, n.Incarnation)
		}
		if lb < ownLast {
			nw.Res.count("fastforward_to_anchor_below_own_last_block", 1)
		}
		if false {
		}
		n.known = map[uint32]int{}
		n.has = map[string]bool{}
		nw.Res.count("fastforward_ok", 1)
	} else {
		nw.Res.count("fastforward_err", 1)
		if n.App.Restores != prevRestores {
			nw.Res.count("fastforward_err_after_restore", 1)
		}
	}
	nw.afterStep()
	return err
}

// FairCycles runs all-pairs gossip cycles among the live babbling nodes with
// the default sync limit and no faults until nobody is busy or maxCycles is
// reached. It returns the number of cycles used and whether all are idle.
func (nw *Network) FairCycles(maxCycles int) (int, bool) {
	for c := 1; c <= maxCycles && !nw.stopped; c++ {
		// pending fast-forwards first
		for _, n := range nw.upReal() {
			if n.Node.GetState() == _state.CatchingUp && !n.Silent {
				nw.FastForward(n)
			}
		}
		b := nw.babblers()
		for _, a := range b {
			if !a.babbling() {
				continue
			}
			sel := nw.selectable(a)
			if len(sel) == 0 {
				nw.Monologue(a)
				continue
			}
			for _, p := range sel {
				if nw.stopped {
					return c, false
				}
				tn := nw.nodeByID(p.ID())
				if tn == nil || !tn.Up || tn.Silent || tn.Left || (tn.Node != nil && !tn.Puppet && tn.Node.GetState() != _state.Babbling && tn.Node.GetState() != _state.Suspended) {
					continue
				}
				if !a.babbling() {
					break
				}
				nw.Gossip(a, p, Fault{}, 0)
			}
		}
		nw.retireLeavers()
		idle := true
		for _, n := range nw.babblers() {
			if n.Core.Busy() {
				idle = false
			}
		}
		for _, n := range nw.upReal() {
			if n.Node.GetState() == _state.CatchingUp || n.Node.GetState() == _state.Joining {
				idle = false
			}
		}
		if len(nw.joinOf) > 0 {
			idle = false
		}
		if idle {
			return c, true
		}
	}
	return maxCycles, false
}
