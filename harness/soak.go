package main

import (
	"bytes"
	"fmt"
	"strings"
	"sync"
	"sync/atomic"
	"time"

	"github.com/mosaicnetworks/babble/src/config"
	hg "github.com/mosaicnetworks/babble/src/hashgraph"
)

// ---------------------------------------------------------------------------
// live soak: real goroutines, timers and TCP on loopback; concurrent
// submitters and readers. Timing only influences which interleavings are
// seen; every verdict is taken from the recorded deliveries.
// ---------------------------------------------------------------------------

func runLiveSoak(cs CaseSpec) *CaseResult {
	res := newResult(cs)
	prop := cs.Prop
	n := int(cs.I("n", 4))
	underRace := cs.Str("race", "") == "1"
	var tune func(c *config.Config)
	readerPause := 200 * time.Microsecond
	if underRace {
		// the race detector slows every node down 5-15x: with the 5 ms heartbeat
		// of the plain runs, gossip goroutines pile up faster than they finish
		tune = func(c *config.Config) {
			c.HeartbeatTimeout = 100 * time.Millisecond
			c.SlowHeartbeatTimeout = 500 * time.Millisecond
		}
		readerPause = 5 * time.Millisecond
	}
	var jit *jitter
	if cs.I("jitter", 0) == 1 {
		jit = newJitter(cs.Seed*977+int64(cs.Index), 6, 3*time.Millisecond)
	}
	ln, err := newLiveNetJ(cs.Seed*131+int64(cs.Index), n, tune, jit)
	if err != nil {
		res.inconclusive("cannot create live network: " + err.Error())
		return res
	}
	defer ln.shutdown()
	ln.run()
	total := int(cs.I("txs", 240))
	pace := time.Duration(cs.I("pace_us", 0)) * time.Microsecond
	var sent sync.Map
	var sentCount int64
	var wg sync.WaitGroup
	stopReaders := make(chan struct{})
	var readerViolation atomic.Value
	var reads int64
	// readers: re-read blocks strictly below the last delivered index of that node
	readersPerNode := int(cs.I("readers", 1))
	if cs.I("readers", 1) > 1 {
		readerPause = 10 * time.Microsecond
	}
	for i := 0; i < len(ln.Nodes)*readersPerNode; i++ {
		l := ln.Nodes[i%len(ln.Nodes)]
		wg.Add(1)
		go func() {
			defer wg.Done()
			for {
				select {
				case <-stopReaders:
					return
				default:
				}
				dl := l.App.DeliveredCopy()
				if len(dl) < 2 {
					time.Sleep(time.Millisecond)
					continue
				}
				d := dl[int(time.Now().UnixNano())%(len(dl)-1)]
				b, err := l.Node.GetBlock(d.Index)
				atomic.AddInt64(&reads, 1)
				if err != nil {
					readerViolation.Store(fmt.Sprintf("node %s cannot read delivered block %d while running: %v", l.Peer.Moniker, d.Index, err))
					return
				}
				if normBody(b.Body) != expectedStoredBodyNorm(d) {
					readerViolation.Store(fmt.Sprintf("node %s reports a body for delivered block %d that differs from what was delivered plus the application's response (concurrent reader)", l.Peer.Moniker, d.Index))
					return
				}
				time.Sleep(readerPause)
			}
		}()
	}
	// submitters
	var swg sync.WaitGroup
	// "crowd": many clients blocked in SubmitTx on the same node at once, in
	// bursts (each burst is released together)
	nSub := int(cs.I("submitters", 3))
	var gate chan struct{}
	if nSub > 3 {
		gate = make(chan struct{})
	}
	for s := 0; s < nSub; s++ {
		s := s
		swg.Add(1)
		go func() {
			defer swg.Done()
			scratch := make([]byte, 0, 64)
			for k := 0; k < total/nSub; k++ {
				if gate != nil {
					<-gate
				}
				tx := []byte(fmt.Sprintf("soak|%d|%d|%d", cs.Index, s, k))
				sent.Store(string(tx), true)
				atomic.AddInt64(&sentCount, 1)
				// the application reuses one scratch buffer for every submission and
				// overwrites it as soon as SubmitTx has returned
				scratch = append(scratch[:0], tx...)
				target := (s + k) % n
				if gate != nil {
					target = k % n // the whole crowd at one node
				}
				ln.Nodes[target].Proxy.SubmitTx(scratch)
				for x := range scratch {
					scratch[x] = '#'
				}
				if pace > 0 {
					// paced submitters: the run spans many rounds, so blocks are
					// delivered (and re-read by the readers) while submissions go on
					time.Sleep(pace)
				} else if k%8 == 7 {
					time.Sleep(time.Millisecond)
				}
			}
		}()
	}
	if gate != nil {
		go func() {
			for b := 0; b < total/nSub; b++ {
				for i := 0; i < nSub; i++ {
					gate <- struct{}{}
				}
				time.Sleep(2 * time.Millisecond)
			}
		}()
		res.count("soak_bursts_of_concurrent_clients_at_one_node", int64(total/nSub))
	}
	submitted := make(chan struct{})
	go func() { swg.Wait(); close(submitted) }()
	select {
	case <-submitted:
	case <-time.After(90 * time.Second):
		close(stopReaders)
		res.inconclusive("watchdog: the submitters did not get their transactions accepted within 90 s (overloaded machine)")
		return res
	}
	// quiescence: every node delivered every transaction (watchdog only)
	quiesce := 60 * time.Second
	if underRace {
		quiesce = time.Duration(cs.I("quiesce_s", 120)) * time.Second
	}
	deadline := time.Now().Add(quiesce)
	done := false
	for time.Now().Before(deadline) && !done {
		done = true
		for _, l := range ln.Nodes {
			c := 0
			for _, d := range l.App.DeliveredCopy() {
				c += len(d.Body.Transactions)
			}
			if c < int(atomic.LoadInt64(&sentCount)) {
				done = false
			}
		}
		if !done {
			time.Sleep(10 * time.Millisecond)
		}
	}
	close(stopReaders)
	wg.Wait()
	res.count("soak_runs", 1)
	if jit != nil {
		jit.mu.Lock()
		res.count("soak_injected_delays_at_store_transport_and_application_calls", jit.Naps)
		jit.mu.Unlock()
	}
	res.count("soak_concurrent_block_reads", atomic.LoadInt64(&reads))
	res.count("soak_transactions_submitted", atomic.LoadInt64(&sentCount))
	if v := readerViolation.Load(); v != nil && prop == "C02" {
		res.violate("C02", "C02:delivered-block-changed", v.(string), map[string]interface{}{"engine": "live soak"})
		return res
	}
	// C02: per node callback sequence
	chains := [][]*Delivered{}
	for _, l := range ln.Nodes {
		dl := l.App.DeliveredCopy()
		chains = append(chains, dl)
		lastRR := -1
		for i, d := range dl {
			if prop == "C02" && (d.Index != i || d.Body.RoundReceived <= lastRR) {
				res.violate("C02", "C02:index-sequence", fmt.Sprintf("live node %s: delivery #%d has index %d, round-received %d after %d", l.Peer.Moniker, i, d.Index, d.Body.RoundReceived, lastRR), map[string]interface{}{"engine": "live soak"})
				return res
			}
			lastRR = d.Body.RoundReceived
		}
		res.count("soak_blocks_delivered", int64(len(dl)))
	}
	// C01: pairwise prefix consistency
	if prop == "C01" {
		for i := 1; i < len(chains); i++ {
			for k := 0; k < len(chains[0]) && k < len(chains[i]); k++ {
				res.count("agreement_block_comparisons", 1)
				if blockDigest(chains[0][k]) != blockDigest(chains[i][k]) {
					res.violate("C01", "C01:block-disagreement", fmt.Sprintf("live nodes 0 and %d delivered different blocks %d", i, k),
						map[string]interface{}{"engine": "live soak", "block_a": describeDelivered(chains[0][k]), "block_b": describeDelivered(chains[i][k])})
					return res
				}
			}
		}
	}
	// C05 safety half (needs no quiescence): nothing committed that was not
	// submitted, nothing committed twice
	if prop == "C05" {
		for i, ch := range chains {
			seen := map[string]int{}
			for _, d := range ch {
				for _, tx := range d.Body.Transactions {
					seen[string(tx)]++
					if _, ok := sent.Load(string(tx)); !ok {
						res.violate("C05", "C05:committed-never-submitted", fmt.Sprintf("live node %d committed %q which nobody submitted", i, trunc(string(tx), 40)), map[string]interface{}{"engine": "live soak"})
						return res
					}
					if seen[string(tx)] > 1 {
						res.violate("C05", "C05:committed-more-than-submitted", fmt.Sprintf("live node %d committed %q %d times", i, trunc(string(tx), 40), seen[string(tx)]), map[string]interface{}{"engine": "live soak"})
						return res
					}
				}
			}
		}
	}
	if !done {
		// Decide on state, not on the clock: if every node is idle under its own
		// lock (nothing pooled, nothing loaded and undetermined, not busy) and
		// has been so for a while, and an accepted transaction is still missing,
		// it will never be committed. Anything else is inconclusive.
		diag, allIdle := liveDiag(ln)
		if allIdle {
			time.Sleep(2 * time.Second)
			diag, allIdle = liveDiag(ln)
		}
		if allIdle && (prop == "C05" || prop == "C06") {
			missing := ""
			for i, l := range ln.Nodes {
				have := map[string]bool{}
				for _, d := range l.App.DeliveredCopy() {
					for _, tx := range d.Body.Transactions {
						have[string(tx)] = true
					}
				}
				sent.Range(func(k, _ interface{}) bool {
					if !have[k.(string)] {
						missing = fmt.Sprintf("transaction %q was accepted by SubmitTx but live node %d never commits it: every node is idle with empty pools", k.(string), i)
						return false
					}
					return true
				})
				if missing != "" {
					break
				}
			}
			if missing != "" && prop == "C06" {
				res.violate("C06", "C06:transaction-not-committed", "live network: "+missing+" (fair gossip among all validators, nobody busy any more)", map[string]interface{}{"engine": "live soak", "nodes": diag})
				return res
			}
			if missing != "" {
				res.violate("C05", "C05:accepted-transaction-dropped", missing, map[string]interface{}{"engine": "live soak", "nodes": diag})
				return res
			}
		}
		res.inconclusive(fmt.Sprintf("watchdog: the live network did not deliver every submitted transaction within %v; nodes: %v", quiesce, diag))
		return res
	}
	// C05: exactly once everywhere
	if prop == "C05" {
		for i, ch := range chains {
			seen := map[string]int{}
			for _, d := range ch {
				for _, tx := range d.Body.Transactions {
					seen[string(tx)]++
				}
			}
			bad := ""
			sent.Range(func(k, _ interface{}) bool {
				if seen[k.(string)] != 1 {
					bad = fmt.Sprintf("transaction %q committed %d times at live node %d", k.(string), seen[k.(string)], i)
					return false
				}
				return true
			})
			for k := range seen {
				if _, ok := sent.Load(k); !ok {
					bad = fmt.Sprintf("live node %d committed %q which nobody submitted", i, trunc(k, 40))
				}
			}
			if bad != "" {
				res.violate("C05", "C05:not-exactly-once-after-fair-suffix", bad, map[string]interface{}{"engine": "live soak"})
				return res
			}
			res.count("tx_final_exactly_once_checks", int64(len(seen)))
		}
	}
	res.Evaluations = atomic.LoadInt64(&sentCount)
	if len(chains[0]) >= 3 {
		res.digest("soak", cs.Seed, cs.Index, len(chains[0]))
	}
	res.Sample = map[string]interface{}{"kind": "live soak (real goroutines, TCP loopback, concurrent submitters and block readers)", "nodes": n, "transactions": atomic.LoadInt64(&sentCount), "blocks": len(chains[0]), "concurrent_reads": atomic.LoadInt64(&reads)}
	return res
}

func expectedStoredBodyNorm(d *Delivered) string {
	b := d.Body
	b.StateHash = d.Resp.StateHash
	b.InternalTransactionReceipts = d.Resp.InternalTransactionReceipts
	return normBody(b)
}

var _ = bytes.Equal

// liveDiag reads, under each node's own lock, what keeps a live network from
// being quiescent.
func liveDiag(ln *liveNet) ([]string, bool) {
	out := []string{}
	allIdle := true
	for i, l := range ln.Nodes {
		var line string
		idle := false
		l.Node.VerifLockCore(func() {
			c := l.Node.VerifCore()
			h := c.Hg()
			pool := len(c.TransactionPool())
			busy := c.Busy()
			line = fmt.Sprintf("node %d state=%s busy=%v pool=%d loaded=%d undetermined=%d lastblock=%d round=%v", i, l.Node.GetState().String(), busy, pool, h.PendingLoadedEvents, len(h.UndeterminedEvents), h.Store.LastBlockIndex(), lastRoundOf(h))
			idle = !busy && pool == 0 && h.PendingLoadedEvents == 0
		})
		txs := 0
		for _, d := range l.App.DeliveredCopy() {
			txs += len(d.Body.Transactions)
		}
		line += fmt.Sprintf(" delivered_txs=%d", txs)
		out = append(out, line)
		if !idle {
			allIdle = false
		}
	}
	return out, allIdle
}

func lastRoundOf(h *hg.Hashgraph) int { return h.Store.LastRound() }

func init() {
	// A live soak whose worker process dies of a Go runtime fatal error raised
	// in Babble code (concurrent map access between the block API and the
	// gossip routines) is a node that died while reporting a delivered block.
	crashHandlers["C02"] = func(r *CaseResult) *Violation {
		// (the goroutine the runtime blames may be the reader in Node.GetBlock or
		// the gossip routine writing the block cache)
		if r.Case.Kind != "soak" || !strings.Contains(r.Note, "fatal error: concurrent map") ||
			!(strings.Contains(r.Note, "node.(*Node).GetBlock") || strings.Contains(r.Note, "(*InmemStore).GetBlock") || strings.Contains(r.Note, "(*InmemStore).SetBlock")) {
			return nil
		}
		sig := "C02:node-dies-while-reporting-a-delivered-block"
		msg := "a node read through its block API (Node.GetBlock, what the HTTP service calls) while it was committing blocks died of a Go runtime fatal error (concurrent map access in its block cache): " + firstLine(r.Note[strings.Index(r.Note, "fatal error"):])
		path := writeWitness(r.Case, "C02", sig, msg, map[string]interface{}{"output": r.Note})
		return &Violation{Prop: "C02", Sig: sig, Msg: msg, Replay: path}
	}
}
