package main

import (
	"fmt"
	"net"
	"sync"
	"time"

	aproxy "github.com/mosaicnetworks/babble/src/proxy/socket/app"
	bproxy "github.com/mosaicnetworks/babble/src/proxy/socket/babble"
)

// ---------------------------------------------------------------------------
// C20, a node that is busy: the application submits through the socket proxy
// while nobody takes transactions from the node-side channel for longer than
// the proxy timeout (what happens while the node holds its core lock through a
// long sync, a fast-forward or a bootstrap). Every SubmitTx that reports
// success must be a transaction the node side then receives; a call that
// cannot deliver may block or fail, it may not succeed empty-handed. The
// verdict is on what was received once the channel has been drained to
// quiescence after every call has returned, not on the clock. (Prompted by
// seeded change C20f.)
// ---------------------------------------------------------------------------

func runC20Busy(cs CaseSpec) *CaseResult {
	res := newResult(cs)
	rng := cs.rng("c20busy")
	h := &echoHandler{snapshot: []byte("snap")}
	l1, _ := net.Listen("tcp", "127.0.0.1:0")
	appBind := l1.Addr().String()
	l1.Close()
	l2, _ := net.Listen("tcp", "127.0.0.1:0")
	nodeBind := l2.Addr().String()
	l2.Close()
	timeout := time.Duration(cs.I("timeout_ms", 400)) * time.Millisecond
	ap, err := aproxy.NewSocketAppProxy(appBind, nodeBind, timeout, quietLogger())
	if err != nil {
		res.inconclusive("babble-side proxy: " + err.Error())
		return res
	}
	bp, err := bproxy.NewSocketBabbleProxy(nodeBind, appBind, h, timeout, quietLogger())
	if err != nil {
		res.inconclusive("app-side proxy: " + err.Error())
		return res
	}
	submitCh := ap.SubmitCh()
	clients := int(cs.I("clients", 3))
	type outcome struct {
		tx  string
		err error
	}
	var mu sync.Mutex
	outcomes := []outcome{}
	var wg sync.WaitGroup
	for c := 0; c < clients; c++ {
		wg.Add(1)
		go func(c int) {
			defer wg.Done()
			for k := 0; k < 2; k++ {
				tx := fmt.Sprintf("busy-%d-%d-%d-%d", cs.Index, c, k, rng.Int63())
				err := bp.SubmitTx([]byte(tx))
				mu.Lock()
				outcomes = append(outcomes, outcome{tx, err})
				mu.Unlock()
			}
		}(c)
	}
	// the node is busy for several timeouts
	time.Sleep(time.Duration(cs.I("busy_timeouts", 3)) * timeout)
	received := map[string]int{}
	done := make(chan struct{})
	go func() { wg.Wait(); close(done) }()
	allReturned := false
	quiet := 0
	deadline := time.After(60 * time.Second)
	for quiet < 3 {
		select {
		case tx := <-submitCh:
			received[string(tx)]++
			quiet = 0
		case <-done:
			allReturned = true
			done = nil
		case <-time.After(2 * timeout):
			if allReturned {
				quiet++
			}
		case <-deadline:
			res.inconclusive("watchdog: submitters still blocked after the node side resumed reading")
			return res
		}
	}
	mu.Lock()
	defer mu.Unlock()
	okCalls, failed := 0, 0
	for _, o := range outcomes {
		res.Evaluations++
		if o.err != nil {
			failed++
			continue
		}
		okCalls++
		if received[o.tx] == 0 {
			res.violate("C20", "C20:submission-reported-as-success-never-reached-the-node",
				fmt.Sprintf("SubmitTx through the socket proxy returned nil for %q while the node side was not taking transactions for %d proxy timeouts, and the transaction never arrived after it resumed (%d of %d calls reported success, %d transactions arrived)", o.tx, cs.I("busy_timeouts", 3), okCalls, len(outcomes), len(received)),
				map[string]interface{}{"proxy_timeout_ms": timeout.Milliseconds(), "clients": clients})
			return res
		}
		if received[o.tx] > 1 {
			res.count("busy_submissions_delivered_more_than_once", 1)
		}
	}
	res.count("busy_submissions_reported_as_success_and_received", int64(okCalls))
	res.count("busy_submissions_reported_as_failed", int64(failed))
	if okCalls+failed >= 2 {
		res.digest("c20busy", cs.Seed, cs.Index, okCalls, failed)
	}
	res.Sample = map[string]interface{}{"kind": "submissions through the socket proxy while the node side takes nothing for several proxy timeouts", "calls": len(outcomes), "reported_success": okCalls, "reported_failure": failed, "received": len(received)}
	return res
}
