package main

import (
	"fmt"

	hg "github.com/mosaicnetworks/babble/src/hashgraph"
	bnet "github.com/mosaicnetworks/babble/src/net"
	"github.com/mosaicnetworks/babble/src/node"
	"github.com/mosaicnetworks/babble/src/peers"
	"github.com/mosaicnetworks/babble/src/proxy"
)

// Puppet is a validator without a Node: it has a key and a seat in the
// validator set, keeps its own view of the DAG in a real core (for honest
// bookkeeping only) and builds its events itself, with arbitrary content.
// It never equivocates.
type Puppet struct {
	nw   *Network
	sn   *SimNode
	core *node.VerifCore
	app  *App
	// Timestamp, if set, chooses the claimed creation time of each event.
	Timestamp func() int64
	// Sigs, if set, chooses the block signatures put into each event.
	Sigs func(p *Puppet) []hg.BlockSignature
	// TxProb is the probability that an event carries a transaction.
	TxProb float64
	events int
	// LeaveAtEvent, if > 0: the puppet's event number LeaveAtEvent carries a
	// (validly self-signed) request to leave the validator set; the puppet keeps
	// creating events afterwards, which an honest leaver would not do.
	LeaveAtEvent int
}

// Departed: the puppet's own view says it is no longer a validator.
func (p *Puppet) Departed() bool {
	return p.LeaveAtEvent > 0 && p.events > p.LeaveAtEvent && p.core.Validators().ByID[p.sn.ID] == nil
}

func (nw *Network) makePuppet(sn *SimNode) *Puppet {
	p := &Puppet{nw: nw, sn: sn, app: NewApp("puppet"), TxProb: 0.3}
	store := hg.NewInmemStore(50000)
	cb := func(b hg.Block) (proxy.CommitResponse, error) { return p.app.CommitHandler(b) }
	gen := peers.NewPeerSet(clonePeers(nw.Genesis))
	p.core = node.NewVerifCore(node.NewValidator(sn.Key, sn.Name), gen, peers.NewPeerSet(clonePeers(nw.Genesis)), store, cb, false, quietLogger())
	sn.Puppet = true
	sn.Up = true
	sn.Responder = p.respond
	if nw.puppets == nil {
		nw.puppets = map[int]*Puppet{}
	}
	nw.puppets[sn.Idx] = p
	return p
}

// respond answers honest nodes that gossip with the puppet (honest format).
func (p *Puppet) respond(from *SimNode, cmd interface{}) (interface{}, error) {
	switch c := cmd.(type) {
	case *bnet.SyncRequest:
		diff, err := p.core.EventDiff(c.Known)
		if err != nil {
			return nil, err
		}
		if c.SyncLimit >= 0 && len(diff) > c.SyncLimit {
			diff = diff[:c.SyncLimit]
		}
		w, _ := p.core.ToWire(diff)
		return &bnet.SyncResponse{FromID: p.sn.ID, Events: w, Known: p.core.KnownEvents()}, nil
	case *bnet.EagerSyncRequest:
		ok := p.insertWire(c.Events) == nil
		return &bnet.EagerSyncResponse{FromID: p.sn.ID, Success: ok}, nil
	}
	return nil, fmt.Errorf("puppet does not serve this request")
}

func (p *Puppet) insertWire(events []hg.WireEvent) error {
	for _, we := range events {
		evs, err := p.core.FromWire([]hg.WireEvent{we})
		if err != nil {
			return err
		}
		if err := p.core.InsertEventAndRunConsensus(&evs[0], false); err != nil {
			if hg.IsNormalSelfParentError(err) {
				continue
			}
			return err
		}
	}
	p.core.ProcessSigPool()
	return nil
}

// Step: the puppet pulls from honest node h, creates one event of its own and
// pushes what h lacks.
func (p *Puppet) Step(h *SimNode) error {
	nw := p.nw
	defer nw.afterStep()
	nw.Res.count("step_puppet", 1)
	call := func(cmd interface{}, out interface{}) error {
		ch := make(chan bnet.RPCResponse, 1)
		h.Node.VerifProcessRPC(bnet.RPC{Command: cmd, RespChan: ch})
		r := <-ch
		if r.Response != nil {
			if err := wireCopy(r.Response, out); err != nil {
				return err
			}
		}
		return r.Error
	}
	var req bnet.SyncRequest
	wireCopy(&bnet.SyncRequest{FromID: p.sn.ID, Known: p.core.KnownEvents(), SyncLimit: 1000}, &req)
	var resp bnet.SyncResponse
	if err := call(&req, &resp); err != nil {
		return err
	}
	if err := p.insertWire(resp.Events); err != nil {
		nw.Res.count("puppet_insert_errors", 1)
		return err
	}
	// own event
	head, seq := p.core.Head()
	other := ""
	if l, err := p.core.Hg().Store.LastEventFrom(h.PubHex); err == nil {
		other = l
	}
	var txs [][]byte
	if nw.Rng.Float64() < p.TxProb {
		tx := nw.NewTx(p.sn.Idx, 0)
		key := string(tx)
		st := &SubmittedTx{Bytes: append([]byte{}, tx...), Node: p.sn.Idx, Step: nw.Step, Count: 1, Inc: p.sn.Incarnation, ByNode: map[[2]int]int{{p.sn.Idx, p.sn.Incarnation}: 1}}
		nw.Submitted[key] = st
		txs = append(txs, tx)
	}
	var sigs []hg.BlockSignature
	if p.Sigs != nil {
		sigs = p.Sigs(p)
	} else {
		sigs = p.core.SelfBlockSignatures()
	}
	var itxs []hg.InternalTransaction
	if p.LeaveAtEvent > 0 && p.events+1 == p.LeaveAtEvent {
		itx := hg.NewInternalTransactionLeave(*p.sn.peer())
		if err := itx.Sign(p.sn.Key); err == nil {
			itxs = append(itxs, itx)
			nw.Res.count("puppet_leave_requests", 1)
		}
	}
	ev := hg.NewEvent(txs, itxs, sigs, []string{head, other}, keysPub(p.sn.Key), seq+1)
	if p.Timestamp != nil {
		ev.Body.Timestamp = p.Timestamp()
	}
	if err := ev.Sign(p.sn.Key); err != nil {
		return err
	}
	if err := p.core.InsertEventAndRunConsensus(ev, true); err != nil {
		nw.Res.count("puppet_own_event_errors", 1)
		return err
	}
	p.events++
	nw.Res.count("puppet_events_created", 1)
	// push
	diff, err := p.core.EventDiff(resp.Known)
	if err != nil {
		return err
	}
	w, _ := p.core.ToWire(diff)
	var ereq bnet.EagerSyncRequest
	wireCopy(&bnet.EagerSyncRequest{FromID: p.sn.ID, Events: w}, &ereq)
	var eresp bnet.EagerSyncResponse
	if err := call(&ereq, &eresp); err != nil {
		nw.Res.count("puppet_push_errors", 1)
		return err
	}
	return nil
}
