package main

import (
	"fmt"
	"time"

	hg "github.com/mosaicnetworks/babble/src/hashgraph"
	bnet "github.com/mosaicnetworks/babble/src/net"
	_state "github.com/mosaicnetworks/babble/src/node/state"
	"github.com/mosaicnetworks/babble/src/peers"
)

// ---------------------------------------------------------------------------
// C17: non-babbling nodes are frozen; suspended nodes serve syncs; auto-suspend
// ---------------------------------------------------------------------------

type frozenView struct {
	known  string
	last   int
	seq    int
	undet  int
	blocks int
	topo   int
}

func viewOf(n *SimNode) frozenView {
	_, seq := n.Core.Head()
	return frozenView{known: fmt.Sprint(sortedKnown(n.Core.KnownEvents())), last: n.Node.GetLastBlockIndex(), seq: seq,
		undet: len(n.Core.Hg().UndeterminedEvents), blocks: len(n.App.Delivered), topo: n.Core.Hg().VerifTopologicalIndex()}
}

func sortedKnown(m map[uint32]int) [][2]int {
	out := [][2]int{}
	for k, v := range m {
		out = append(out, [2]int{int(k), v})
	}
	for i := range out {
		for j := i + 1; j < len(out); j++ {
			if out[j][0] < out[i][0] {
				out[i], out[j] = out[j], out[i]
			}
		}
	}
	return out
}

// expectedDiff computes, from the harness's record of node x's insertion
// order, what x must answer to a sync request with the given known map.
func expectedDiff(nw *Network, x *SimNode, known map[uint32]int) [][2]int {
	out := [][2]int{}
	for _, h := range x.order {
		e := nw.Rec.Events[h]
		if e == nil || e.CreatorIdx < 0 {
			continue
		}
		id := nw.Nodes[e.CreatorIdx].ID
		k, ok := known[id]
		if !ok {
			k = -1
		}
		if e.Index > k {
			out = append(out, [2]int{int(id), e.Index})
		}
	}
	return out
}

func runC17States(cs CaseSpec) *CaseResult {
	res := newResult(cs)
	nw := NewNetwork(cs, res)
	defer nw.Close()
	rng := cs.rng("c17")
	opts := defaultOpts()
	nw.DefaultOpts = opts
	n := int(cs.I("n", 4))
	nw.GenesisNodes(n, opts, nil)
	nw.CheckSuspendAfterGossip = false
	nw.RunSchedule(ScheduleSpec{Steps: int(cs.I("steps", 150)), Shape: "lag", SubmitProb: 0.5, TxKinds: 3})
	helper := nw.Nodes[0] // stays babbling, source of valid events
	mode := cs.Str("state", "suspended")
	var x *SimNode
	switch mode {
	case "suspended":
		x = nw.Nodes[1]
		x.Node.Suspend()
	case "maintenance":
		x = nw.Nodes[1]
		o := opts
		o.Maintenance = true
		cur := clonePeers(helper.Core.Peers().Peers)
		if err := nw.startNode(x, o, cur, clonePeers(nw.Genesis)); err != nil {
			res.inconclusive(err.Error())
			return res
		}
	case "catchingup":
		x = nw.Nodes[1]
		o := opts
		o.FastSync = true
		cur := clonePeers(helper.Core.Peers().Peers)
		if err := nw.startNode(x, o, cur, clonePeers(nw.Genesis)); err != nil {
			res.inconclusive(err.Error())
			return res
		}
	case "joining":
		x = nw.addIdentity("late")
		cur := clonePeers(helper.Core.Peers().Peers)
		if err := nw.startNode(x, opts, cur, clonePeers(nw.Genesis)); err != nil {
			res.inconclusive(err.Error())
			return res
		}
		x.Up = false
	case "shutdown":
		x = nw.Nodes[1]
		x.Node.Shutdown()
	}
	want := map[string]_state.State{"suspended": _state.Suspended, "maintenance": _state.Suspended, "catchingup": _state.CatchingUp, "joining": _state.Joining, "shutdown": _state.Shutdown}[mode]
	if x.Node.GetState() != want {
		res.inconclusive(fmt.Sprintf("could not put the node into state %s (it is %s)", want, x.Node.GetState()))
		return res
	}
	x.Silent = true // nobody gossips with it through the scheduler; the harness talks to it directly
	nw.PinnedSilent = map[int]bool{x.Idx: true}
	// the rest of the network moves on, so that there is always something new to offer
	for _, o := range nw.Nodes {
		if o != x && o.Node != nil && o.babbling() {
			nw.Submit(o, nw.NewTx(o.Idx, 0))
		}
	}
	nw.RunSchedule(ScheduleSpec{Steps: 40, Shape: "uniform", SubmitProb: 0.6, TxKinds: 2})
	send := func(cmd interface{}) (interface{}, error) {
		ch := make(chan bnet.RPCResponse, 1)
		x.Node.VerifProcessRPC(bnet.RPC{Command: cmd, RespChan: ch})
		select {
		case r := <-ch:
			return r.Response, r.Error
		default:
			return nil, fmt.Errorf("no answer")
		}
	}
	reqs := int(cs.I("reqs", 60))
	for i := 0; i < reqs; i++ {
		// keep the network moving between requests
		if i%5 == 4 {
			nw.RunSchedule(ScheduleSpec{Steps: 6, Shape: "uniform", SubmitProb: 0.7, TxKinds: 2})
		}
		before := viewOf(x)
		kind := []string{"eagersync", "sync", "join", "fastforward", "submit", "eagersync"}[i%6]
		res.Evaluations++
		res.count("frozen_requests_"+kind, 1)
		desc := kind
		switch kind {
		case "eagersync":
			// valid events the node lacks, from an honest peer
			diff, err := helper.Core.EventDiff(x.Core.KnownEvents())
			if err != nil || len(diff) == 0 {
				continue
			}
			if len(diff) > 30 {
				diff = diff[:30]
			}
			w, _ := helper.Core.ToWire(diff)
			var req bnet.EagerSyncRequest
			wireCopy(&bnet.EagerSyncRequest{FromID: helper.ID, Events: w}, &req)
			_, err = send(&req)
			if err == nil {
				nw.violate("C17", "C17:mutating-request-not-refused", fmt.Sprintf("a %s node answered an EagerSyncRequest carrying %d valid new events without an error", mode, len(w)), map[string]interface{}{"state": mode})
				return res
			}
			desc = fmt.Sprintf("EagerSyncRequest with %d valid events it lacks", len(w))
		case "join":
			k := detKey(cs.Seed, "c17joiner", cs.Index*100+i)
			itx := hg.NewInternalTransactionJoin(*peers.NewPeer(pubHex(k), "late:1", "late"))
			itx.Sign(k)
			var req bnet.JoinRequest
			wireCopy(&bnet.JoinRequest{InternalTransaction: itx}, &req)
			x.Conf.JoinTimeout = 10 * time.Millisecond
			poolBefore := len(x.Core.InternalTransactionPool())
			_, err := send(&req)
			if err == nil {
				nw.violate("C17", "C17:mutating-request-not-refused", fmt.Sprintf("a %s node answered a valid JoinRequest without an error", mode), map[string]interface{}{"state": mode})
				return res
			}
			if len(x.Core.InternalTransactionPool()) != poolBefore {
				nw.violate("C17", "C17:join-request-queued-while-not-babbling", fmt.Sprintf("a %s node queued a join request", mode), nil)
				return res
			}
		case "sync":
			known := helper.Core.KnownEvents()
			if rng.Intn(2) == 0 {
				known = map[uint32]int{}
			}
			limit := []int{1000, 5, 1}[rng.Intn(3)]
			var req bnet.SyncRequest
			wireCopy(&bnet.SyncRequest{FromID: helper.ID, Known: known, SyncLimit: limit}, &req)
			resp, err := send(&req)
			if mode == "suspended" {
				// a node suspended at run time still serves syncs, correctly
				if err != nil {
					nw.violate("C17", "C17:suspended-node-refuses-sync", fmt.Sprintf("a node suspended at run time refused a SyncRequest: %v", err), nil)
					return res
				}
				sr, _ := resp.(*bnet.SyncResponse)
				exp := expectedDiff(nw, x, req.Known)
				if len(exp) > limit {
					exp = exp[:limit]
				}
				got := [][2]int{}
				if sr != nil {
					for _, we := range sr.Events {
						got = append(got, [2]int{int(we.Body.CreatorID), we.Body.Index})
					}
				}
				res.count("frozen_suspended_sync_diffs_checked", 1)
				if fmt.Sprint(got) != fmt.Sprint(exp) {
					nw.violate("C17", "C17:suspended-sync-diff-wrong",
						fmt.Sprintf("a suspended node answered a SyncRequest with %d events; the events it holds beyond the requester's known map, in its insertion order, are %d", len(got), len(exp)),
						map[string]interface{}{"got_head": fmt.Sprint(head(got, 8)), "expected_head": fmt.Sprint(head(exp, 8))})
					return res
				}
			}
		case "fastforward":
			var req bnet.FastForwardRequest
			wireCopy(&bnet.FastForwardRequest{FromID: helper.ID}, &req)
			send(&req)
		case "submit":
			if mode != "shutdown" {
				x.Node.VerifAddTransaction(nw.NewTx(x.Idx, 0))
			}
		}
		after := viewOf(x)
		if before != after {
			nw.violate("C17", "C17:non-babbling-node-changed",
				fmt.Sprintf("a %s node changed after a %s: known events / own sequence / undetermined events / delivered blocks went from %+v to %+v", mode, desc, before, after),
				map[string]interface{}{"state": mode, "request": desc})
			return res
		}
		res.count("frozen_checks_passed", 1)
	}
	res.digest("c17", cs.Seed, cs.Index, mode, reqs)
	res.Sample = map[string]interface{}{"kind": "requests delivered to a non-babbling node", "state": mode, "requests": reqs}
	return res
}

func head(x [][2]int, k int) [][2]int {
	if len(x) > k {
		return x[:k]
	}
	return x
}

// MonSuspend checks the auto-suspend threshold after every gossip step.
type MonSuspend struct {
	suspendedSeen map[*SimNode]bool
}

func NewMonSuspend() *MonSuspend   { return &MonSuspend{suspendedSeen: map[*SimNode]bool{}} }
func (m *MonSuspend) Name() string { return "suspend" }
func (m *MonSuspend) AfterStep(nw *Network) {
	n := nw.lastActor
	if n == nil || n.Node == nil || !nw.lastActorChecked {
		return
	}
	nw.lastActorChecked = false
	h := n.Core.Hg()
	u := len(h.UndeterminedEvents) - n.Node.VerifInitialUndeterminedEvents()
	limit := n.Conf.SuspendLimit * n.Core.Validators().Len()
	_, removed, _, _ := n.Core.Rounds()
	accepted, _, _, _ := n.Core.Rounds()
	evicted := h.LastConsensusRound != nil && removed > 0 && removed > accepted && *h.LastConsensusRound >= removed
	st := n.Node.GetState()
	nw.Res.count("suspend_threshold_checks", 1)
	nw.Res.max("suspend_max_new_undetermined_seen", int64(u))
	if st == _state.Suspended && !m.suspendedSeen[n] {
		m.suspendedSeen[n] = true
		nw.Res.count("suspend_transitions_observed", 1)
		if evicted {
			nw.Res.count("suspend_transitions_by_eviction", 1)
		}
		if !(u > limit) && !evicted {
			nw.violate("C17", "C17:suspended-below-limit",
				fmt.Sprintf("node %d suspended itself with %d new undetermined events, limit %d x %d validators = %d, not evicted", n.Idx, u, n.Conf.SuspendLimit, n.Core.Validators().Len(), limit), nil)
		}
		return
	}
	if st == _state.Babbling && (u > limit || evicted) {
		nw.violate("C17", "C17:not-suspended-above-limit",
			fmt.Sprintf("node %d keeps babbling after its suspension check with %d new undetermined events (limit %d x %d validators = %d, evicted=%v)", n.Idx, u, n.Conf.SuspendLimit, n.Core.Validators().Len(), limit, evicted), nil)
	}
}
func (m *MonSuspend) Finish(nw *Network) {}

func runC17Suspend(cs CaseSpec) *CaseResult {
	res := newResult(cs)
	nw := NewNetwork(cs, res)
	defer nw.Close()
	opts := defaultOpts()
	opts.SuspendLimit = int(cs.I("limit", 5))
	nw.DefaultOpts = opts
	n := int(cs.I("n", 4))
	nw.GenesisNodes(n, opts, nil)
	mon := NewMonSuspend()
	nw.Mons = []Monitor{mon}
	rng := cs.rng("c17s")
	// phase 1: normal operation (nobody may suspend)
	sp := ScheduleSpec{Steps: int(cs.I("steps", 120)), Shape: "uniform", SubmitProb: 0.5, TxKinds: 2, Leaves: int(cs.I("leaves", 0)), Joins: int(cs.I("joins", 0))}
	nw.RunSchedule(sp)
	// let pending membership changes take effect before the quorum is lost
	if sp.Leaves+sp.Joins > 0 {
		saved := opts.SuspendLimit
		nw.FairCycles(25)
		_ = saved
	}
	// phase 2: quorum lost: more than a third of the *current* validators go silent for good
	cur := 0
	for _, x := range nw.babblers() {
		if x.Core.Validators().ByID[x.ID] != nil {
			cur++
		}
	}
	for _, x := range nw.babblers() {
		if x.Core.Validators().Len() != n {
			res.count("suspend_runs_with_changed_validator_count", 1)
			break
		}
	}
	k := cur/3 + 1
	if cur <= 1 {
		k = 0
	}
	silent := 0
	for _, i := range rng.Perm(len(nw.Nodes)) {
		x := nw.Nodes[i]
		if silent < k && x.babbling() {
			x.Silent = true
			silent++
		}
	}
	for s := 0; s < int(cs.I("steps2", 400)) && !nw.stopped; s++ {
		b := nw.babblers()
		if len(b) == 0 {
			break
		}
		a := b[rng.Intn(len(b))]
		if rng.Intn(3) == 0 {
			nw.Submit(a, nw.NewTx(a.Idx, 0))
		}
		sel := nw.selectable(a)
		if len(sel) == 0 {
			nw.Monologue(a)
			continue
		}
		nw.Gossip(a, sel[rng.Intn(len(sel))], Fault{}, 0)
	}
	res.Evaluations = int64(nw.Step)
	if res.Counters["suspend_transitions_observed"] > 0 {
		res.digest("c17s", cs.Seed, cs.Index, nw.Step)
	}
	// once suspended the node must stay frozen under further gossip from others
	res.Sample = map[string]interface{}{"kind": "run that loses its quorum", "n": n, "suspend_limit": opts.SuspendLimit, "silent": silent, "steps": nw.Step, "suspensions": res.Counters["suspend_transitions_observed"]}
	return res
}

func init() {
	register(&PropDef{
		ID: "C17", Level: "exploration", Engine: "nodesim",
		Rule:          "two kinds of cases: (a) a real node is put into one of the states suspended-at-run-time / maintenance mode / joining / catching-up / shut down and receives ~60 valid, would-be-effective requests (EagerSyncRequests with events it lacks from an honest peer, SyncRequests, validly signed JoinRequests, FastForwardRequests, submitted transactions) while the rest of the network keeps moving; after each: known events, own sequence number, undetermined events and delivered blocks unchanged, mutating requests answered with an error, and a run-time-suspended node answers SyncRequests with exactly the events it holds beyond the requester's known map in its insertion order (oracle from the harness's record); (b) runs that lose their quorum with small suspend limits: after every heartbeat's suspension check the node must be suspended iff new undetermined events > limit x validators or it was evicted; non-trivial: >=1 suspension observed or >=30 requests judged",
		Assumptions:   []string{"submitted transactions may enter the pool of a non-babbling node (they create no event)"},
		MinNontrivial: 8,
		Cases: func(tier string, seed int64) []CaseSpec {
			count := 40
			if tier == "thorough" {
				count = 500
			}
			states := []string{"suspended", "maintenance", "catchingup", "joining", "shutdown"}
			cs := []CaseSpec{}
			for i := 0; i < count; i++ {
				if i%2 == 0 {
					cs = append(cs, CaseSpec{Kind: "states", P: map[string]int64{"n": int64(3 + i%4), "steps": int64(100 + (i*13)%100), "reqs": 60}, S: map[string]string{"state": states[(i/2)%len(states)]}})
				} else {
					c := CaseSpec{Kind: "suspend", P: map[string]int64{"n": int64(2 + i%6), "limit": int64(1 + (i*3)%9), "steps": int64(80 + (i*7)%80), "steps2": 500}}
					switch (i / 2) % 3 {
					case 1:
						c.P["leaves"] = 1
						c.P["n"] = int64(4 + i%2)
						c.P["steps"] = 300
						c.P["limit"] = int64(30 + (i*3)%15)
						c.P["steps2"] = 1200
					case 2:
						c.P["joins"] = 1
						c.P["n"] = int64(3 + i%3)
						c.P["steps"] = 300
						c.P["limit"] = int64(30 + (i*3)%15)
						c.P["steps2"] = 1200
					}
					cs = append(cs, c)
				}
			}
			live := 6
			if tier == "thorough" {
				live = 36
			}
			for i := 0; i < live; i++ {
				mode := []string{"lonely-self", "absent"}[i%2]
				cs = append(cs, CaseSpec{Kind: "live", P: map[string]int64{"n": int64(3 + (i/2)%4), "limit": int64(3 + (i*5)%8), "pendingjoin": int64(i % 2)}, S: map[string]string{"mode": mode}})
			}
			// validators started without gossip (Run(false)) that only answer, while a
			// validator that never gives up pushes events at them
			passive := 3
			if tier == "thorough" {
				passive = 24
			}
			for i := 0; i < passive; i++ {
				cs = append(cs, CaseSpec{Kind: "live", P: map[string]int64{"n": int64(4 + i%2), "limit": int64(3 + (i*3)%6), "passive": 1}, S: map[string]string{"mode": "absent"}})
			}
			rets := 48
			if tier == "thorough" {
				rets = 480
			}
			for i := 0; i < rets; i++ {
				cs = append(cs, CaseSpec{Kind: "live", P: map[string]int64{"limit": int64(1 + i%5), "ret": 1}, S: map[string]string{"mode": "babble-return"}})
			}
			calls := 6
			if tier == "thorough" {
				calls = 60
			}
			for i := 0; i < calls; i++ {
				cs = append(cs, CaseSpec{Kind: "live", P: map[string]int64{"call": 1, "slow_ms": int64(i % 4), "tcp_ms": int64(5 * (i % 4)), "warm": int64(20 + 5*(i%4))}, S: map[string]string{"mode": "suspend-call"}})
			}
			for i := 0; i < 2*raceSoaks(tier); i++ {
				mode := []string{"lonely-self", "absent"}[i%2]
				cs = append(cs, CaseSpec{Kind: "live", P: map[string]int64{"n": int64(3 + (i/2)%4), "limit": int64(4 + (i*5)%8), "pendingjoin": int64((i / 2) % 2)}, S: map[string]string{"mode": mode, "race": "1"}})
			}
			return cs
		},
		Run: func(cs CaseSpec) *CaseResult {
			if cs.Kind == "live" {
				return runC17Live(cs)
			}
			if cs.Kind == "suspend" {
				return runC17Suspend(cs)
			}
			return runC17States(cs)
		},
		PerCaseTimeout: 10 * time.Minute,
	})
}
