package main

import (
	hg "github.com/mosaicnetworks/babble/src/hashgraph"
	"github.com/mosaicnetworks/babble/src/node"
	"github.com/mosaicnetworks/babble/src/peers"
	"github.com/mosaicnetworks/babble/src/proxy"
)

// observerCore is a real core whose own key is not a validator: it gives the
// harness the real insert / wire-decoding / fast-forward paths without the
// core creating events of its own.
type observerCore struct {
	*node.VerifCore
	App *App
}

func newObserverCore(k *SimKey, ps *peers.PeerSet, store hg.Store, onBlock func(hg.Block)) *observerCore {
	app := NewApp("observer")
	cb := func(b hg.Block) (proxy.CommitResponse, error) {
		if onBlock != nil {
			onBlock(b)
		}
		return app.CommitHandler(b)
	}
	vc := node.NewVerifCore(node.NewValidator(k.K, "observer"), ps, ps, store, cb, false, quietLogger())
	return &observerCore{VerifCore: vc, App: app}
}
