package main

import (
	"fmt"
	"math/rand"
	"os"
	"path/filepath"

	"github.com/dgraph-io/badger"
	badger_options "github.com/dgraph-io/badger/options"
	hg "github.com/mosaicnetworks/babble/src/hashgraph"
	"github.com/mosaicnetworks/babble/src/peers"
)

// ---------------------------------------------------------------------------
// C07, the bootstrap route: InsertEvent is also the door through which a
// restarted node's own database comes back in. The property says a node's DAG
// "only ever contains" events with a valid signature of their stated creator
// and membership requests signed by the peer they concern; it makes no
// exception for the route. One case = one valid DAG written to a Badger store
// by a real Hashgraph, the store closed, ONE event record altered while the
// node is down (written with the raw database handle, value produced by
// Event.MarshalDB), the store reopened and bootstrapped. Afterwards every
// event the restarted hashgraph lists must pass the harness's own signature
// check. Bootstrap refusing to go on is fine (a valid event being refused is
// not C07's business); Bootstrap going on over the altered record is not.
// (Prompted by seeded change C07e.)
// ---------------------------------------------------------------------------

func rawBadgerSet(path string, key string, val []byte) error {
	opts := badger.DefaultOptions(path).
		WithSyncWrites(false).
		WithTruncate(true).
		WithTableLoadingMode(badger_options.FileIO).
		WithValueLogLoadingMode(badger_options.FileIO).
		WithLogger(nil)
	db, err := badger.Open(opts)
	if err != nil {
		return err
	}
	err = db.Update(func(txn *badger.Txn) error { return txn.Set([]byte(key), val) })
	if cerr := db.Close(); err == nil {
		err = cerr
	}
	return err
}

func cloneEventDB(ev *hg.Event) (*hg.Event, error) {
	b, err := ev.MarshalDB()
	if err != nil {
		return nil, err
	}
	c := new(hg.Event)
	if err := c.UnmarshalDB(b); err != nil {
		return nil, err
	}
	return c, nil
}

type bootTamper struct {
	name     string
	headOnly bool // needs an event nobody refers to
	apply    func(rng *rand.Rand, d *Dag, de *DagEvent, ev *hg.Event) bool
}

func bootTamperings() []bootTamper {
	return []bootTamper{
		{"record re-signed with another validator's key (body and hash unchanged)", false, func(rng *rand.Rand, d *Dag, de *DagEvent, ev *hg.Event) bool {
			other := d.Keys[(de.Creator+1+rng.Intn(d.N-1))%d.N]
			return ev.Sign(other) == nil
		}},
		{"record signature replaced by the signature of another event", false, func(rng *rand.Rand, d *Dag, de *DagEvent, ev *hg.Event) bool {
			for try := 0; try < 20; try++ {
				o := d.Events[rng.Intn(len(d.Events))]
				if o.Hash != de.Hash {
					ev.Signature = o.Signature
					return true
				}
			}
			return false
		}},
		{"record signature replaced by a string that does not decode", false, func(rng *rand.Rand, d *Dag, de *DagEvent, ev *hg.Event) bool {
			ev.Signature = []string{"zz|", "|", "", "0|0", "1|1"}[rng.Intn(5)]
			return true
		}},
		{"head record: payload rewritten, signature kept", true, func(rng *rand.Rand, d *Dag, de *DagEvent, ev *hg.Event) bool {
			ev.Body.Transactions = append(ev.Body.Transactions, []byte(fmt.Sprintf("forged-%d", rng.Int63())))
			return true
		}},
		{"head record: timestamp rewritten, signature kept", true, func(rng *rand.Rand, d *Dag, de *DagEvent, ev *hg.Event) bool {
			ev.Body.Timestamp += 1 + rng.Int63n(1000)
			return true
		}},
		{"head record: carries a leave request about another validator signed by the event's creator, event re-signed by its creator", true, func(rng *rand.Rand, d *Dag, de *DagEvent, ev *hg.Event) bool {
			victim := d.Peers[(de.Creator+1)%d.N]
			itx := hg.NewInternalTransactionLeave(*victim)
			if err := itx.Sign(d.Keys[de.Creator]); err != nil {
				return false
			}
			ev.Body.InternalTransactions = append(ev.Body.InternalTransactions, itx)
			return ev.Sign(d.Keys[de.Creator]) == nil
		}},
		{"head record: payload rewritten and re-signed with another validator's key", true, func(rng *rand.Rand, d *Dag, de *DagEvent, ev *hg.Event) bool {
			ev.Body.Transactions = append(ev.Body.Transactions, []byte("forged"))
			return ev.Sign(d.Keys[(de.Creator+1)%d.N]) == nil
		}},
	}
}

func guardedBootstrap(h *hg.Hashgraph) (err error) {
	defer func() {
		if r := recover(); r != nil {
			err = panicErr{r}
		}
	}()
	return h.Bootstrap()
}

func runC07Bootstrap(cs CaseSpec) *CaseResult {
	res := newResult(cs)
	rng := cs.rng("c07boot")
	sp := dagSpecFromCase(cs)
	if sp.N < 2 {
		sp.N = 2
	}
	sp.Events = int(cs.I("events", 60))
	d := genDag(rng, cs.Seed*15485863+int64(cs.Index), sp)
	dir := dagWorkDir(cs)
	defer os.RemoveAll(dir)

	referenced := map[string]bool{}
	for _, de := range d.Events {
		referenced[de.Body.Parents[0]] = true
		referenced[de.Body.Parents[1]] = true
	}
	var heads, all []*DagEvent
	for _, de := range d.Events {
		all = append(all, de)
		if !referenced[de.Hash] {
			heads = append(heads, de)
		}
	}
	tampers := bootTamperings()
	rounds := int(cs.I("rounds", 6))
	judged := 0
	kinds := map[string]bool{}
	for r := 0; r < rounds; r++ {
		var tp *bootTamper
		control := r == 0 && cs.Index%4 == 0 // one untouched control now and then
		if !control {
			tp = &tampers[(r+cs.Index)%len(tampers)]
		}
		dbPath := filepath.Join(dir, fmt.Sprintf("db-%d", r))
		store, err := hg.NewBadgerStore(len(d.Events)*3+500, dbPath, false, nil)
		if err != nil {
			res.inconclusive(err.Error())
			return res
		}
		h := hg.NewHashgraph(store, hg.DummyInternalCommitCallback, quietLogger())
		if err := h.Init(peers.NewPeerSet(clonePeers(d.Peers))); err != nil {
			res.inconclusive("Init: " + err.Error())
			store.Close()
			return res
		}
		for i, de := range d.Events {
			if err := h.InsertEventAndRunConsensus(de.fresh(), true); err != nil {
				res.inconclusive(fmt.Sprintf("valid event %d refused: %v", i, err))
				store.Close()
				return res
			}
		}
		var target *DagEvent
		var altered *hg.Event
		if tp != nil {
			pool := all
			if tp.headOnly {
				pool = heads
			}
			target = pool[rng.Intn(len(pool))]
			stored, err := store.GetEvent(target.Hash)
			if err != nil {
				res.inconclusive("stored event unreadable: " + err.Error())
				store.Close()
				return res
			}
			altered, err = cloneEventDB(stored)
			if err != nil || !tp.apply(rng, d, target, altered) {
				store.Close()
				res.count("bootstrap_tamperings_not_applicable", 1)
				continue
			}
			if harnessVerify(altered) {
				// e.g. the "other" signature happened to be the same: nothing to judge
				store.Close()
				res.count("bootstrap_tamperings_still_valid_skipped", 1)
				continue
			}
		}
		if err := store.Close(); err != nil {
			res.inconclusive("close: " + err.Error())
			return res
		}
		if tp != nil {
			val, err := altered.MarshalDB()
			if err != nil {
				res.count("bootstrap_tamperings_not_applicable", 1)
				continue
			}
			if err := rawBadgerSet(dbPath, target.Hash, val); err != nil {
				res.inconclusive("raw database write: " + err.Error())
				return res
			}
		}
		store2, err := hg.NewBadgerStore(len(d.Events)*3+500, dbPath, cs.I("maintenance", 0) == 1, nil)
		if err != nil {
			res.inconclusive("reopen: " + err.Error())
			return res
		}
		h2 := hg.NewHashgraph(store2, hg.DummyInternalCommitCallback, quietLogger())
		berr := guardedBootstrap(h2)
		res.Evaluations++
		listed, invalid := 0, ""
		for pk := range store2.RepertoireByPubKey() {
			evs, err := store2.ParticipantEvents(pk, -1)
			if err != nil {
				continue
			}
			for _, eh := range evs {
				ev, err := store2.GetEvent(eh)
				if err != nil {
					continue
				}
				listed++
				if !harnessVerify(ev) && invalid == "" {
					invalid = fmt.Sprintf("event %s (creator %s, index %d)", trunc(eh, 14), trunc(pk, 10), ev.Index())
				}
			}
		}
		store2.Close()
		os.RemoveAll(dbPath)
		if control {
			res.count("bootstrap_controls", 1)
			if berr != nil || listed != len(d.Events) {
				res.count("bootstrap_controls_incomplete", 1)
				if res.Note == "" {
					res.Note = fmt.Sprintf("control bootstrap of an untouched database: err=%v, %d of %d events", berr, listed, len(d.Events))
				}
			}
			continue
		}
		judged++
		kinds[tp.name] = true
		res.count("bootstrap_altered_records_judged", 1)
		if berr != nil {
			res.count("bootstrap_refused_to_go_on_over_the_altered_record", 1)
		}
		res.count("bootstrap_events_listed_after_restart", int64(listed))
		if invalid != "" {
			res.violate("C07", "C07:inadmissible-event-admitted:bootstrap",
				fmt.Sprintf("after a restart with bootstrap the node's DAG lists %s whose signature (or a membership request's) does not verify; altered record: %s; Bootstrap returned %v", invalid, tp.name, berr),
				map[string]interface{}{"tampering": tp.name, "altered_event": target.Hash, "bootstrap_error": fmt.Sprint(berr), "events_listed": listed, "valid_events": len(d.Events), "n": d.N})
			return res
		}
	}
	res.count("bootstrap_distinct_tampering_kinds", int64(len(kinds)))
	if judged >= 3 {
		res.digest("c07boot", cs.Seed, cs.Index, judged, d.Events[len(d.Events)-1].Hash)
	}
	res.Sample = map[string]interface{}{"kind": "altered database record, then bootstrap", "n": d.N, "valid_events": len(d.Events), "altered_records_judged": judged}
	return res
}
