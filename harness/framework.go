package main

import (
	"bufio"
	"crypto/sha256"
	"encoding/hex"
	"encoding/json"
	"fmt"
	"math/rand"
	"os"
	"os/exec"
	"path/filepath"
	"runtime"
	"runtime/debug"
	"sort"
	"strings"
	"sync"
	"time"
)

// ---------------------------------------------------------------------------
// Case / result types shared by every engine
// ---------------------------------------------------------------------------

// CaseSpec describes one unit of exploration (one history, one DAG, one batch
// of inputs ...). It is fully determined by (property, tier, seed, index).
type CaseSpec struct {
	Prop   string            `json:"prop"`
	Tier   string            `json:"tier"`
	Seed   int64             `json:"seed"`
	Index  int               `json:"index"`
	Kind   string            `json:"kind"`
	P      map[string]int64  `json:"p,omitempty"`
	S      map[string]string `json:"s,omitempty"`
	Replay string            `json:"replay,omitempty"`
}

func (c CaseSpec) I(k string, def int64) int64 {
	if v, ok := c.P[k]; ok {
		return v
	}
	return def
}

func (c CaseSpec) Str(k string, def string) string {
	if v, ok := c.S[k]; ok {
		return v
	}
	return def
}

// pinned returns the (tier, seed, index) that determine the case's random
// choices: its own, unless the case is a pinned copy of a case of another run
// (a recorded history kept in every tier and at every seed).
func (c CaseSpec) pinned() (string, int64, int) {
	if t, ok := c.S["pin_tier"]; ok {
		return t, c.P["pin_seed"], int(c.P["pin_index"])
	}
	return c.Tier, c.Seed, c.Index
}

func (c CaseSpec) rng(salt string) *rand.Rand {
	tier, seed, index := c.pinned()
	h := sha256.Sum256([]byte(fmt.Sprintf("%s|%s|%d|%d|%s|%s", c.Prop, tier, seed, index, c.Kind, salt)))
	var s int64
	for i := 0; i < 8; i++ {
		s = s<<8 | int64(h[i])
	}
	return rand.New(rand.NewSource(s))
}

// Violation is a refutation of a property by an observed execution.
type Violation struct {
	Prop   string `json:"prop"`
	Sig    string `json:"sig"`    // stable signature used to match known findings
	Msg    string `json:"msg"`    // human readable
	Replay string `json:"replay"` // path of the witness file
}

// CaseResult is what a worker reports for one case.
type CaseResult struct {
	Case        CaseSpec         `json:"case"`
	Verdict     string           `json:"verdict"` // held | violated | inconclusive | crashed
	Evaluations int64            `json:"evaluations"`
	Digests     []string         `json:"digests,omitempty"` // digests of distinct non-trivial cases seen
	Counters    map[string]int64 `json:"counters,omitempty"`
	Maxes       map[string]int64 `json:"maxes,omitempty"`
	Sample      interface{}      `json:"sample,omitempty"`
	Violations  []Violation      `json:"violations,omitempty"`
	Note        string           `json:"note,omitempty"`
	WallMs      int64            `json:"wall_ms"`
}

func newResult(cs CaseSpec) *CaseResult {
	return &CaseResult{Case: cs, Verdict: "held", Counters: map[string]int64{}, Maxes: map[string]int64{}}
}

func (r *CaseResult) count(k string, d int64) { r.Counters[k] += d }
func (r *CaseResult) max(k string, v int64) {
	if cur, ok := r.Maxes[k]; !ok || v > cur {
		r.Maxes[k] = v
	}
}
func (r *CaseResult) digest(parts ...interface{}) {
	r.Digests = append(r.Digests, shortHash(fmt.Sprint(parts...)))
}
func (r *CaseResult) inconclusive(note string) {
	if r.Verdict == "held" {
		r.Verdict = "inconclusive"
	}
	if r.Note != "" {
		r.Note += "; "
	}
	r.Note += note
}

// violate records a violation and writes its witness file.
func (r *CaseResult) violate(prop, sig, msg string, witness interface{}) {
	r.Verdict = "violated"
	path := writeWitness(r.Case, prop, sig, msg, witness)
	r.Violations = append(r.Violations, Violation{Prop: prop, Sig: sig, Msg: msg, Replay: path})
}

func shortHash(s string) string {
	h := sha256.Sum256([]byte(s))
	return hex.EncodeToString(h[:8])
}

func verifDir() string {
	if d := os.Getenv("VERIF_DIR"); d != "" {
		return d
	}
	return "/verif"
}

var witnessMu sync.Mutex
var witnessSeq int

func writeWitness(cs CaseSpec, prop, sig, msg string, witness interface{}) string {
	witnessMu.Lock()
	witnessSeq++
	seq := witnessSeq
	witnessMu.Unlock()
	dir := filepath.Join(verifDir(), "violations")
	os.MkdirAll(dir, 0o755)
	name := fmt.Sprintf("%s-%s-s%d-c%d-%d-%s.json", prop, cs.Tier, cs.Seed, cs.Index, seq, shortHash(sig + msg)[:6])
	path := filepath.Join(dir, name)
	doc := map[string]interface{}{
		"property": prop, "signature": sig, "message": msg, "case": cs, "witness": witness,
		"replay_cmd": fmt.Sprintf("./check %s --replay %s", prop, path),
	}
	b, err := json.MarshalIndent(doc, "", " ")
	if err != nil {
		b, _ = json.MarshalIndent(map[string]interface{}{"property": prop, "signature": sig, "message": msg, "case": cs, "witness_error": err.Error()}, "", " ")
	}
	os.WriteFile(path, b, 0o644)
	return path
}

// PropDef describes how a property is decided.
type PropDef struct {
	ID          string
	Level       string // evidence level
	Engine      string
	Rule        string
	Assumptions []string
	// MinNontrivial: below this number of distinct non-trivial cases the check
	// is considered broken (exit 2) rather than "held".
	MinNontrivial int
	Exhaustive    bool
	Cases         func(tier string, seed int64) []CaseSpec
	Run           func(cs CaseSpec) *CaseResult
	// Workers caps the parallelism (0 = number of CPUs).
	Workers int
	// PerCaseTimeout is the wall-clock watchdog for one case (inconclusive).
	PerCaseTimeout time.Duration
}

var props = map[string]*PropDef{}

func register(p *PropDef) { props[p.ID] = p }

// ---------------------------------------------------------------------------
// Known findings
// ---------------------------------------------------------------------------

type KnownFinding struct {
	Property  string `json:"property"`
	Status    string `json:"status"` // "known" or "fixed"
	Signature string `json:"signature"`
	What      string `json:"what"`
	Commit    string `json:"commit,omitempty"`
}

func loadKnownFindings() []KnownFinding {
	b, err := os.ReadFile(filepath.Join(verifDir(), "known_findings.json"))
	if err != nil {
		return nil
	}
	var doc struct {
		Findings []KnownFinding `json:"findings"`
	}
	if err := json.Unmarshal(b, &doc); err != nil {
		fmt.Fprintf(os.Stderr, "known_findings.json unreadable: %v\n", err)
		return nil
	}
	return doc.Findings
}

func matchKnown(kf []KnownFinding, v Violation) *KnownFinding {
	for i := range kf {
		k := &kf[i]
		if k.Status != "known" || k.Property != v.Prop {
			continue
		}
		if k.Signature == v.Sig {
			return k
		}
	}
	return nil
}

// ---------------------------------------------------------------------------
// Worker side
// ---------------------------------------------------------------------------

func runCaseGuarded(p *PropDef, cs CaseSpec) (res *CaseResult) {
	start := time.Now()
	defer func() {
		if r := recover(); r != nil {
			st := string(debug.Stack())
			res = newResult(cs)
			res.Verdict = "crashed"
			res.Note = fmt.Sprintf("panic: %v\n%s", r, trimStack(st))
		}
		res.WallMs = time.Since(start).Milliseconds()
	}()
	res = p.Run(cs)
	return res
}

func trimStack(s string) string {
	lines := strings.Split(s, "\n")
	if len(lines) > 60 {
		lines = lines[:60]
	}
	return strings.Join(lines, "\n")
}

func workerMain(specFile, outFile string) int {
	b, err := os.ReadFile(specFile)
	if err != nil {
		fmt.Fprintln(os.Stderr, err)
		return 2
	}
	var cases []CaseSpec
	if err := json.Unmarshal(b, &cases); err != nil {
		fmt.Fprintln(os.Stderr, err)
		return 2
	}
	out, err := os.OpenFile(outFile, os.O_CREATE|os.O_WRONLY|os.O_APPEND, 0o644)
	if err != nil {
		fmt.Fprintln(os.Stderr, err)
		return 2
	}
	defer out.Close()
	for _, cs := range cases {
		p := props[cs.Prop]
		if p == nil {
			fmt.Fprintf(os.Stderr, "unknown property %s\n", cs.Prop)
			return 2
		}
		fmt.Fprintf(out, "START %d\n", cs.Index)
		out.Sync()
		var res *CaseResult
		done := make(chan struct{})
		go func() {
			res = runCaseGuarded(p, cs)
			close(done)
		}()
		to := p.PerCaseTimeout
		if to == 0 {
			to = 10 * time.Minute
		}
		select {
		case <-done:
		case <-time.After(to):
			// watchdog: inconclusive; the worker must die because the case
			// goroutine cannot be cancelled.
			r := newResult(cs)
			r.Verdict = "inconclusive"
			r.Note = fmt.Sprintf("watchdog: case exceeded %v", to)
			jb, _ := json.Marshal(r)
			fmt.Fprintf(out, "RESULT %s\n", jb)
			out.Sync()
			buf := make([]byte, 1<<20)
			n := runtime.Stack(buf, true)
			fmt.Fprintf(os.Stderr, "WATCHDOG case %d\n%s\n", cs.Index, buf[:n])
			return 3
		}
		jb, err := json.Marshal(res)
		if err != nil {
			res.Sample = nil
			jb, _ = json.Marshal(res)
		}
		fmt.Fprintf(out, "RESULT %s\n", jb)
		out.Sync()
	}
	return 0
}

// ---------------------------------------------------------------------------
// Orchestrator
// ---------------------------------------------------------------------------

type workerBatch struct {
	id    int
	cases []CaseSpec
}

func runBatch(workDir string, b workerBatch, resCh chan<- *CaseResult) {
	runBatchWith(workDir, b, resCh, os.Args[0], nil)
}

// runBatchWith runs a batch with a given worker binary (the plain one, or the
// one built with the race detector) and extra environment.
func runBatchWith(workDir string, b workerBatch, resCh chan<- *CaseResult, bin string, extraEnv []string) {
	remaining := b.cases
	attempt := 0
	for len(remaining) > 0 {
		attempt++
		spec := filepath.Join(workDir, fmt.Sprintf("spec-%d-%d.json", b.id, attempt))
		outF := filepath.Join(workDir, fmt.Sprintf("out-%d-%d.jsonl", b.id, attempt))
		errF := filepath.Join(workDir, fmt.Sprintf("err-%d-%d.log", b.id, attempt))
		jb, _ := json.Marshal(remaining)
		os.WriteFile(spec, jb, 0o644)
		cmd := exec.Command(bin, "worker", spec, outF)
		ef, _ := os.Create(errF)
		cmd.Stdout = ef
		cmd.Stderr = ef
		cmd.Env = append(os.Environ(), "VERIF_WORKDIR="+workDir)
		cmd.Env = append(cmd.Env, extraEnv...)
		err := cmd.Run()
		ef.Close()
		// parse the output
		done := map[int]bool{}
		started := -1
		if f, e := os.Open(outF); e == nil {
			sc := bufio.NewScanner(f)
			sc.Buffer(make([]byte, 1<<20), 1<<28)
			for sc.Scan() {
				line := sc.Text()
				if strings.HasPrefix(line, "START ") {
					fmt.Sscanf(line, "START %d", &started)
				} else if strings.HasPrefix(line, "RESULT ") {
					var r CaseResult
					if e := json.Unmarshal([]byte(line[7:]), &r); e == nil {
						done[r.Case.Index] = true
						rr := r
						resCh <- &rr
					}
				}
			}
			f.Close()
		}
		var next []CaseSpec
		for _, cs := range remaining {
			if done[cs.Index] {
				continue
			}
			if err != nil && cs.Index == started {
				// this case killed the worker
				r := newResult(cs)
				r.Verdict = "crashed"
				eb, _ := os.ReadFile(errF)
				s := string(eb)
				if len(s) > 6000 {
					s = s[:3000] + "\n...\n" + s[len(s)-3000:]
				}
				r.Note = fmt.Sprintf("worker died (%v):\n%s", err, s)
				resCh <- r
				continue
			}
			next = append(next, cs)
		}
		if err == nil && len(next) > 0 {
			// worker exited cleanly but did not report everything: broken
			for _, cs := range next {
				r := newResult(cs)
				r.Verdict = "inconclusive"
				r.Note = "worker exited without reporting this case"
				resCh <- r
			}
			return
		}
		if attempt > len(b.cases)+2 {
			for _, cs := range next {
				r := newResult(cs)
				r.Verdict = "inconclusive"
				r.Note = "too many worker restarts"
				resCh <- r
			}
			return
		}
		remaining = next
	}
}

// Evidence is the schema-conformant evidence document.
type Evidence struct {
	PropertyID  string                 `json:"property_id"`
	Tier        string                 `json:"tier"`
	Seed        int64                  `json:"seed"`
	Level       string                 `json:"level"`
	Coverage    map[string]interface{} `json:"coverage"`
	Assumptions []string               `json:"assumptions"`
	WallS       float64                `json:"wall_s"`
	Violations  int                    `json:"violations"`
}

// crashIsViolation says for which properties a crash of Babble code in a
// worker is itself the refutation of the property (C08). For every other
// property a crash makes the check exit 2 (broken), never "held".
var crashHandlers = map[string]func(r *CaseResult) *Violation{}

func orchestrate(propID, tier string, seed int64, replay string) int {
	p := props[propID]
	if p == nil {
		fmt.Fprintf(os.Stderr, "unknown property %q\n", propID)
		return 2
	}
	start := time.Now()
	var cases []CaseSpec
	if replay != "" {
		cs, err := loadReplayCase(replay)
		if err != nil {
			fmt.Fprintln(os.Stderr, "replay:", err)
			return 2
		}
		cs.Replay = replay
		cases = []CaseSpec{cs}
	} else {
		cases = p.Cases(tier, seed)
		if f := os.Getenv("VERIF_DEBUG_ONLY"); f != "" {
			// debugging aid: keep only the cases that carry parameter f=1
			var kept []CaseSpec
			for _, c := range cases {
				if c.P[f] == 1 {
					kept = append(kept, c)
				}
			}
			cases = kept
		}
		for i := range cases {
			cases[i].Prop = propID
			cases[i].Tier = tier
			cases[i].Seed = seed
			cases[i].Index = i
		}
	}
	workDir, err := os.MkdirTemp(filepath.Join(verifDir(), ".work"), propID+"-")
	if err != nil {
		os.MkdirAll(filepath.Join(verifDir(), ".work"), 0o755)
		workDir, err = os.MkdirTemp(filepath.Join(verifDir(), ".work"), propID+"-")
		if err != nil {
			fmt.Fprintln(os.Stderr, err)
			return 2
		}
	}
	defer os.RemoveAll(workDir)

	// cases marked race=1 run in workers built with the Go race detector
	// (informational instrumentation, DESIGN 2.6): same oracles, plus a log of
	// race reports that is summarised in the evidence and never decides.
	var plainCases, raceCases []CaseSpec
	for _, cs := range cases {
		if cs.S["race"] == "1" {
			raceCases = append(raceCases, cs)
		} else {
			plainCases = append(plainCases, cs)
		}
	}
	nw := p.Workers
	if nw <= 0 {
		nw = runtime.NumCPU()
	}
	if nw > len(plainCases) {
		nw = len(plainCases)
	}
	if nw < 1 {
		nw = 1
	}
	batches := make([]workerBatch, nw)
	for i := range batches {
		batches[i].id = i
	}
	for i, cs := range plainCases {
		batches[i%nw].cases = append(batches[i%nw].cases, cs)
	}
	resCh := make(chan *CaseResult, len(cases)+16)
	var wg sync.WaitGroup
	for _, b := range batches {
		if len(b.cases) == 0 {
			continue
		}
		wg.Add(1)
		go func(b workerBatch) {
			defer wg.Done()
			runBatch(workDir, b, resCh)
		}(b)
	}
	// second phase: a race-instrumented node is 10-20x slower; sharing the
	// machine with sixteen plain workers would only make its watchdogs fire
	wg.Wait()
	raceBin := filepath.Join(verifDir(), ".build", "vcheck-race")
	if len(raceCases) > 0 {
		if _, err := os.Stat(raceBin); err != nil {
			for _, cs := range raceCases {
				r := newResult(cs)
				r.Verdict = "inconclusive"
				r.Note = "no race-detector build of the harness available (" + raceBin + ")"
				resCh <- r
			}
		} else {
			// one case per worker process: a race-instrumented live network is
			// 5-10x slower and should not share its process with another one
			for i, cs := range raceCases {
				wg.Add(1)
				go func(b workerBatch) {
					defer wg.Done()
					logp := filepath.Join(workDir, fmt.Sprintf("race-%d", b.id))
					runBatchWith(workDir, b, resCh, raceBin, []string{"GORACE=halt_on_error=0 exitcode=0 log_path=" + logp + " history_size=3"})
				}(workerBatch{id: 1000 + i, cases: []CaseSpec{cs}})
			}
		}
	}
	wg.Wait()
	close(resCh)
	raceSummary := summariseRaceLogs(workDir, len(raceCases))

	var results []*CaseResult
	for r := range resCh {
		results = append(results, r)
	}
	sort.Slice(results, func(i, j int) bool { return results[i].Case.Index < results[j].Case.Index })

	known := loadKnownFindings()
	counters := map[string]int64{}
	maxes := map[string]int64{}
	digests := map[string]bool{}
	var evaluations int64
	var samples []interface{}
	var violations []Violation
	knownHits := map[string]int{}
	nIncon, nCrashed, nHeld, nViol := 0, 0, 0, 0
	var inconNotes, crashNotes []string
	for _, r := range results {
		switch r.Verdict {
		case "inconclusive":
			nIncon++
			if len(inconNotes) < 5 {
				inconNotes = append(inconNotes, fmt.Sprintf("case %d (%s): %s", r.Case.Index, r.Case.Kind, firstLine(r.Note)))
			}
			continue // excluded from all counts
		case "crashed":
			if h := crashHandlers[propID]; h != nil {
				if v := h(r); v != nil {
					r.Verdict = "violated"
					r.Violations = append(r.Violations, *v)
				}
			}
			if r.Verdict == "crashed" {
				nCrashed++
				if len(crashNotes) < 3 {
					crashNotes = append(crashNotes, fmt.Sprintf("case %d (%s): %s", r.Case.Index, r.Case.Kind, r.Note))
				}
				continue
			}
		}
		evaluations += r.Evaluations
		for k, v := range r.Counters {
			counters[k] += v
		}
		for k, v := range r.Maxes {
			if cur, ok := maxes[k]; !ok || v > cur {
				maxes[k] = v
			}
		}
		for _, d := range r.Digests {
			digests[d] = true
		}
		if r.Sample != nil && len(samples) < 3 {
			samples = append(samples, r.Sample)
		}
		if r.Verdict == "violated" {
			nViol++
			for _, v := range r.Violations {
				if k := matchKnown(known, v); k != nil {
					knownHits[k.Signature+"\x00"+k.What]++
					continue
				}
				violations = append(violations, v)
			}
		} else {
			nHeld++
		}
	}

	for k, c := range knownHits {
		parts := strings.SplitN(k, "\x00", 2)
		fmt.Printf("KNOWN-FINDING: property=%s %s [signature %s, observed %d times in this run]\n", propID, parts[1], parts[0], c)
	}
	seenV := map[string]bool{}
	for _, v := range violations {
		key := v.Sig
		if seenV[key] {
			continue
		}
		seenV[key] = true
		fmt.Printf("VIOLATION property=%s replay=%s\n", v.Prop, v.Replay)
		fmt.Printf("  signature: %s\n  %s\n", v.Sig, v.Msg)
	}

	cov := map[string]interface{}{
		"evaluations":         evaluations,
		"distinct_nontrivial": len(digests),
		"rule":                p.Rule,
		"samples":             samples,
		"cases_total":         len(cases),
		"cases_held":          nHeld,
		"cases_violated":      nViol,
		"cases_inconclusive":  nIncon,
		"cases_crashed":       nCrashed,
		"counters":            counters,
		"maxima":              maxes,
		"engine":              p.Engine,
	}
	if p.Exhaustive {
		cov["exhaustive"] = true
	}
	if raceSummary != nil {
		cov["race_detector"] = raceSummary
	}
	if len(inconNotes) > 0 {
		cov["inconclusive_notes"] = inconNotes
	}
	if len(knownHits) > 0 {
		kh := []string{}
		for k, c := range knownHits {
			kh = append(kh, fmt.Sprintf("%s x%d", strings.SplitN(k, "\x00", 2)[0], c))
		}
		sort.Strings(kh)
		cov["known_findings_observed"] = kh
	}
	if len(samples) == 0 {
		cov["samples"] = []interface{}{"no case completed"}
	}
	ev := Evidence{PropertyID: propID, Tier: tier, Seed: seed, Level: p.Level, Coverage: cov,
		Assumptions: p.Assumptions, WallS: time.Since(start).Seconds(), Violations: len(seenV)}
	if replay == "" {
		eb, _ := json.MarshalIndent(ev, "", " ")
		// VERIF_EVIDENCE_DIR (never set by the registered commands) redirects the
		// evidence of experiments on a deliberately modified /repo
		edir := filepath.Join(verifDir(), "evidence")
		if d := os.Getenv("VERIF_EVIDENCE_DIR"); d != "" {
			edir = d
		}
		os.MkdirAll(edir, 0o755)
		os.WriteFile(filepath.Join(edir, propID+".json"), eb, 0o644)
	}

	fmt.Printf("%s tier=%s seed=%d: cases=%d held=%d violated=%d inconclusive=%d crashed=%d evaluations=%d distinct_nontrivial=%d wall=%.1fs\n",
		propID, tier, seed, len(cases), nHeld, nViol, nIncon, nCrashed, evaluations, len(digests), time.Since(start).Seconds())
	keys := []string{}
	for k := range counters {
		keys = append(keys, k)
	}
	sort.Strings(keys)
	for _, k := range keys {
		fmt.Printf("  %-44s %d\n", k, counters[k])
	}
	keys = keys[:0]
	for k := range maxes {
		keys = append(keys, k)
	}
	sort.Strings(keys)
	for _, k := range keys {
		fmt.Printf("  max %-40s %d\n", k, maxes[k])
	}
	for _, n := range inconNotes {
		fmt.Printf("  inconclusive: %s\n", n)
	}
	if raceSummary != nil {
		fmt.Printf("  race detector (informational, never a verdict): %d case(s) under -race, %d report(s), %d distinct access pairs in Babble code, %d in harness-only code\n",
			raceSummary["cases_run_under_race_detector"], raceSummary["reports_total"], raceSummary["distinct_access_pairs_babble"], raceSummary["distinct_access_pairs_harness_only"])
		if nb, ok := raceSummary["access_pairs_not_in_committed_baseline"].([]string); ok && len(nb) > 0 {
			fmt.Printf("  race detector: %d access pair(s) not in the committed baseline of the unchanged tree (informational): %s\n", len(nb), strings.Join(nb, "; "))
		}
	}

	if len(seenV) > 0 {
		return 1
	}
	if nCrashed > 0 {
		fmt.Printf("BROKEN: %d case(s) crashed the worker; a crash is never folded into 'held'\n", nCrashed)
		for _, n := range crashNotes {
			fmt.Println(n)
		}
		return 2
	}
	if replay == "" && len(digests) < p.MinNontrivial {
		fmt.Printf("BROKEN: only %d distinct non-trivial cases observed (minimum %d): verdict would be vacuous\n", len(digests), p.MinNontrivial)
		return 2
	}
	return 0
}

func firstLine(s string) string {
	if i := strings.Index(s, "\n"); i >= 0 {
		return s[:i]
	}
	return s
}

func loadReplayCase(path string) (CaseSpec, error) {
	b, err := os.ReadFile(path)
	if err != nil {
		return CaseSpec{}, err
	}
	var doc struct {
		Case CaseSpec `json:"case"`
	}
	if err := json.Unmarshal(b, &doc); err != nil {
		return CaseSpec{}, err
	}
	if doc.Case.Prop == "" {
		return CaseSpec{}, fmt.Errorf("no case in %s", path)
	}
	return doc.Case, nil
}
