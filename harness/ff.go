package main

import (
	"bytes"
	"fmt"
	"math/rand"
	"strings"
	"time"

	hg "github.com/mosaicnetworks/babble/src/hashgraph"
	bnet "github.com/mosaicnetworks/babble/src/net"
	_state "github.com/mosaicnetworks/babble/src/node/state"
	"github.com/mosaicnetworks/babble/src/peers"
)

// ---------------------------------------------------------------------------
// Fast-sync acceptance (C12) and trust (C14)
// ---------------------------------------------------------------------------

type ffTriple struct {
	Block    hg.Block
	Frame    hg.Frame
	Snapshot []byte
	From     int
}

func copyTriple(t *ffTriple) *ffTriple {
	c := &ffTriple{From: t.From, Snapshot: append([]byte{}, t.Snapshot...)}
	wireCopy(&t.Block, &c.Block)
	wireCopy(&t.Frame, &c.Frame)
	if c.Block.Signatures == nil {
		c.Block.Signatures = map[string]string{}
	}
	return c
}

func harvestTriple(n *SimNode) *ffTriple {
	b, f, err := n.Core.GetAnchorBlockWithFrame()
	if err != nil || b == nil || f == nil {
		return nil
	}
	t := &ffTriple{From: n.Idx}
	if wireCopy(b, &t.Block) != nil || wireCopy(f, &t.Frame) != nil {
		return nil
	}
	t.Snapshot, _ = n.App.SnapshotHandler(b.Index())
	return t
}

// ffRule is the harness's reference acceptance rule of C12.
func ffRule(t *ffTriple) (bool, string) {
	for _, p := range t.Frame.Peers {
		if p == nil {
			return false, "frame lists a nil peer"
		}
	}
	fh, err := t.Frame.Hash()
	if err != nil {
		return false, "frame cannot be hashed"
	}
	if !bytes.Equal(fh, t.Block.Body.FrameHash) {
		return false, "frame does not hash to the block's frame hash"
	}
	ps := peers.NewPeerSet(t.Frame.Peers)
	ph, _ := ps.Hash()
	if !bytes.Equal(ph, t.Block.Body.PeersHash) {
		return false, "frame's validator set does not hash to the block's peer-set hash"
	}
	distinct := map[string]bool{}
	for k, sig := range t.Block.Signatures {
		raw, err := decodeHex(k)
		if err != nil {
			continue
		}
		canon := fmt.Sprintf("0X%X", raw)
		if _, ok := ps.ByPubKey[canon]; !ok {
			continue
		}
		body := t.Block.Body
		if verifySig(canon, &body, sig) {
			distinct[canon] = true
		}
	}
	n := ps.Len()
	ok := 3*len(distinct) > n
	if n == 1 {
		ok = len(distinct) >= 1
	}
	if !ok {
		return false, fmt.Sprintf("only %d distinct members of the %d-validator set signed the body", len(distinct), n)
	}
	return true, ""
}

type ffTamper struct {
	name string
	t    *ffTriple
}

func ffTamperings(rng *rand.Rand, valid *ffTriple, others []*ffTriple, stranger *SimKey) []ffTamper {
	out := []ffTamper{}
	mk := func(name string, f func(t *ffTriple) bool) {
		c := copyTriple(valid)
		if f(c) {
			out = append(out, ffTamper{name, c})
		}
	}
	// --- block body
	mk("block index +1", func(t *ffTriple) bool { t.Block.Body.Index++; return true })
	mk("block round-received +1", func(t *ffTriple) bool { t.Block.Body.RoundReceived++; return true })
	mk("block timestamp +1", func(t *ffTriple) bool { t.Block.Body.Timestamp++; return true })
	mk("block state hash altered", func(t *ffTriple) bool { t.Block.Body.StateHash = append(t.Block.Body.StateHash, 1); return true })
	mk("block frame hash altered", func(t *ffTriple) bool {
		if len(t.Block.Body.FrameHash) == 0 {
			return false
		}
		t.Block.Body.FrameHash[0] ^= 1
		return true
	})
	mk("block peers hash altered", func(t *ffTriple) bool {
		if len(t.Block.Body.PeersHash) == 0 {
			return false
		}
		t.Block.Body.PeersHash[0] ^= 1
		return true
	})
	mk("block transaction appended", func(t *ffTriple) bool {
		t.Block.Body.Transactions = append(t.Block.Body.Transactions, []byte("evil"))
		return true
	})
	mk("block transaction dropped", func(t *ffTriple) bool {
		if len(t.Block.Body.Transactions) == 0 {
			return false
		}
		t.Block.Body.Transactions = t.Block.Body.Transactions[1:]
		return true
	})
	mk("block transaction altered", func(t *ffTriple) bool {
		if len(t.Block.Body.Transactions) == 0 {
			return false
		}
		t.Block.Body.Transactions[0] = append(t.Block.Body.Transactions[0], 'x')
		return true
	})
	mk("block receipts: accepted flag flipped / receipt added", func(t *ffTriple) bool {
		if len(t.Block.Body.InternalTransactionReceipts) > 0 {
			t.Block.Body.InternalTransactionReceipts[0].Accepted = !t.Block.Body.InternalTransactionReceipts[0].Accepted
			return true
		}
		itx := hg.NewInternalTransactionJoin(*mkPeer(stranger.K, "evil:1", "evil"))
		itx.Sign(stranger.K)
		t.Block.Body.InternalTransactionReceipts = append(t.Block.Body.InternalTransactionReceipts, itx.AsAccepted())
		return true
	})
	// --- frame
	mk("frame round +1", func(t *ffTriple) bool { t.Frame.Round++; return true })
	mk("frame timestamp +1", func(t *ffTriple) bool { t.Frame.Timestamp++; return true })
	mk("frame peers: stranger appended", func(t *ffTriple) bool {
		t.Frame.Peers = append(t.Frame.Peers, mkPeer(stranger.K, "evil:1", "evil"))
		return true
	})
	mk("frame peers: one dropped", func(t *ffTriple) bool {
		if len(t.Frame.Peers) < 2 {
			return false
		}
		t.Frame.Peers = t.Frame.Peers[1:]
		return true
	})
	mk("frame peers: reordered", func(t *ffTriple) bool {
		if len(t.Frame.Peers) < 2 {
			return false
		}
		t.Frame.Peers[0], t.Frame.Peers[1] = t.Frame.Peers[1], t.Frame.Peers[0]
		return true
	})
	mk("frame peers: net address altered", func(t *ffTriple) bool {
		if len(t.Frame.Peers) == 0 {
			return false
		}
		t.Frame.Peers[0].NetAddr = "evil:666"
		return true
	})
	mk("frame roots: one root dropped", func(t *ffTriple) bool {
		for k := range t.Frame.Roots {
			delete(t.Frame.Roots, k)
			return true
		}
		return false
	})
	mk("frame roots: root event round altered", func(t *ffTriple) bool {
		for _, r := range t.Frame.Roots {
			if r != nil && len(r.Events) > 0 {
				r.Events[len(r.Events)-1].Round++
				return true
			}
		}
		return false
	})
	mk("frame roots: root event dropped", func(t *ffTriple) bool {
		for _, r := range t.Frame.Roots {
			if r != nil && len(r.Events) > 1 {
				r.Events = r.Events[1:]
				return true
			}
		}
		return false
	})
	mk("frame events: one dropped", func(t *ffTriple) bool {
		if len(t.Frame.Events) == 0 {
			return false
		}
		i := rng.Intn(len(t.Frame.Events))
		t.Frame.Events = append(t.Frame.Events[:i], t.Frame.Events[i+1:]...)
		return true
	})
	mk("frame events: payload altered", func(t *ffTriple) bool {
		if len(t.Frame.Events) == 0 {
			return false
		}
		e := t.Frame.Events[rng.Intn(len(t.Frame.Events))]
		e.Core.Body.Transactions = append(e.Core.Body.Transactions, []byte("evil"))
		return true
	})
	mk("frame events: witness flag flipped", func(t *ffTriple) bool {
		if len(t.Frame.Events) == 0 {
			return false
		}
		e := t.Frame.Events[rng.Intn(len(t.Frame.Events))]
		e.Witness = !e.Witness
		return true
	})
	mk("frame events: lamport timestamp altered", func(t *ffTriple) bool {
		if len(t.Frame.Events) == 0 {
			return false
		}
		t.Frame.Events[rng.Intn(len(t.Frame.Events))].LamportTimestamp += 3
		return true
	})
	mk("frame events: two swapped", func(t *ffTriple) bool {
		if len(t.Frame.Events) < 2 {
			return false
		}
		t.Frame.Events[0], t.Frame.Events[1] = t.Frame.Events[1], t.Frame.Events[0]
		return true
	})
	mk("frame peer-sets: future set injected", func(t *ffTriple) bool {
		if t.Frame.PeerSets == nil {
			t.Frame.PeerSets = map[int][]*peers.Peer{}
		}
		t.Frame.PeerSets[t.Frame.Round+3] = []*peers.Peer{mkPeer(stranger.K, "evil:1", "evil")}
		return true
	})
	mk("frame peer-sets: genesis entry altered", func(t *ffTriple) bool {
		for r, ps := range t.Frame.PeerSets {
			if len(ps) > 1 {
				t.Frame.PeerSets[r] = ps[1:]
				return true
			}
		}
		return false
	})
	// another node's / another round's frame with this block
	for _, o := range others {
		if o.Frame.Round != valid.Frame.Round {
			oo := o
			mk(fmt.Sprintf("frame of round %d shipped with the block of round %d", o.Frame.Round, valid.Frame.Round), func(t *ffTriple) bool { wireCopy(&oo.Frame, &t.Frame); return true })
			mk(fmt.Sprintf("signatures of block %d placed on block %d", o.Block.Index(), valid.Block.Index()), func(t *ffTriple) bool {
				t.Block.Signatures = map[string]string{}
				for k, v := range oo.Block.Signatures {
					t.Block.Signatures[k] = v
				}
				return true
			})
			break
		}
	}
	// --- signature map
	ps := peers.NewPeerSet(valid.Frame.Peers)
	n := ps.Len()
	under := n / 3 // largest k with 3k <= n
	if n == 1 {
		under = 0
	}
	validSigners := []string{}
	for k := range valid.Block.Signatures {
		validSigners = append(validSigners, k)
	}
	mk(fmt.Sprintf("signatures reduced to %d of %d validators", under, n), func(t *ffTriple) bool {
		if len(validSigners) <= under {
			return false
		}
		for i, k := range validSigners {
			if i >= under {
				delete(t.Block.Signatures, k)
			}
		}
		return true
	})
	mk("signatures: all dropped", func(t *ffTriple) bool { t.Block.Signatures = map[string]string{}; return true })
	mk(fmt.Sprintf("signatures: %d valid + one by a non-member", under), func(t *ffTriple) bool {
		if len(validSigners) <= under {
			return false
		}
		for i, k := range validSigners {
			if i >= under {
				delete(t.Block.Signatures, k)
			}
		}
		b := t.Block
		sig, err := b.Sign(stranger.K)
		if err != nil {
			return false
		}
		t.Block.Signatures[sig.ValidatorHex()] = sig.Signature
		return true
	})
	mk(fmt.Sprintf("signatures: %d valid + replays of one valid signature under the other validators' keys", under), func(t *ffTriple) bool {
		if len(validSigners) <= under || len(validSigners) == 0 {
			return false
		}
		keep := map[string]bool{}
		for i, k := range validSigners {
			if i < under {
				keep[k] = true
			}
		}
		donor := valid.Block.Signatures[validSigners[0]]
		for _, p := range ps.Peers {
			if !keep[p.PubKeyString()] {
				t.Block.Signatures[p.PubKeyString()] = donor
			}
		}
		if under > 0 {
			return true
		}
		delete(t.Block.Signatures, validSigners[0])
		t.Block.Signatures[ps.Peers[len(ps.Peers)-1].PubKeyString()] = donor
		return validSigners[0] != ps.Peers[len(ps.Peers)-1].PubKeyString()
	})
	mk("signatures: one signer listed under several spellings of its key", func(t *ffTriple) bool {
		if len(validSigners) == 0 || n < 2 {
			return false
		}
		k := validSigners[0]
		sig := valid.Block.Signatures[k]
		t.Block.Signatures = map[string]string{}
		// keep `under` distinct valid signers at most, all through one key
		spell := []string{k, "0x" + k[2:], "0X" + strings.ToLower(k[2:]), "0x" + strings.ToLower(k[2:]), "0X" + k[2:4] + strings.ToLower(k[4:])}
		if rng.Intn(2) == 0 {
			// spellings that only a lax decoder maps to the same key: another
			// two-character prefix, trailing garbage after the hex digits
			spell = []string{k, "0Y" + k[2:], "zz" + k[2:], k + "Z", k + "zz", "  " + k[2:]}
		}
		for _, s := range spell {
			t.Block.Signatures[s] = sig
		}
		return true
	})
	mk("signatures: valid ones replaced by signatures over the body without state hash", func(t *ffTriple) bool {
		t.Block.Signatures = map[string]string{}
		return true // (nobody but the validators can produce those; the map is simply empty of valid entries)
	})
	return out
}

// forgeResponse builds a response whose validator set consists of attacker
// keys only, correctly signed by them, optionally copying the content of a
// valid frame.
func forgeResponse(rng *rand.Rand, attackers []*SimKey, base *ffTriple, index int, round int, addr string, named ...*peers.Peer) *ffTriple {
	ps := []*peers.Peer{}
	for i, a := range attackers {
		na := fmt.Sprintf("evil:%d", i)
		if addr != "" {
			na = addr // every forged validator "lives" at the forger's address
		}
		ps = append(ps, mkPeer(a.K, na, fmt.Sprintf("evil%d", i)))
	}
	// validators the forger merely names as members of its set (they sign nothing)
	ps = append(ps, named...)
	t := &ffTriple{From: -1, Snapshot: []byte("forged state")}
	if base != nil {
		wireCopy(&base.Frame, &t.Frame)
	} else {
		t.Frame = hg.Frame{Round: round, Roots: map[string]*hg.Root{}, Events: []*hg.FrameEvent{}, PeerSets: map[int][]*peers.Peer{}}
		for _, p := range ps {
			t.Frame.Roots[p.PubKeyString()] = hg.NewRoot()
		}
	}
	t.Frame.Round = round
	t.Frame.Peers = ps
	t.Frame.PeerSets = map[int][]*peers.Peer{0: ps}
	fh, err := t.Frame.Hash()
	if err != nil {
		return nil
	}
	b := hg.NewBlock(index, round, fh, ps, [][]byte{[]byte("forged transaction")}, nil, time.Now().Unix())
	b.Body.StateHash = []byte("forged state hash")
	for _, a := range attackers {
		sig, err := b.Sign(a.K)
		if err != nil {
			return nil
		}
		b.SetSignature(sig)
	}
	wireCopy(b, &t.Block)
	return t
}

// ---------------------------------------------------------------------------
// victims
// ---------------------------------------------------------------------------

// applyToCore hands a response to core.fastForward of a victim under a full
// state digest and returns (error, digest changed).
func applyToCore(v *SimNode, t *ffTriple) (err error, changed []string, pan *guardResult) {
	before := digestLines(v)
	c := copyTriple(t)
	g := guard(func() { err = v.Core.FastForward(&c.Block, &c.Frame) })
	if g.panicked {
		return fmt.Errorf("panic: %v", g.val), digestDiff(before, digestLines(v)), &g
	}
	return err, digestDiff(before, digestLines(v)), nil
}

// applyThroughNode runs the node-level flow: the victim is catching up and the
// response is served by a Byzantine responder (the only one answering).
func applyThroughNode(nw *Network, v *SimNode, byz *SimNode, t *ffTriple) (err error, changed []string, pan *guardResult) {
	before := digestLines(v)
	byz.Silent = false
	byz.Responder = func(from *SimNode, cmd interface{}) (interface{}, error) {
		if _, ok := cmd.(*bnet.FastForwardRequest); ok {
			c := copyTriple(t)
			return &bnet.FastForwardResponse{FromID: byz.ID, Block: c.Block, Frame: c.Frame, Snapshot: c.Snapshot}, nil
		}
		return nil, fmt.Errorf("not serving")
	}
	nw.FFServe = map[int]bool{byz.Idx: true}
	prevState := v.Node.GetState()
	v.Node.VerifTransition(_state.CatchingUp)
	g := guard(func() { err = v.Node.VerifFastForward() })
	nw.FFServe = nil
	byz.Responder = nil
	byz.Silent = true
	if g.panicked {
		return fmt.Errorf("panic: %v", g.val), []string{"panic"}, &g
	}
	if err != nil {
		// a refused response leaves the node catching up; restore the state it
		// was in so that the digest compares like with like
		v.Node.VerifTransition(prevState)
	}
	return err, digestDiff(before, digestLines(v)), nil
}

func knownToVictim(v *SimNode, signers map[string]bool) bool {
	known := map[string]bool{}
	for _, p := range v.Core.Peers().Peers {
		known[p.PubKeyString()] = true
	}
	for _, p := range v.Core.GenesisPeers().Peers {
		known[p.PubKeyString()] = true
	}
	for _, p := range v.Core.Validators().Peers {
		known[p.PubKeyString()] = true
	}
	if all, err := v.Node.GetAllValidatorSets(); err == nil {
		for _, ps := range all {
			for _, p := range ps {
				known[p.PubKeyString()] = true
			}
		}
	}
	for k := range signers {
		if known[k] {
			return true
		}
	}
	return false
}

func forgerResponder(byz *SimNode, ft *ffTriple) func(from *SimNode, cmd interface{}) (interface{}, error) {
	return func(from *SimNode, cmd interface{}) (interface{}, error) {
		if _, ok := cmd.(*bnet.FastForwardRequest); ok {
			c := copyTriple(ft)
			return &bnet.FastForwardResponse{FromID: byz.ID, Block: c.Block, Frame: c.Frame, Snapshot: c.Snapshot}, nil
		}
		return nil, fmt.Errorf("not serving")
	}
}
