package main

// MonReach measures how far apart the nodes' views were when decisions were
// taken. It never produces a verdict; its counters go into the evidence.
type MonReach struct {
	decidedSeen map[int]map[int]bool // node -> round -> seen decided
	seenEvents  map[int]int          // node -> number of order entries processed
}

func NewMonReach() *MonReach {
	return &MonReach{decidedSeen: map[int]map[int]bool{}, seenEvents: map[int]int{}}
}
func (m *MonReach) Name() string { return "reach" }

func (m *MonReach) AfterStep(nw *Network) {
	minR, maxR := 1<<30, -1
	for _, n := range nw.Nodes {
		if n.Node == nil || n.Puppet || !n.Up || n.StoreClosed {
			continue
		}
		h := n.Core.Hg()
		lcr := n.Node.GetLastConsensusRoundIndex()
		if n.babbling() {
			if lcr < minR {
				minR = lcr
			}
			if lcr > maxR {
				maxR = lcr
			}
		}
		ds := m.decidedSeen[n.Idx]
		if ds == nil {
			ds = map[int]bool{}
			m.decidedSeen[n.Idx] = ds
		}
		// newly inserted events: late witnesses
		for i := m.seenEvents[n.Idx]; i < len(n.order); i++ {
			hash := n.order[i]
			r, err := h.VerifRound(hash)
			if err != nil {
				continue
			}
			w, err := h.VerifWitness(hash)
			if err != nil || !w {
				continue
			}
			if ds[r] {
				nw.Res.count("reach_late_witnesses_after_round_decided", 1)
			}
		}
		m.seenEvents[n.Idx] = len(n.order)
		// rounds newly decided at this node
		lastRound := h.Store.LastRound()
		for r := lcr; r >= 0 && r > lcr-6; r-- {
			if ds[r] {
				continue
			}
			ri, err := h.Store.GetRound(r)
			if err != nil {
				continue
			}
			if !ri.VerifDecided() {
				continue
			}
			ds[r] = true
			nw.Res.count("reach_round_decisions", 1)
			nw.Res.max("reach_max_rounds_behind_last_round_when_first_seen_decided", int64(lastRound-r))
			if lastRound-r >= 3 {
				nw.Res.count("reach_rounds_first_seen_decided_3plus_rounds_behind_last_round", 1)
			}
			if lastRound-r >= 4 {
				nw.Res.count("reach_rounds_first_seen_decided_4plus_rounds_behind_last_round", 1)
			}
			// did another node hold a witness of r that this node lacks?
			mine := map[string]bool{}
			for _, w := range ri.Witnesses() {
				mine[w] = true
			}
			lack := false
			for _, o := range nw.Nodes {
				if o == n || o.Node == nil || o.Puppet || !o.Up || o.StoreClosed {
					continue
				}
				ori, err := o.Core.Hg().Store.GetRound(r)
				if err != nil {
					continue
				}
				for _, w := range ori.Witnesses() {
					if !mine[w] {
						lack = true
					}
				}
			}
			if lack {
				nw.Res.count("reach_decisions_lacking_a_witness_held_elsewhere", 1)
			}
		}
		nw.Res.max("reach_max_round", int64(lastRound))
		nw.Res.max("reach_max_undetermined_events", int64(len(h.UndeterminedEvents)))
	}
	if maxR >= 0 && minR < 1<<30 {
		nw.Res.max("reach_max_consensus_round_lag_between_nodes", int64(maxR-minR))
	}
}
func (m *MonReach) Finish(nw *Network) {}
