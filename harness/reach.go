package main

import (
	"fmt"
	"sort"
)

func sortStrings(s []string) { sort.Strings(s) }

// MonReach measures how far apart the nodes' views were when decisions were
// taken. It never produces a verdict; its counters go into the evidence.
type MonReach struct {
	decidedSeen map[int]map[int]bool // node -> round -> seen decided
	seenEvents  map[int]int          // node -> number of order entries processed
}

func NewMonReach() *MonReach {
	return &MonReach{decidedSeen: map[int]map[int]bool{}, seenEvents: map[int]int{}}
}
func (m *MonReach) Name() string { return "reach" }

func (m *MonReach) AfterStep(nw *Network) {
	minR, maxR := 1<<30, -1
	for _, n := range nw.Nodes {
		if n.Node == nil || n.Puppet || !n.Up || n.StoreClosed {
			continue
		}
		h := n.Core.Hg()
		lcr := n.Node.GetLastConsensusRoundIndex()
		if n.babbling() {
			if lcr < minR {
				minR = lcr
			}
			if lcr > maxR {
				maxR = lcr
			}
		}
		ds := m.decidedSeen[n.Idx]
		if ds == nil {
			ds = map[int]bool{}
			m.decidedSeen[n.Idx] = ds
		}
		// newly inserted events: late witnesses
		for i := m.seenEvents[n.Idx]; i < len(n.order); i++ {
			hash := n.order[i]
			r, err := h.VerifRound(hash)
			if err != nil {
				continue
			}
			w, err := h.VerifWitness(hash)
			if err != nil || !w {
				continue
			}
			if ds[r] {
				nw.Res.count("reach_late_witnesses_after_round_decided", 1)
			}
		}
		m.seenEvents[n.Idx] = len(n.order)
		// rounds newly decided at this node
		lastRound := h.Store.LastRound()
		for r := lcr; r >= 0 && r > lcr-6; r-- {
			if ds[r] {
				continue
			}
			ri, err := h.Store.GetRound(r)
			if err != nil {
				continue
			}
			if !ri.VerifDecided() {
				continue
			}
			ds[r] = true
			nw.Res.count("reach_round_decisions", 1)
			nw.Res.max("reach_max_rounds_behind_last_round_when_first_seen_decided", int64(lastRound-r))
			if lastRound-r >= 3 {
				nw.Res.count("reach_rounds_first_seen_decided_3plus_rounds_behind_last_round", 1)
			}
			if lastRound-r >= 4 {
				nw.Res.count("reach_rounds_first_seen_decided_4plus_rounds_behind_last_round", 1)
			}
			// did another node hold a witness of r that this node lacks?
			mine := map[string]bool{}
			for _, w := range ri.Witnesses() {
				mine[w] = true
			}
			lack := false
			for _, o := range nw.Nodes {
				if o == n || o.Node == nil || o.Puppet || !o.Up || o.StoreClosed {
					continue
				}
				ori, err := o.Core.Hg().Store.GetRound(r)
				if err != nil {
					continue
				}
				for _, w := range ori.Witnesses() {
					if !mine[w] {
						lack = true
					}
				}
			}
			if lack {
				nw.Res.count("reach_decisions_lacking_a_witness_held_elsewhere", 1)
			}
		}
		nw.Res.max("reach_max_round", int64(lastRound))
		nw.Res.max("reach_max_undetermined_events", int64(len(h.UndeterminedEvents)))
	}
	if maxR >= 0 && minR < 1<<30 {
		nw.Res.max("reach_max_consensus_round_lag_between_nodes", int64(maxR-minR))
	}
}
func (m *MonReach) Finish(nw *Network) {}

// MonFame compares the sets of famous witnesses that full-history nodes hold
// for the rounds they have processed. It is a diagnostic: C01 speaks about
// blocks, and two different famous sets give the same block when the medians
// of their timestamps happen to coincide; counting the differences tells how
// often agreement depended on that coincidence.
type MonFame struct {
	canon  map[int]string
	from   map[int]int
	done   map[[2]int]bool
	Strict bool
}

func NewMonFame() *MonFame {
	return &MonFame{canon: map[int]string{}, from: map[int]int{}, done: map[[2]int]bool{}}
}
func (m *MonFame) Name() string { return "fame" }
func (m *MonFame) AfterStep(nw *Network) {
	for _, n := range nw.Nodes {
		if !fullHistory(n) || !n.Up || n.StoreClosed {
			continue
		}
		lcr := n.Node.GetLastConsensusRoundIndex()
		for r := lcr; r >= 0 && r > lcr-3; r-- {
			k := [2]int{n.Idx*1000 + n.Incarnation, r}
			if m.done[k] {
				continue
			}
			ri, err := n.Core.Hg().Store.GetRound(r)
			if err != nil {
				continue
			}
			m.done[k] = true
			fw := ri.FamousWitnesses()
			sortStrings(fw)
			key := fmt.Sprint(fw)
			if c, ok := m.canon[r]; ok {
				nw.Res.count("fame_set_comparisons", 1)
				if c != key {
					nw.Res.count("fame_sets_differ_between_full_history_nodes", 1)
					if m.Strict {
						nw.violate("C01", "C01:famous-witness-sets-differ", fmt.Sprintf("nodes %d and %d processed round %d with different sets of famous witnesses", m.from[r], n.Idx, r),
							map[string]interface{}{"round": r, "a": c, "b": key})
						return
					}
				}
			} else {
				m.canon[r] = key
				m.from[r] = n.Idx
			}
		}
	}
}
func (m *MonFame) Finish(nw *Network) {}

// MonLateSets is a diagnostic: it reports validator-set changes that became
// known to a node (block committed) when the node had already assigned events
// to the round at which the change takes effect (round-received + 6).
type MonLateSets struct {
	processed map[*App]int
}

func NewMonLateSets() *MonLateSets  { return &MonLateSets{processed: map[*App]int{}} }
func (m *MonLateSets) Name() string { return "latesets" }
func (m *MonLateSets) AfterStep(nw *Network) {
	for _, n := range nw.Nodes {
		if n.Node == nil || n.Puppet || n.App == nil || n.StoreClosed {
			continue
		}
		app := n.App
		for i := m.processed[app]; i < len(app.Delivered); i++ {
			d := app.Delivered[i]
			if d.LastRoundAtCommit >= 0 {
				lag := d.LastRoundAtCommit - d.Body.RoundReceived
				if lag > 9 {
					lag = 9
				}
				nw.Res.count(fmt.Sprintf("commit_lag_rounds_%d", lag), 1)
				if lag >= 6 {
					nw.Res.count(fmt.Sprintf("commit_lag_6plus_at_node_%d", n.Idx), 1)
				}
			}
			changed := false
			for _, rc := range d.Resp.InternalTransactionReceipts {
				if rc.Accepted {
					changed = true
				}
			}
			if !changed {
				continue
			}
			nw.Res.count("membership_changes_committed", 1)
			if d.LastRoundAtCommit >= d.Body.RoundReceived+6 {
				nw.Res.count("membership_changes_known_only_after_events_of_the_effective_round_existed", 1)
				nw.Res.max("membership_change_max_rounds_late", int64(d.LastRoundAtCommit-(d.Body.RoundReceived+6)+1))
			}
		}
		m.processed[app] = len(app.Delivered)
	}
}
func (m *MonLateSets) Finish(nw *Network) {
	// did nodes commit the second of two close validator-set changes on both
	// sides of the round at which the first one takes effect?
	type obs struct{ rr, lastRound int }
	perNode := map[int][]obs{}
	for _, n := range nw.Nodes {
		if n.App == nil {
			continue
		}
		for _, d := range n.App.Delivered {
			acc := false
			for _, rc := range d.Resp.InternalTransactionReceipts {
				if rc.Accepted {
					acc = true
				}
			}
			if acc {
				perNode[n.Idx] = append(perNode[n.Idx], obs{d.Body.RoundReceived, d.LastRoundAtCommit})
			}
		}
	}
	lo, hi, r1, r2 := 1<<30, -1, -1, -1
	for _, os := range perNode {
		if len(os) < 2 {
			continue
		}
		r1, r2 = os[0].rr, os[1].rr
		if os[1].lastRound >= 0 {
			nw.Res.count(fmt.Sprintf("second_change_commit_lag_%d_rounds", minInt(os[1].lastRound-os[1].rr, 9)), 1)
			if os[1].lastRound < lo {
				lo = os[1].lastRound
			}
			if os[1].lastRound > hi {
				hi = os[1].lastRound
			}
		}
	}
	if r1 >= 0 && hi >= 0 {
		nw.Res.count(fmt.Sprintf("second_change_committed_%d_rounds_after_the_first", minInt(r2-r1, 9)), 1)
		if lo < r1+6 && hi >= r1+6 {
			nw.Res.count("histories_where_nodes_commit_the_second_change_on_both_sides_of_the_first_taking_effect", 1)
		}
	}
}
