package main

import (
	"bufio"
	"encoding/json"
	"fmt"
	"math/rand"
	"net"
	"strings"
	"sync"
	"sync/atomic"
	"time"

	"github.com/mosaicnetworks/babble/src/config"
	hg "github.com/mosaicnetworks/babble/src/hashgraph"
	bnet "github.com/mosaicnetworks/babble/src/net"
	"github.com/mosaicnetworks/babble/src/node"
	"github.com/mosaicnetworks/babble/src/peers"
	"github.com/mosaicnetworks/babble/src/proxy/inmem"
)

// ---------------------------------------------------------------------------
// live engine: real goroutines, real TCP transport on loopback
// ---------------------------------------------------------------------------

type liveNode struct {
	Key   *SimKey
	Peer  *peers.Peer
	Trans *bnet.NetworkTransport
	Node  *node.Node
	App   *App
	Proxy *inmem.InmemProxy
	Conf  *config.Config
}

type liveNet struct {
	Nodes []*liveNode
}

func newLiveNet(seed int64, n int, tune func(c *config.Config)) (*liveNet, error) {
	return newLiveNetJ(seed, n, tune, nil)
}

// newLiveNetJ: with a jitter source, every node's store, transport and
// application are wrapped in the delaying decorators of jitter.go.
func newLiveNetJ(seed int64, n int, tune func(c *config.Config), j *jitter) (*liveNet, error) {
	ln := &liveNet{}
	var ps []*peers.Peer
	for i := 0; i < n; i++ {
		k := &SimKey{detKey(seed, "live", i)}
		tr, err := bnet.NewTCPTransport("127.0.0.1:0", "", 3, 2*time.Second, 2*time.Second, quietLogger())
		if err != nil {
			return nil, err
		}
		p := mkPeer(k.K, tr.LocalAddr(), fmt.Sprintf("live%d", i))
		ln.Nodes = append(ln.Nodes, &liveNode{Key: k, Peer: p, Trans: tr})
		ps = append(ps, p)
	}
	for i, l := range ln.Nodes {
		conf := config.NewDefaultConfig()
		conf.LogLevel = "panic"
		conf.HeartbeatTimeout = 5 * time.Millisecond
		conf.SlowHeartbeatTimeout = 50 * time.Millisecond
		conf.TCPTimeout = 2 * time.Second
		conf.JoinTimeout = 2 * time.Second
		conf.CacheSize = 20000
		conf.Moniker = l.Peer.Moniker
		// soak and hostile-input runs are not about self-suspension (C17 has its
		// own live cases): with three validators, one node pausing for a few
		// seconds on a loaded machine lets the two others pile up undetermined
		// events and every node suspends itself, which only fires the watchdog
		conf.SuspendLimit = 1000000
		if tune != nil {
			tune(conf)
		}
		l.Conf = conf
		l.App = NewApp(fmt.Sprintf("live%d", i))
		l.Proxy = inmem.NewInmemProxy(l.App, conf.Logger())
		var store hg.Store = hg.NewInmemStore(conf.CacheSize)
		var trans bnet.Transport = l.Trans
		if j != nil {
			store = &jitterStore{Store: store, j: j}
			trans = &jitterTransport{Transport: l.Trans, j: j}
			l.App.Jitter = j
		}
		l.Node = node.NewNode(conf, node.NewValidator(l.Key.K, l.Peer.Moniker), peers.NewPeerSet(clonePeers(ps)), peers.NewPeerSet(clonePeers(ps)),
			store, trans, l.Proxy)
		if err := l.Node.Init(); err != nil {
			return nil, err
		}
	}
	return ln, nil
}

func (ln *liveNet) run() {
	for _, l := range ln.Nodes {
		l.Node.RunAsync(true)
	}
}

func (ln *liveNet) shutdown() {
	for _, l := range ln.Nodes {
		func() {
			defer func() { recover() }()
			l.Node.Shutdown()
		}()
	}
}

// waitBlocks waits (wall clock, watchdog only) until every node delivered at
// least k blocks.
func (ln *liveNet) waitBlocks(k int, max time.Duration, feed func(i int)) bool {
	deadline := time.Now().Add(max)
	i := 0
	for time.Now().Before(deadline) {
		ok := true
		for _, l := range ln.Nodes {
			if len(l.App.DeliveredCopy()) < k {
				ok = false
			}
		}
		if ok {
			return true
		}
		if feed != nil {
			feed(i)
			i++
		}
		time.Sleep(5 * time.Millisecond)
	}
	return false
}

// ---------------------------------------------------------------------------
// C08 TCP tier
// ---------------------------------------------------------------------------

func hostileStreams(rng *rand.Rand, g *hostileGen, count int) [][]byte {
	out := [][]byte{}
	for i := 0; i < count; i++ {
		switch i % 10 {
		case 0:
			b := make([]byte, 1+rng.Intn(4000))
			rng.Read(b)
			out = append(out, b)
		case 1:
			out = append(out, append([]byte{byte(rng.Intn(4))}, []byte(strings.Repeat("[", 20000))...))
		case 2:
			out = append(out, append([]byte{byte(rng.Intn(4))}, []byte(`{"FromID":1e999,"Known":"x","SyncLimit":{}}`)...))
		case 3:
			out = append(out, append([]byte{byte(rng.Intn(4))}, []byte(`{"FromID":1,"Known":{"-1":1,"abc":2},"Events":[null,null]}`)...))
		case 4:
			out = append(out, append([]byte{byte(rng.Intn(4))}, []byte(`{"FromID":1,"Events":[{"Body":null,"Signature":null}],"InternalTransaction":{"Body":{"Type":9,"Peer":{"PubKeyHex":"0"}},"Signature":"|"}}`)...))
		case 5:
			out = append(out, []byte{byte(4 + rng.Intn(250))})
		case 6:
			out = append(out, append([]byte{byte(rng.Intn(4))}, []byte("{\"FromID\":1,\"Known\":{\"1\":"+strings.Repeat("9", 400)+"}}\n")...))
		case 7:
			out = append(out, append([]byte{byte(rng.Intn(4))}, []byte("\xff\xfe{\"a\":\"\xc3\x28\"}")...))
		default:
			// structurally valid hostile requests with the right type byte
			name, cmd := g.request()
			tb := map[string]byte{"JoinRequest": 0, "SyncRequest": 1, "EagerSyncRequest": 2, "FastForwardRequest": 3}[name]
			jb, err := json.Marshal(cmd)
			if err != nil {
				continue
			}
			out = append(out, append([]byte{tb}, append(jb, '\n')...))
		}
	}
	return out
}

func runC08TCP(cs CaseSpec) *CaseResult {
	res := newResult(cs)
	rng := cs.rng("c08tcp")
	// Under the race detector (which also turns on checkptr) nodes are 10-20x
	// slower: slower heartbeat, four validators (one slow node must not stall
	// the others), and the answers that depend on TCP timeouts or on a
	// wall-clock progress watchdog are inconclusive there. What remains decisive
	// in that variant is the process dying (crash handler) and a delivered
	// block changing.
	underRace := cs.Str("race", "") == "1"
	nNodes := 3
	var tune func(c *config.Config)
	if underRace {
		nNodes = 4
		tune = func(c *config.Config) {
			c.HeartbeatTimeout = 100 * time.Millisecond
			c.SlowHeartbeatTimeout = 500 * time.Millisecond
		}
	}
	timing := func(sig, msg string) {
		if underRace {
			res.inconclusive("under the race detector a timing-dependent probe failed (" + sig + "): " + msg)
			return
		}
		res.violate("C08", sig, msg, nil)
	}
	ln, err := newLiveNet(cs.Seed*31+int64(cs.Index), nNodes, tune)
	if err != nil {
		res.inconclusive("cannot create live network: " + err.Error())
		return res
	}
	defer ln.shutdown()
	ln.run()
	txc := 0
	feed := func(i int) {
		if i%4 == 0 {
			txc++
			ln.Nodes[txc%nNodes].Proxy.SubmitTx([]byte(fmt.Sprintf("live-tx-%d", txc)))
		}
	}
	if !ln.waitBlocks(2, 60*time.Second, feed) {
		res.inconclusive("watchdog: live network produced fewer than 2 blocks in 60s")
		return res
	}
	victim := ln.Nodes[0]
	before := map[int]string{}
	for _, d := range victim.App.DeliveredCopy() {
		if b, err := victim.Node.GetBlock(d.Index); err == nil {
			before[d.Index] = normBody(b.Body)
		}
	}
	g := &hostileGen{rng: rng, maxIndex: 50}
	for _, l := range ln.Nodes {
		g.validIDs = append(g.validIDs, l.Peer.ID())
		g.validPub = append(g.validPub, l.Peer.PubKeyString())
	}
	streams := hostileStreams(rng, g, int(cs.I("msgs", 300)))
	addr := victim.Trans.LocalAddr()
	for i, s := range streams {
		res.Evaluations++
		res.count("hostile_tcp_streams", 1)
		conn, err := net.DialTimeout("tcp", addr, 2*time.Second)
		if err != nil {
			timing("C08:tcp-port-stops-accepting", fmt.Sprintf("after %d hostile streams the gossip port no longer accepts connections: %v", i, err))
			return res
		}
		conn.SetDeadline(time.Now().Add(300 * time.Millisecond))
		conn.Write(s)
		buf := make([]byte, 4096)
		bufio.NewReader(conn).Read(buf)
		conn.Close()
		if i%40 == 39 {
			// a valid request through a real transport must still be answered
			var resp bnet.SyncResponse
			err := ln.Nodes[1].Trans.Sync(addr, &bnet.SyncRequest{FromID: ln.Nodes[1].Peer.ID(), Known: map[uint32]int{}, SyncLimit: 10}, &resp)
			res.count("liveness_probes_after_hostile_input", 1)
			if err != nil {
				timing("C08:valid-exchange-fails-after-hostile-input",
					fmt.Sprintf("after %d hostile TCP streams a valid SyncRequest is no longer answered: %v", i+1, err))
				return res
			}
		}
	}
	// concurrent phase: many connections at once deliver validly self-signed
	// join requests by strangers (the application refuses them), valid sync
	// requests and hostile ones; the handlers run side by side in the victim
	if int(cs.I("flood", 1)) == 1 {
		n := floodVictim(addr, cs.Seed*7919+int64(cs.Index), ln, underRace)
		res.count("hostile_tcp_requests_delivered_over_concurrent_connections", int64(n))
		res.Evaluations += int64(n)
		// pending join handlers give up after the join timeout
		time.Sleep(2500 * time.Millisecond)
		var resp bnet.SyncResponse
		var err error
		for try := 0; try < 5; try++ {
			err = ln.Nodes[1].Trans.Sync(addr, &bnet.SyncRequest{FromID: ln.Nodes[1].Peer.ID(), Known: map[uint32]int{}, SyncLimit: 10}, &resp)
			if err == nil {
				break
			}
			time.Sleep(500 * time.Millisecond)
		}
		res.count("liveness_probes_after_hostile_input", 1)
		if err != nil {
			timing("C08:valid-exchange-fails-after-hostile-input", fmt.Sprintf("after %d requests over concurrent connections a valid SyncRequest is no longer answered (5 attempts): %v", n, err))
			return res
		}
	}
	for idx, want := range before {
		b, err := victim.Node.GetBlock(idx)
		if err != nil || normBody(b.Body) != want {
			res.violate("C08", "C08:delivered-block-changed-by-hostile-input", fmt.Sprintf("delivered block %d changed after hostile TCP input", idx), nil)
			return res
		}
	}
	// progress: new transactions still commit
	have := len(victim.App.DeliveredCopy())
	if !ln.waitBlocks(have+1, 60*time.Second, feed) {
		timing("C08:node-cannot-make-progress-after-hostile-input", "after the hostile TCP streams the network no longer commits new transactions within the watchdog")
		return res
	}
	res.count("progress_probes_passed", 1)
	res.digest("c08tcp", cs.Seed, cs.Index, len(streams))
	res.Sample = map[string]interface{}{"kind": "hostile TCP streams", "streams": len(streams), "example": fmt.Sprintf("%q", trunc(string(streams[len(streams)-1]), 200))}
	return res
}

// floodVictim opens many connections at once and writes requests without
// waiting for the answers. Returns the number of requests written.
func floodVictim(addr string, seed int64, ln *liveNet, underRace bool) int {
	// many connections at the same instant, few requests each: the point is
	// handlers running side by side, not volume (every accepted join request
	// becomes an internal transaction that the network has to commit)
	conns, per := 96, 4
	if underRace {
		conns, per = 32, 4
	}
	var wg sync.WaitGroup
	var total int64
	// two join requests that each arrive several times, byte for byte, over
	// different connections at once (a joiner that retries, or asks several
	// times): one request, one answer per handler, and the node goes on
	shared := [][]byte{}
	for g := 0; g < 2; g++ {
		key := detKey(seed, "flood-repeated-joiner", g)
		p := mkPeer(key, fmt.Sprintf("127.0.0.1:%d", 41000+g), fmt.Sprintf("refuse-flood-repeated-%d", g))
		itx := hg.NewInternalTransactionJoin(*p)
		if err := itx.Sign(key); err != nil {
			continue
		}
		if jb, err := json.Marshal(&bnet.JoinRequest{InternalTransaction: itx}); err == nil {
			shared = append(shared, append([]byte{0}, append(jb, '\n')...))
		}
	}
	for c := 0; c < conns; c++ {
		c := c
		wg.Add(1)
		go func() {
			defer wg.Done()
			rng := rand.New(rand.NewSource(seed*1000 + int64(c)))
			for k := 0; k < per; k++ {
				var payload []byte
				if k == 0 && c < 8 && len(shared) == 2 {
					payload = shared[c/4]
				}
				switch k % 4 {
				case 0, 1, 2:
					if payload != nil {
						break
					}
					// a stranger's validly signed join request; the application refuses
					// monikers that start with "refuse"
					key := detKey(seed, "flood-joiner", c*10000+k)
					p := mkPeer(key, fmt.Sprintf("127.0.0.1:%d", 20000+rng.Intn(20000)), fmt.Sprintf("refuse-flood-%d-%d", c, k))
					itx := hg.NewInternalTransactionJoin(*p)
					if err := itx.Sign(key); err != nil {
						continue
					}
					jb, err := json.Marshal(&bnet.JoinRequest{InternalTransaction: itx})
					if err != nil {
						continue
					}
					payload = append([]byte{0}, append(jb, '\n')...)
				default:
					jb, _ := json.Marshal(&bnet.SyncRequest{FromID: ln.Nodes[1].Peer.ID(), Known: map[uint32]int{}, SyncLimit: 5})
					payload = append([]byte{1}, append(jb, '\n')...)
				}
				if payload == nil {
					continue
				}
				conn, err := net.DialTimeout("tcp", addr, 2*time.Second)
				if err != nil {
					time.Sleep(5 * time.Millisecond)
					continue
				}
				conn.SetDeadline(time.Now().Add(50 * time.Millisecond))
				conn.Write(payload)
				if k%8 == 7 {
					buf := make([]byte, 512)
					conn.Read(buf)
				}
				conn.Close()
				atomic.AddInt64(&total, 1)
			}
		}()
	}
	wg.Wait()
	return int(atomic.LoadInt64(&total))
}
