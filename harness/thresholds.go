package main

import (
	"fmt"
	"strings"
	"time"

	hg "github.com/mosaicnetworks/babble/src/hashgraph"
	"github.com/mosaicnetworks/babble/src/peers"
)

// C19: the real SuperMajority()/TrustCount() and the real acceptance decisions
// (SetAnchorBlock, CheckBlock) against integer arithmetic.

func fakePeer(i int) *peers.Peer {
	return peers.NewPeer(fmt.Sprintf("0X04%062X", i+1), fmt.Sprintf("addr%d", i), fmt.Sprintf("p%d", i))
}

func leastAbove(num, den int) int { // least integer k with den*k > num
	return num/den + 1
}

func runThresholdRange(cs CaseSpec) *CaseResult {
	res := newResult(cs)
	lo, hi := int(cs.I("lo", 1)), int(cs.I("hi", 1000))
	byPub := map[string]*peers.Peer{}
	byID := map[uint32]*peers.Peer{}
	list := make([]*peers.Peer, 0, hi)
	for i := 0; i < hi; i++ {
		p := fakePeer(i)
		list = append(list, p)
	}
	// sets below lo are needed to fill the shared maps
	for n := 1; n <= hi; n++ {
		p := list[n-1]
		byPub[p.PubKeyString()] = p
		byID[p.ID()] = p
		if n < lo {
			continue
		}
		var ps *peers.PeerSet
		if n <= 1500 {
			ps = peers.NewPeerSet(list[:n])
		} else {
			// same structure NewPeerSet builds, with the maps shared between
			// successive n (O(1) per n instead of O(n))
			ps = &peers.PeerSet{Peers: list[:n], ByPubKey: byPub, ByID: byID}
		}
		if ps.Len() != n {
			// id collision among fake keys would make Len() differ; skip such n
			res.count("threshold_sizes_skipped_id_collision", 1)
			continue
		}
		sm := ps.SuperMajority()
		tc := ps.TrustCount()
		res.Evaluations++
		res.count("threshold_sizes_checked", 1)
		want := leastAbove(2*n, 3)
		if sm != want {
			res.violate("C19", "C19:supermajority-not-least-above-two-thirds",
				fmt.Sprintf("n=%d: SuperMajority()=%d but the least integer > 2n/3 is %d", n, sm, want), map[string]interface{}{"n": n, "got": sm, "want": want})
			return res
		}
		// the trust rule used by the code is "signatures > TrustCount()": the
		// least accepted count must be strictly above n/3 (and 2 when n>=2)
		leastAccepted := tc + 1
		if 3*leastAccepted <= n || (n >= 2 && leastAccepted < 2) || (n == 1 && leastAccepted != 1) {
			res.violate("C19", "C19:trust-threshold-too-low",
				fmt.Sprintf("n=%d: a block is trusted with %d signatures (TrustCount()=%d), which is not strictly more than n/3", n, leastAccepted, tc), map[string]interface{}{"n": n, "trust_count": tc})
			return res
		}
		// derived facts
		if 3*(2*sm-n) <= n {
			res.violate("C19", "C19:supermajorities-overlap-too-small", fmt.Sprintf("n=%d: two supermajorities of %d may share only %d <= n/3 validators", n, sm, 2*sm-n), nil)
			return res
		}
		f := (n - 1) / 3 // largest f with 3f < n
		if sm-f <= f {
			res.violate("C19", "C19:supermajority-without-honest-majority", fmt.Sprintf("n=%d f=%d: a supermajority of %d may contain %d faulty", n, f, sm, f), nil)
			return res
		}
		if leastAccepted-f < 1 {
			res.violate("C19", "C19:trusted-block-without-honest-signer", fmt.Sprintf("n=%d f=%d: %d signatures suffice", n, f, leastAccepted), nil)
			return res
		}
		if n%997 == 0 || n <= 12 {
			res.digest("n", n, sm, tc)
		}
	}
	res.digest("range", lo, hi)
	res.Sample = map[string]interface{}{"kind": "threshold range", "lo": lo, "hi": hi, "example": fmt.Sprintf("n=%d SuperMajority=%d TrustCount=%d", hi, leastAbove(2*hi, 3), (hi+2)/3)}
	return res
}

// runThresholdEdits: random add/remove/re-add sequences through the real
// WithNewPeer/WithRemovedPeer, compared with a set model of distinct keys.
func runThresholdEdits(cs CaseSpec) *CaseResult {
	res := newResult(cs)
	rng := cs.rng("edits")
	universe := []*peers.Peer{}
	for i := 0; i < 40; i++ {
		universe = append(universe, fakePeer(1000+i))
	}
	seqs := int(cs.I("seqs", 200))
	for sq := 0; sq < seqs; sq++ {
		// several sets derived from common bases, as core does with
		// validators / peers (WithNewPeer on a shared slice)
		type tracked struct {
			ps    *peers.PeerSet
			model []string
		}
		n0 := 1 + rng.Intn(8)
		base := &tracked{ps: peers.NewPeerSet(append([]*peers.Peer{}, universe[:n0]...))}
		for _, p := range universe[:n0] {
			base.model = append(base.model, p.PubKeyString())
		}
		sets := []*tracked{base}
		ops := []string{}
		for op := 0; op < 30; op++ {
			srcIdx := rng.Intn(len(sets))
			src := sets[srcIdx]
			p := universe[rng.Intn(len(universe))]
			// a fresh Peer object with the same key, as decoded from an internal transaction
			pc := peers.NewPeer(p.PubKeyHex, p.NetAddr, p.Moniker)
			nt := &tracked{}
			adding := rng.Intn(3) > 0
			if adding && rng.Intn(3) == 0 {
				// the same key in another spelling (a membership request decodes to the
				// same key bytes and verifies whatever the case of its hex digits)
				pc = peers.NewPeer(strings.ToLower(p.PubKeyHex), p.NetAddr, p.Moniker)
				res.count("threshold_additions_under_another_spelling_of_the_key", 1)
			}
			if !adding {
				// removals name the validator the way the set spells it (whether a
				// removal under another spelling takes effect is C10's business)
				for _, q := range src.ps.Peers {
					if q.PubKeyString() == pc.PubKeyString() {
						pc = peers.NewPeer(q.PubKeyHex, p.NetAddr, p.Moniker)
					}
				}
			}
			if adding {
				nt.ps = src.ps.WithNewPeer(pc)
				nt.model = append([]string{}, src.model...)
				found := false
				for _, k := range nt.model {
					if k == pc.PubKeyString() {
						found = true
					}
				}
				if !found {
					nt.model = append(nt.model, pc.PubKeyString())
				}
				ops = append(ops, fmt.Sprintf("s%d=s%d+%s", len(sets), srcIdx, pc.Moniker))
			} else {
				nt.ps = src.ps.WithRemovedPeer(pc)
				for _, k := range src.model {
					if k != pc.PubKeyString() {
						nt.model = append(nt.model, k)
					}
				}
				ops = append(ops, fmt.Sprintf("s%d=s%d-%s", len(sets), srcIdx, pc.Moniker))
			}
			sets = append(sets, nt)
			// all tracked sets must still agree with their models
			for si, t := range sets {
				res.Evaluations++
				// C19 speaks about thresholds as a function of the number of
				// distinct validators: compare counts and thresholds, not the
				// identity of the listed peers.
				distinct := map[string]bool{}
				for _, q := range t.ps.Peers {
					distinct[q.PubKeyString()] = true
				}
				n := len(t.model)
				bad := ""
				switch {
				case t.ps.Len() != n:
					bad = fmt.Sprintf("Len()=%d", t.ps.Len())
				case len(distinct) != n || len(t.ps.Peers) != n:
					bad = fmt.Sprintf("it lists %d entries / %d distinct validators", len(t.ps.Peers), len(distinct))
				case n > 0 && t.ps.SuperMajority() != leastAbove(2*n, 3):
					bad = fmt.Sprintf("SuperMajority()=%d", t.ps.SuperMajority())
				case n > 0 && 3*(t.ps.TrustCount()+1) <= n:
					bad = fmt.Sprintf("TrustCount()=%d", t.ps.TrustCount())
				}
				if bad != "" {
					got := []string{}
					for _, q := range t.ps.Peers {
						got = append(got, q.Moniker)
					}
					res.violate("C19", "C19:peer-set-edit-count-diverges",
						fmt.Sprintf("after %d additions/removals, set #%d should hold %d distinct validators (threshold %d) but %s", len(ops), si, n, leastAbove(2*n, 3), bad),
						map[string]interface{}{"ops": ops, "listed": got, "model_size": n})
					return res
				}
			}
		}
		res.count("threshold_edit_sequences", 1)
		res.digest("edits", cs.Index, sq, len(sets))
	}
	res.Sample = map[string]interface{}{"kind": "peer-set edit sequences", "sequences": seqs, "ops_per_sequence": 30}
	return res
}

// runThresholdDecisions: the real SetAnchorBlock / CheckBlock for all n<=16, k<=n.
func runThresholdDecisions(cs CaseSpec) *CaseResult {
	res := newResult(cs)
	maxN := int(cs.I("maxn", 16))
	for n := 1; n <= maxN; n++ {
		ks := []*SimKey{}
		ps := []*peers.Peer{}
		for i := 0; i < n; i++ {
			k := detKey(cs.Seed, "thr", n*100+i)
			ks = append(ks, &SimKey{k})
			ps = append(ps, mkPeer(k, fmt.Sprintf("a%d", i), fmt.Sprintf("v%d", i)))
		}
		peerSet := peers.NewPeerSet(ps)
		for k := 0; k <= n; k++ {
			store := hg.NewInmemStore(100)
			h := hg.NewHashgraph(store, hg.DummyInternalCommitCallback, quietLogger())
			h.Init(peerSet)
			block := hg.NewBlock(0, 1, []byte("framehash"), ps, [][]byte{[]byte("tx")}, nil, 0)
			for i := 0; i < k; i++ {
				sig, err := block.Sign(ks[i].K)
				if err != nil {
					panic(err)
				}
				block.SetSignature(sig)
			}
			store.SetBlock(block)
			res.Evaluations++
			res.count("threshold_decisions", 2)
			// CheckBlock
			err := h.CheckBlock(block, peerSet)
			enough := 3*k > n
			if n == 1 {
				enough = k >= 1
			}
			if err == nil && !enough {
				res.violate("C19", "C19:checkblock-accepts-undersigned",
					fmt.Sprintf("CheckBlock accepted a block with %d distinct valid signatures out of %d validators", k, n), map[string]interface{}{"n": n, "k": k})
				return res
			}
			// SetAnchorBlock
			h.SetAnchorBlock(block)
			if h.AnchorBlock != nil && !enough {
				res.violate("C19", "C19:anchor-accepts-undersigned",
					fmt.Sprintf("SetAnchorBlock made a block with %d signatures out of %d validators the anchor", k, n), map[string]interface{}{"n": n, "k": k})
				return res
			}
			if err == nil {
				res.count("threshold_decisions_accepting", 1)
			}
			res.digest("dec", n, k)
			// the same decision taken through the signature pool, on a node that knows
			// a second, larger validator-set for later rounds: k signatures by members
			// of the block's set plus valid signatures by two keys that only belong to
			// the later set must not make the block trusted unless k alone suffices
			if n <= 10 {
				store2 := hg.NewInmemStore(100)
				h2 := hg.NewHashgraph(store2, hg.DummyInternalCommitCallback, quietLogger())
				h2.Init(peerSet)
				later := append([]*peers.Peer{}, clonePeers(ps)...)
				extraKeys := []*SimKey{{detKey(cs.Seed, "thr-later", n*100)}, {detKey(cs.Seed, "thr-later", n*100+1)}}
				for i, ek := range extraKeys {
					later = append(later, mkPeer(ek.K, fmt.Sprintf("late%d", i), fmt.Sprintf("late%d", i)))
				}
				store2.SetPeerSet(10, peers.NewPeerSet(later))
				b2 := hg.NewBlock(0, 1, []byte("framehash"), ps, [][]byte{[]byte("tx")}, nil, 0)
				store2.SetBlock(b2)
				signers := append([]*SimKey{}, ks[:k]...)
				signers = append(signers, extraKeys...)
				for _, sk := range signers {
					sig, err := b2.Sign(sk.K)
					if err != nil {
						panic(err)
					}
					h2.PendingSignatures.Add(sig)
				}
				h2.ProcessSigPool()
				res.count("threshold_decisions", 1)
				if h2.AnchorBlock != nil && !enough {
					got, _ := store2.GetBlock(0)
					res.violate("C19", "C19:anchor-trusted-on-signatures-of-non-validators",
						fmt.Sprintf("a block of a round with %d validators became the trusted anchor with %d signature(s) of its validators plus 2 signatures of keys that only belong to a later validator-set (%d signatures recorded)", n, k, len(got.Signatures)),
						map[string]interface{}{"n": n, "k": k})
					return res
				}
			}
		}
	}
	res.Sample = map[string]interface{}{"kind": "acceptance decisions", "n_up_to": maxN, "all_k": true}
	return res
}

func init() {
	register(&PropDef{
		ID: "C19", Level: "exploration", Engine: "thresholds", Exhaustive: true,
		Rule:          "exhaustive over n=1..100000: the real SuperMajority()/TrustCount() against integer arithmetic (3k>2n minimal; accepted count > n/3) and the derived quorum-intersection facts; plus random add/remove/re-add sequences through WithNewPeer/WithRemovedPeer on sets sharing a base, against a model of distinct keys; plus the real CheckBlock/SetAnchorBlock decisions for all n<=16 and all k<=n with real keys; distinct_nontrivial counts sampled sizes (every 997th and n<=12), edit sequences and (n,k) decisions",
		Assumptions:   []string{"for n>1500 the PeerSet is built with the same exported fields NewPeerSet fills, sharing maps between successive n", "a sufficient number of signatures being refused is not flagged"},
		MinNontrivial: 50,
		Cases: func(tier string, seed int64) []CaseSpec {
			cs := []CaseSpec{}
			step := 6250
			for lo := 1; lo <= 100000; lo += step {
				cs = append(cs, CaseSpec{Kind: "range", P: map[string]int64{"lo": int64(lo), "hi": int64(lo + step - 1)}})
			}
			seqs := int64(150)
			if tier == "thorough" {
				seqs = 3000
			}
			for i := 0; i < 8; i++ {
				cs = append(cs, CaseSpec{Kind: "edits", P: map[string]int64{"seqs": seqs}})
			}
			cs = append(cs, CaseSpec{Kind: "decisions", P: map[string]int64{"maxn": 16}})
			// fame decisions of a real Hashgraph against a replay of the votes with the
			// supermajority of the validators as decision threshold
			fames := 8
			if tier == "thorough" {
				fames = 80
			}
			shapes := []string{"bare-supermajority", "long-election", "long-election-1", "long-election-2", "long-election-3", "straggler-round"}
			for i := 0; i < fames; i++ {
				c := CaseSpec{Kind: "fame", P: map[string]int64{"n": int64(5 + i%3), "events": int64(150 + (i*37)%150)}, S: map[string]string{}}
				if i%2 == 0 {
					c.S["shape"] = shapes[(i/2)%len(shapes)]
				}
				cs = append(cs, c)
			}
			// who is counted: DAGs in which a validator is removed and keeps gossiping
			counted := 8
			if tier == "thorough" {
				counted = 80
			}
			for i := 0; i < counted; i++ {
				cs = append(cs, CaseSpec{Kind: "counted", P: map[string]int64{"n": int64(4 + i%3), "events": int64(450 + (i*53)%300)}, S: map[string]string{}})
			}
			return cs
		},
		Run: func(cs CaseSpec) *CaseResult {
			switch cs.Kind {
			case "range":
				return runThresholdRange(cs)
			case "edits":
				return runThresholdEdits(cs)
			case "fame":
				return runThresholdFame(cs)
			case "counted":
				return runThresholdCounted(cs)
			default:
				return runThresholdDecisions(cs)
			}
		},
		PerCaseTimeout: 10 * time.Minute,
	})
}

// runThresholdFame: a DAG (corpus shape or random, five to seven validators)
// is run by a real Hashgraph, event by event. Every fame decision it took is
// then compared with a replay of the virtual votes (real see / strongly-see
// predicates, harness-side counting) in which only a witness that collects a
// supermajority of the VALIDATORS of its round may decide: a decision that the
// replay cannot reproduce was taken on fewer concurring votes.
func runThresholdFame(cs CaseSpec) *CaseResult {
	res := newResult(cs)
	rng := cs.rng("c19fame")
	sp := dagSpecFromCase(cs)
	sp.Liars = 0
	var d *Dag
	if shape := cs.Str("shape", ""); shape != "" {
		sp.N = shapeCreators[shape]
		d = genDagFromShape(rng, cs.Seed*7919+int64(cs.Index), shapeCorpus[shape], sp.N)
	} else {
		sp.Hidden = true
		sp.HiddenHalf = (sp.N - 1) / 2
		sp.HideFrom = 0.1 + 0.3*rng.Float64()
		sp.HideTo = sp.HideFrom + 0.3 + 0.3*rng.Float64()
		sp.Skew = true
		d = genDag(rng, cs.Seed*7919+int64(cs.Index), sp)
	}
	x := execDag(d, d.Events, ExecOpts{Store: "inmem", Cache: len(d.Events)*2 + 200, Batch: 1})
	defer x.close()
	res.Evaluations++
	if x.Err != nil {
		res.inconclusive(fmt.Sprintf("execution failed: %v", x.Err))
		return res
	}
	decided := 0
	for r := 0; r <= x.Store.LastRound(); r++ {
		ri, err := x.Store.GetRound(r)
		if err != nil {
			continue
		}
		for _, w := range ri.Witnesses() {
			_, fame := ri.VerifFame(w)
			if fame != "True" && fame != "False" {
				continue
			}
			decided++
			res.Evaluations++
			res.count("fame_decisions_replayed", 1)
			votes := subjectVotes(x, d, w, r)
			replay := ""
			for j := r + 1; j <= x.Store.LastRound() && replay == ""; j++ {
				for _, v := range votes[j] {
					if v.Decides {
						replay = map[bool]string{true: "True", false: "False"}[v.Vote]
						break
					}
				}
			}
			if replay == "" {
				res.violate("C19", "C19:fame-decided-without-a-supermajority-of-the-validators",
					fmt.Sprintf("the fame of witness %s (round %d, creator %d) was decided (%s) although no later witness collects concurring votes from a supermajority of the validators of its round", trunc(w, 12), r, d.ByHash[w].Creator, fame),
					map[string]interface{}{"n": sp.N, "round": r, "decided": fame, "shape": cs.Str("shape", "random"), "events": len(d.Events)})
				return res
			}
			if replay != fame {
				res.violate("C19", "C19:fame-decided-against-the-supermajority",
					fmt.Sprintf("the fame of witness %s (round %d) was decided %s but the first witness that collects a supermajority of the validators says %s", trunc(w, 12), r, fame, replay),
					map[string]interface{}{"n": sp.N, "round": r, "shape": cs.Str("shape", "random")})
				return res
			}
		}
	}
	if decided >= 5 {
		res.digest("c19fame", cs.Seed, cs.Index, len(d.Events), d.Events[len(d.Events)-1].Hash)
	}
	res.Sample = map[string]interface{}{"kind": "fame decisions replayed with the validators' supermajority as threshold", "n": sp.N, "events": len(d.Events), "decisions": decided, "shape": cs.Str("shape", "random")}
	return res
}

// runThresholdCounted: a supermajority is a count of VALIDATORS. A DAG of n
// creators is run by a real Hashgraph; when an early block is committed one
// creator is removed from the validator set (effective six rounds later, as
// for an accepted leave request) but keeps gossiping. Afterwards, for every
// round: every witness on record must have been created by a validator of
// that round, and every event that was moved to the next round must strongly
// see (real predicate, harness-side counting) the witnesses of more than two
// thirds of the validators of its parent round - former validators do not
// count.
func runThresholdCounted(cs CaseSpec) *CaseResult {
	res := newResult(cs)
	rng := cs.rng("c19counted")
	sp := dagSpecFromCase(cs)
	sp.Liars = 0
	sp.Private = 0
	sp.NoOtherFirst = 0
	if rng.Intn(2) == 0 {
		// one more creator is hard to hear for a while: rounds then advance on a
		// bare supermajority, where one uncounted vote makes the difference
		sp.Hidden = true
		sp.HiddenHalf = (sp.N - 1) / 2
		sp.HideFrom = 0.3 + 0.2*rng.Float64()
		sp.HideTo = sp.HideFrom + 0.3 + 0.2*rng.Float64()
	}
	d := genDag(rng, cs.Seed*7919+int64(cs.Index), sp)
	removed := rng.Intn(sp.N)
	x := execDag(d, d.Events, ExecOpts{Store: "inmem", Cache: len(d.Events)*2 + 200, Batch: 1, Removal: true, RemoveCreator: removed, RemoveAfterBlock: 1 + rng.Intn(3)})
	defer x.close()
	res.Evaluations++
	if x.Err != nil {
		res.inconclusive(fmt.Sprintf("execution failed: %v", x.Err))
		return res
	}
	if x.RemovalRound == 0 || x.Store.LastRound() < x.RemovalRound+2 {
		res.count("counted_dags_that_end_before_the_removal_takes_effect", 1)
		res.Sample = map[string]interface{}{"kind": "removed validator keeps gossiping", "note": "history too short"}
		return res
	}
	setOf := func(r int) (map[string]bool, int) {
		ps, err := x.Store.GetPeerSet(r)
		if err != nil {
			return nil, 0
		}
		m := map[string]bool{}
		for _, p := range ps.Peers {
			m[p.PubKeyString()] = true
		}
		return m, len(ps.Peers)
	}
	pubOf := func(c int) string { return d.Peers[c].PubKeyString() }
	lateEvents := 0
	for _, de := range d.Events {
		r, err := x.H.VerifRound(de.Hash)
		if err != nil {
			continue
		}
		if de.Creator == removed && r >= x.RemovalRound {
			lateEvents++
		}
		// parent round
		pr := -1
		for _, p := range de.Parents {
			if p == "" {
				continue
			}
			if q, err := x.H.VerifRound(p); err == nil && q > pr {
				pr = q
			}
		}
		if pr < 0 || r != pr+1 || pr < x.RemovalRound {
			continue
		}
		ri, err := x.Store.GetRound(pr)
		if err != nil {
			continue
		}
		members, n := setOf(pr)
		ps, _ := x.Store.GetPeerSet(pr)
		seenBy := map[string]bool{}
		for _, w := range ri.Witnesses() {
			wd := d.ByHash[w]
			if wd == nil || !members[pubOf(wd.Creator)] {
				continue // not a validator of that round: its witness carries no weight
			}
			if ss, err := x.H.VerifStronglySee(de.Hash, w, ps); err == nil && ss {
				seenBy[pubOf(wd.Creator)] = true
			}
		}
		res.Evaluations++
		res.count("round_increments_recounted_over_validators_only", 1)
		if 3*len(seenBy) <= 2*n {
			res.violate("C19", "C19:round-advanced-without-a-supermajority-of-validators",
				fmt.Sprintf("event %s (creator %d) was moved to round %d although it strongly sees the round-%d witnesses of only %d of the %d validators of that round (creator %d was removed from round %d on and keeps gossiping)", trunc(de.Hash, 12), de.Creator, r, pr, len(seenBy), n, removed, x.RemovalRound),
				map[string]interface{}{"n": sp.N, "removed_creator": removed, "removal_effective_round": x.RemovalRound, "parent_round": pr})
			return res
		}
	}
	for r := x.RemovalRound; r <= x.Store.LastRound(); r++ {
		ri, err := x.Store.GetRound(r)
		if err != nil {
			continue
		}
		members, _ := setOf(r)
		for _, w := range ri.Witnesses() {
			wd := d.ByHash[w]
			res.count("witnesses_checked_against_the_round_s_validators", 1)
			if wd != nil && !members[pubOf(wd.Creator)] {
				res.violate("C19", "C19:non-validator-counted-as-witness",
					fmt.Sprintf("round %d lists a witness created by creator %d, who is not a validator of that round (removed from round %d on): its votes and its weight in round increments are counted against the supermajority", r, wd.Creator, x.RemovalRound),
					map[string]interface{}{"n": sp.N, "removed_creator": removed, "removal_effective_round": x.RemovalRound, "round": r})
				return res
			}
		}
	}
	res.count("events_of_the_former_validator_after_its_removal", int64(lateEvents))
	if lateEvents >= 3 {
		res.digest("c19counted", cs.Seed, cs.Index, len(d.Events), d.Events[len(d.Events)-1].Hash)
	}
	res.Sample = map[string]interface{}{"kind": "removed validator keeps gossiping: who is counted", "n": sp.N, "events": len(d.Events), "removal_effective_round": x.RemovalRound, "last_round": x.Store.LastRound(), "events_of_former_validator_after_removal": lateEvents}
	return res
}
