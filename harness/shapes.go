package main

import (
	"fmt"
	"math/rand"

	hg "github.com/mosaicnetworks/babble/src/hashgraph"
)

// Fixed DAG shapes that drive consensus into corners random gossip rarely
// reaches. Each entry is {creator, index of the other-parent event in this
// list or -1}. Creators are relabelled randomly per case; keys, payloads and
// timestamps are fresh.

// shapeLongElections: found by the layered workload search (findshape.go,
// `vcheck findshape <seed> <n> layered`, seeds 3, 9 and 14) on the repaired
// tree: uneven gossip splits the votes on an early witness two/two, then one
// yes/three no; in the round right before the coin round exactly one witness
// can decide ("not famous") and nobody else descends from it; its creator is
// then not heard while the others pass the coin round and one more round;
// then everybody gossips in a ring. (4 validators, 109-119 events.) A node that
// learns the history from one of the others first goes through the coin round
// without knowing the decider. The first corpus entry of this kind was taken
// from a seeded change's demonstration and went stale when 5a7d6d8 changed
// which events strongly see which; these are re-derived from the criterion,
// and a case reports (counter dag_shape_without_partial_decision) when a shape
// no longer shows it.
var shapeLongElections = [][][2]int{
	{
		{0, -1}, {1, -1}, {2, -1}, {3, -1}, {0, 2}, {0, 3}, {2, 3}, {0, 3}, {3, 0}, {2, 1}, {2, 8}, {0, 3},
		{2, 1}, {0, 12}, {0, 8}, {2, 11}, {2, 13}, {0, 16}, {2, 8}, {2, 8}, {2, 1}, {3, 20}, {1, 17}, {2, 21},
		{0, 21}, {1, 24}, {0, 1}, {2, 26}, {3, 27}, {2, 26}, {0, 25}, {0, 28}, {1, 23}, {1, 20}, {1, 28}, {3, 34},
		{2, 21}, {2, 31}, {1, 31}, {0, 37}, {2, 21}, {2, 26}, {2, 35}, {3, 31}, {2, 38}, {1, 43}, {2, 45}, {0, 45},
		{1, 46}, {0, 42}, {0, 21}, {0, 48}, {1, 43}, {1, 43}, {0, 43}, {3, 54}, {2, 51}, {1, 55}, {2, 54}, {0, 58},
		{0, 58}, {0, 55}, {1, 58}, {1, 61}, {3, 58}, {2, 64}, {0, 65}, {0, 65}, {3, 61}, {1, 65}, {0, 65}, {0, 65},
		{1, 71}, {1, 68}, {3, 71}, {2, 74}, {3, 75}, {2, 71}, {0, 76}, {1, 77}, {1, 76}, {1, 77}, {3, 78}, {0, 77},
		{0, 77}, {0, 77}, {3, 85}, {0, 86}, {1, 87}, {2, 88}, {3, 89}, {0, 90}, {1, 91}, {2, 92}, {3, 93}, {0, 94},
		{1, 95}, {2, 96}, {3, 97}, {0, 98}, {1, 99}, {2, 100}, {3, 101}, {0, 102}, {1, 103}, {2, 104}, {3, 105}, {0, 106},
		{1, 107}, {2, 108}, {3, 109}, {0, 110}, {1, 111}, {2, 112}, {3, 113}, {0, 114},
	},
	{
		{0, -1}, {1, -1}, {2, -1}, {3, -1}, {3, 2}, {1, 2}, {1, 4}, {1, 0}, {0, 7}, {2, 7}, {3, 7}, {3, 9},
		{0, 1}, {1, 12}, {0, 9}, {3, 8}, {1, 14}, {1, 8}, {3, 7}, {1, 10}, {3, 2}, {3, 9}, {0, 19}, {2, 22},
		{2, 18}, {3, 24}, {1, 23}, {2, 12}, {3, 23}, {0, 27}, {2, 22}, {2, 29}, {0, 16}, {0, 26}, {3, 33}, {1, 25},
		{0, 35}, {2, 28}, {3, 37}, {0, 35}, {1, 31}, {0, 34}, {2, 38}, {3, 41}, {0, 19}, {1, 43}, {1, 28}, {3, 46},
		{0, 46}, {2, 47}, {1, 49}, {3, 46}, {3, 44}, {3, 49}, {1, 49}, {2, 39}, {0, 53}, {1, 53}, {0, 55}, {2, 53},
		{2, 51}, {2, 57}, {3, 61}, {0, 61}, {1, 62}, {2, 64}, {2, 50}, {3, 64}, {1, 67}, {0, 68}, {0, 66}, {0, 66},
		{1, 66}, {2, 72}, {2, 57}, {1, 74}, {3, 75}, {0, 74}, {2, 76}, {3, 75}, {0, 79}, {1, 80}, {2, 81}, {3, 82},
		{0, 83}, {1, 84}, {2, 85}, {3, 86}, {0, 87}, {1, 88}, {2, 89}, {3, 90}, {0, 91}, {1, 92}, {2, 93}, {3, 94},
		{0, 95}, {1, 96}, {2, 97}, {3, 98}, {0, 99}, {1, 100}, {2, 101}, {3, 102}, {0, 103}, {1, 104}, {2, 105}, {3, 106},
		{0, 107},
	},
	{
		{0, -1}, {1, -1}, {2, -1}, {3, -1}, {0, 2}, {1, 2}, {0, 2}, {1, 3}, {3, 7}, {3, 2}, {0, 2}, {2, 5},
		{2, 9}, {3, 12}, {1, 12}, {3, 14}, {2, 9}, {2, 15}, {0, 9}, {3, 14}, {1, 19}, {1, 19}, {2, 21}, {0, 21},
		{3, 22}, {1, 6}, {3, 25}, {1, 23}, {1, 18}, {2, 18}, {3, 23}, {1, 29}, {3, 6}, {1, 29}, {0, 27}, {2, 23},
		{2, 26}, {1, 36}, {3, 18}, {1, 32}, {2, 39}, {1, 18}, {3, 37}, {3, 40}, {0, 40}, {1, 32}, {0, 41}, {2, 41},
		{3, 36}, {1, 47}, {1, 46}, {3, 50}, {0, 51}, {0, 50}, {0, 40}, {1, 51}, {2, 54}, {2, 54}, {1, 51}, {2, 58},
		{1, 53}, {3, 60}, {2, 61}, {3, 60}, {3, 54}, {0, 60}, {2, 65}, {3, 65}, {2, 60}, {0, 67}, {1, 69}, {1, 69},
		{2, 67}, {3, 69}, {1, 69}, {2, 73}, {2, 74}, {2, 73}, {0, 74}, {0, 73}, {0, 60}, {2, 73}, {3, 74}, {2, 82},
		{1, 80}, {3, 80}, {0, 84}, {0, 84}, {1, 85}, {3, 87}, {0, 89}, {1, 90}, {2, 91}, {3, 92}, {0, 93}, {1, 94},
		{2, 95}, {3, 96}, {0, 97}, {1, 98}, {2, 99}, {3, 100}, {0, 101}, {1, 102}, {2, 103}, {3, 104}, {0, 105}, {1, 106},
		{2, 107}, {3, 108}, {0, 109}, {1, 110}, {2, 111}, {3, 112}, {0, 113}, {1, 114}, {2, 115}, {3, 116}, {0, 117},
	},
}

// shapeStragglerRound: seven validators with very uneven activity; the fame of
// the last witness of an early round is settled later than that of the others
// while events seen by the early famous witnesses only are still waiting to be
// received. (7 validators, 108 events.)
var shapeStragglerRound = [][2]int{
	{0, -1}, {1, -1}, {2, -1}, {3, -1}, {4, -1}, {5, -1}, {6, -1}, {6, 0}, {0, 4}, {5, 2}, {6, 9}, {1, 3},
	{2, 8}, {6, 4}, {0, 12}, {2, 9}, {3, 14}, {4, 15}, {0, 15}, {6, 15}, {5, 19}, {0, 15}, {6, 21}, {2, 20},
	{1, 16}, {0, 23}, {4, 23}, {6, 25}, {3, 23}, {2, 25}, {0, 27}, {2, 30}, {6, 31}, {1, 20}, {0, 20}, {6, 31},
	{2, 34}, {1, 36}, {0, 26}, {4, 20}, {6, 38}, {2, 38}, {1, 20}, {3, 40}, {0, 39}, {6, 39}, {2, 20}, {4, 45},
	{6, 47}, {1, 20}, {5, 46}, {0, 50}, {5, 47}, {2, 47}, {0, 52}, {2, 48}, {2, 43}, {0, 56}, {0, 56}, {4, 58},
	{3, 59}, {4, 56}, {4, 49}, {0, 49}, {2, 60}, {4, 52}, {3, 48}, {6, 65}, {5, 63}, {0, 64}, {2, 68}, {2, 67},
	{3, 69}, {1, 69}, {5, 71}, {5, 67}, {0, 65}, {4, 67}, {2, 76}, {5, 72}, {6, 76}, {0, 73}, {2, 80}, {5, 81},
	{4, 80}, {4, 83}, {5, 80}, {0, 82}, {6, 82}, {6, 73}, {5, 82}, {2, 89}, {2, 89}, {1, 72}, {0, 89}, {5, 89},
	{0, 95}, {2, 96}, {4, 97}, {0, 95}, {2, 89}, {0, 98}, {2, 89}, {6, 102}, {0, 103}, {6, 102}, {2, 95}, {3, 105},
}

var shapeCorpus = map[string][][2]int{"long-election": shapeLongElections[0], "long-election-1": shapeLongElections[1], "long-election-2": shapeLongElections[2], "straggler-round": shapeStragglerRound}
var shapeCreators = map[string]int{"long-election": 4, "long-election-1": 4, "long-election-2": 4, "straggler-round": 7}

func genDagFromShape(rng *rand.Rand, seed int64, shape [][2]int, n int) *Dag {
	return genDagFromShapePerm(rng, seed, shape, n, rng.Perm(n))
}

func genDagFromShapePerm(rng *rand.Rand, seed int64, shape [][2]int, n int, perm []int) *Dag {
	d := &Dag{N: n, ByHash: map[string]*DagEvent{}, Liars: map[int]bool{}}
	for i := 0; i < n; i++ {
		k := detKey(seed, "shape", i)
		d.Keys = append(d.Keys, k)
		d.Peers = append(d.Peers, mkPeer(k, fmt.Sprintf("shape:%d", i), fmt.Sprintf("s%d", i)))
	}
	heads := make([]string, n)
	seqs := make([]int, n)
	for i := range seqs {
		seqs[i] = -1
	}
	for i, p := range shape {
		c := perm[p[0]]
		other := ""
		if p[1] >= 0 {
			other = d.Events[p[1]].Hash
		}
		var txs [][]byte
		if rng.Intn(3) > 0 {
			txs = append(txs, []byte(fmt.Sprintf("stx|%d|%d|%d", c, i, rng.Int63())))
		}
		ev := hg.NewEvent(txs, nil, nil, []string{heads[c], other}, keysPub(d.Keys[c]), seqs[c]+1)
		ev.Body.Timestamp = 1700000000 + int64(i) + int64(rng.Intn(3))
		if err := ev.Sign(d.Keys[c]); err != nil {
			panic(err)
		}
		de := &DagEvent{Body: ev.Body, Signature: ev.Signature, Hash: ev.Hex(), Creator: c, Parents: [2]string{heads[c], other}, Honest: true}
		d.Events = append(d.Events, de)
		d.ByHash[de.Hash] = de
		heads[c] = de.Hash
		seqs[c]++
	}
	return d
}

// ancestryFirst returns the order "everything event z descends from (in
// generation order), then the rest": what a node sees that learnt the history
// from z's creator before hearing of the other events.
func (d *Dag) ancestryFirst(z int) []*DagEvent {
	in := map[string]bool{}
	var walk func(h string)
	walk = func(h string) {
		if h == "" || in[h] {
			return
		}
		in[h] = true
		e := d.ByHash[h]
		walk(e.Parents[0])
		walk(e.Parents[1])
	}
	walk(d.Events[z].Hash)
	out := []*DagEvent{}
	for _, e := range d.Events {
		if in[e.Hash] {
			out = append(out, e)
		}
	}
	for _, e := range d.Events {
		if !in[e.Hash] {
			out = append(out, e)
		}
	}
	return out
}

// descendantsLast returns the order "everything that does not descend from
// event z (in creation order), then z and its descendants": one piece of news
// reaches the node late.
func (d *Dag) descendantsLast(z int) []*DagEvent {
	desc := map[string]bool{d.Events[z].Hash: true}
	for _, e := range d.Events[z+1:] {
		if desc[e.Parents[0]] || desc[e.Parents[1]] {
			desc[e.Hash] = true
		}
	}
	out := []*DagEvent{}
	for _, e := range d.Events {
		if !desc[e.Hash] {
			out = append(out, e)
		}
	}
	for _, e := range d.Events {
		if desc[e.Hash] {
			out = append(out, e)
		}
	}
	return out
}
