package main

import (
	"fmt"
	"math/rand"

	hg "github.com/mosaicnetworks/babble/src/hashgraph"
)

// Fixed DAG shapes that drive consensus into corners random gossip rarely
// reaches. Each entry is {creator, index of the other-parent event in this
// list or -1}. Creators are relabelled randomly per case; keys, payloads and
// timestamps are fresh.

// shapeLongElection: uneven gossip keeps the fame of an early witness undecided
// through round r+2; at r+3 only one validator's witness can decide; that
// validator is then not heard for a while, the others pass a coin round and
// two more rounds; then everybody gossips again. (4 validators, 90 events.)
var shapeLongElection = [][2]int{
	{0, -1}, {1, -1}, {2, -1}, {3, -1},
	{1, 3}, {0, 4}, {0, 4}, {3, 6}, {3, 6}, {0, 8}, {2, 9}, {2, 5},
	{2, 8}, {1, 12}, {2, 13}, {3, 14}, {0, 15},
	{2, 9}, {1, 15}, {1, 11}, {2, 19}, {1, 20}, {2, 16}, {3, 22},
	{3, 19}, {0, 24}, {1, 24}, {1, 25}, {3, 18}, {2, 26}, {1, 29}, {2, 30}, {3, 29}, {0, 32}, {3, 31}, {0, 27},
	{0, 30}, {0, 30}, {1, 37}, {3, 38}, {2, 38}, {2, 34},
	{3, 41},
	{2, 34}, {3, 43}, {3, 43}, {1, 43}, {0, 46},
	{2, 47}, {0, 48}, {0, 41}, {0, 41}, {1, 51}, {2, 52}, {0, 53}, {1, 54}, {1, 50},
	{2, 56},
	{3, 57}, {0, 58},
	{1, 59}, {2, 60}, {3, 61}, {0, 62}, {1, 63}, {2, 64}, {3, 65}, {0, 66}, {1, 67}, {2, 68}, {3, 69}, {0, 70},
	{1, 71}, {2, 72}, {3, 73}, {0, 74}, {1, 75}, {2, 76}, {3, 77}, {0, 78}, {1, 79}, {2, 80}, {3, 81}, {0, 82},
	{1, 83}, {2, 84}, {3, 85}, {0, 86}, {1, 87}, {2, 88},
}

// shapeStragglerRound: seven validators with very uneven activity; the fame of
// the last witness of an early round is settled later than that of the others
// while events seen by the early famous witnesses only are still waiting to be
// received. (7 validators, 108 events.)
var shapeStragglerRound = [][2]int{
	{0, -1}, {1, -1}, {2, -1}, {3, -1}, {4, -1}, {5, -1}, {6, -1}, {6, 0}, {0, 4}, {5, 2}, {6, 9}, {1, 3},
	{2, 8}, {6, 4}, {0, 12}, {2, 9}, {3, 14}, {4, 15}, {0, 15}, {6, 15}, {5, 19}, {0, 15}, {6, 21}, {2, 20},
	{1, 16}, {0, 23}, {4, 23}, {6, 25}, {3, 23}, {2, 25}, {0, 27}, {2, 30}, {6, 31}, {1, 20}, {0, 20}, {6, 31},
	{2, 34}, {1, 36}, {0, 26}, {4, 20}, {6, 38}, {2, 38}, {1, 20}, {3, 40}, {0, 39}, {6, 39}, {2, 20}, {4, 45},
	{6, 47}, {1, 20}, {5, 46}, {0, 50}, {5, 47}, {2, 47}, {0, 52}, {2, 48}, {2, 43}, {0, 56}, {0, 56}, {4, 58},
	{3, 59}, {4, 56}, {4, 49}, {0, 49}, {2, 60}, {4, 52}, {3, 48}, {6, 65}, {5, 63}, {0, 64}, {2, 68}, {2, 67},
	{3, 69}, {1, 69}, {5, 71}, {5, 67}, {0, 65}, {4, 67}, {2, 76}, {5, 72}, {6, 76}, {0, 73}, {2, 80}, {5, 81},
	{4, 80}, {4, 83}, {5, 80}, {0, 82}, {6, 82}, {6, 73}, {5, 82}, {2, 89}, {2, 89}, {1, 72}, {0, 89}, {5, 89},
	{0, 95}, {2, 96}, {4, 97}, {0, 95}, {2, 89}, {0, 98}, {2, 89}, {6, 102}, {0, 103}, {6, 102}, {2, 95}, {3, 105},
}

var shapeCorpus = map[string][][2]int{"long-election": shapeLongElection, "straggler-round": shapeStragglerRound}
var shapeCreators = map[string]int{"long-election": 4, "straggler-round": 7}

func genDagFromShape(rng *rand.Rand, seed int64, shape [][2]int, n int) *Dag {
	d := &Dag{N: n, ByHash: map[string]*DagEvent{}, Liars: map[int]bool{}}
	for i := 0; i < n; i++ {
		k := detKey(seed, "shape", i)
		d.Keys = append(d.Keys, k)
		d.Peers = append(d.Peers, mkPeer(k, fmt.Sprintf("shape:%d", i), fmt.Sprintf("s%d", i)))
	}
	perm := rng.Perm(n)
	heads := make([]string, n)
	seqs := make([]int, n)
	for i := range seqs {
		seqs[i] = -1
	}
	for i, p := range shape {
		c := perm[p[0]]
		other := ""
		if p[1] >= 0 {
			other = d.Events[p[1]].Hash
		}
		var txs [][]byte
		if rng.Intn(3) > 0 {
			txs = append(txs, []byte(fmt.Sprintf("stx|%d|%d|%d", c, i, rng.Int63())))
		}
		ev := hg.NewEvent(txs, nil, nil, []string{heads[c], other}, keysPub(d.Keys[c]), seqs[c]+1)
		ev.Body.Timestamp = 1700000000 + int64(i) + int64(rng.Intn(3))
		if err := ev.Sign(d.Keys[c]); err != nil {
			panic(err)
		}
		de := &DagEvent{Body: ev.Body, Signature: ev.Signature, Hash: ev.Hex(), Creator: c, Parents: [2]string{heads[c], other}, Honest: true}
		d.Events = append(d.Events, de)
		d.ByHash[de.Hash] = de
		heads[c] = de.Hash
		seqs[c]++
	}
	return d
}

// ancestryFirst returns the order "everything event z descends from (in
// generation order), then the rest": what a node sees that learnt the history
// from z's creator before hearing of the other events.
func (d *Dag) ancestryFirst(z int) []*DagEvent {
	in := map[string]bool{}
	var walk func(h string)
	walk = func(h string) {
		if h == "" || in[h] {
			return
		}
		in[h] = true
		e := d.ByHash[h]
		walk(e.Parents[0])
		walk(e.Parents[1])
	}
	walk(d.Events[z].Hash)
	out := []*DagEvent{}
	for _, e := range d.Events {
		if in[e.Hash] {
			out = append(out, e)
		}
	}
	for _, e := range d.Events {
		if !in[e.Hash] {
			out = append(out, e)
		}
	}
	return out
}

// descendantsLast returns the order "everything that does not descend from
// event z (in creation order), then z and its descendants": one piece of news
// reaches the node late.
func (d *Dag) descendantsLast(z int) []*DagEvent {
	desc := map[string]bool{d.Events[z].Hash: true}
	for _, e := range d.Events[z+1:] {
		if desc[e.Parents[0]] || desc[e.Parents[1]] {
			desc[e.Hash] = true
		}
	}
	out := []*DagEvent{}
	for _, e := range d.Events {
		if !desc[e.Hash] {
			out = append(out, e)
		}
	}
	for _, e := range d.Events {
		if desc[e.Hash] {
			out = append(out, e)
		}
	}
	return out
}
