package main

import (
	"fmt"
	"math/rand"

	hg "github.com/mosaicnetworks/babble/src/hashgraph"
)

// Fixed DAG shapes that drive consensus into corners random gossip rarely
// reaches. Each entry is {creator, index of the other-parent event in this
// list or -1}. Creators are relabelled randomly per case; keys, payloads and
// timestamps are fresh.

// shapeLongElections: uneven gossip splits the votes on an early witness
// two/two, then one yes/three no; in the round right before the coin round
// exactly one witness can decide ("not famous") and nobody else descends from
// it; its creator is then not heard while the others pass the coin round and
// one more round; then everybody gossips in a ring. (4 validators.) A node that
// learns the history from one of the others first goes through the coin round
// without knowing the decider. Entries 0-2 were found by the layered workload
// search (findshape.go, `FINDSHAPE_PRINT=1 vcheck findshape <seed> 1 layered`,
// seeds 6, 13 and 61) on the current tree; entry 3 is the schedule of a seeded
// change's demonstration. Which events strongly see which is what these
// shapes depend on: a case reports (counter dag_shape_without_partial_decision)
// when a shape no longer shows a partial decision before a coin round, as
// happened while 5a7d6d8 was in the tree.
var shapeLongElections = [][][2]int{
	{
		{0, -1}, {1, -1}, {2, -1}, {3, -1}, {0, 3}, {0, 2}, {3, 4}, {2, 3}, {2, 3}, {1, 6}, {2, 3}, {2, 9},
		{3, 1}, {1, 12}, {2, 1}, {3, 1}, {0, 15}, {0, 14}, {2, 15}, {2, 13}, {1, 17}, {3, 5}, {3, 20}, {1, 22},
		{1, 21}, {0, 23}, {0, 24}, {0, 24}, {2, 21}, {1, 28}, {3, 23}, {0, 21}, {2, 25}, {0, 23}, {2, 23}, {2, 24},
		{0, 29}, {1, 36}, {2, 36}, {1, 31}, {1, 30}, {2, 21}, {3, 31}, {1, 42}, {0, 43}, {1, 21}, {2, 45}, {2, 42},
		{2, 42}, {3, 41}, {0, 48}, {3, 46}, {1, 51}, {2, 50}, {2, 30}, {0, 52}, {3, 55}, {0, 56}, {0, 56}, {0, 48},
		{0, 45}, {3, 60}, {3, 43}, {1, 61}, {0, 63}, {2, 61}, {0, 52}, {1, 62}, {0, 53}, {1, 68}, {0, 48}, {0, 54},
		{3, 71}, {1, 65}, {3, 73}, {1, 71}, {0, 65}, {0, 65}, {0, 69}, {3, 65}, {0, 75}, {1, 80}, {1, 80}, {1, 80},
		{1, 80}, {3, 80}, {0, 84}, {1, 86}, {2, 87}, {3, 87}, {0, 87}, {1, 88}, {2, 90}, {1, 54}, {1, 92}, {0, 94},
		{0, 91}, {1, 92}, {3, 92}, {2, 96}, {1, 99}, {3, 100}, {0, 101}, {1, 102}, {2, 103}, {3, 104}, {0, 105}, {1, 106},
		{2, 107}, {3, 108}, {0, 109}, {1, 110}, {2, 111}, {3, 112}, {0, 113}, {1, 114}, {2, 115}, {3, 116}, {0, 117}, {1, 118},
		{2, 119}, {3, 120}, {0, 121}, {1, 122}, {2, 123}, {3, 124}, {0, 125}, {1, 126}, {2, 127}, {3, 128}, {0, 129},
	},
	{
		{0, -1}, {1, -1}, {2, -1}, {3, -1}, {2, 0}, {1, 2}, {2, 0}, {1, 6}, {1, 0}, {2, 3}, {1, 3}, {2, 0},
		{1, 3}, {0, 11}, {1, 13}, {0, 3}, {1, 3}, {2, 10}, {0, 3}, {0, 3}, {1, 3}, {0, 3}, {3, 21}, {3, 21},
		{1, 21}, {2, 18}, {0, 17}, {3, 16}, {0, 25}, {0, 24}, {3, 16}, {3, 25}, {2, 24}, {2, 27}, {1, 29}, {2, 34},
		{1, 35}, {0, 30}, {0, 32}, {0, 36}, {0, 33}, {0, 23}, {2, 41}, {2, 34}, {3, 39}, {1, 43}, {2, 24}, {0, 46},
		{0, 45}, {0, 27}, {3, 45}, {2, 24}, {3, 51}, {3, 45}, {1, 51}, {0, 51}, {3, 51}, {1, 55}, {2, 52}, {0, 56},
		{3, 59}, {2, 49}, {1, 61}, {0, 62}, {3, 61}, {2, 60}, {2, 57}, {2, 62}, {1, 64}, {0, 60}, {2, 63}, {3, 63},
		{2, 69}, {2, 55}, {0, 54}, {0, 73}, {2, 75}, {3, 69}, {1, 77}, {3, 76}, {3, 75}, {1, 75}, {0, 76}, {3, 78},
		{2, 81}, {3, 68}, {3, 73}, {0, 83}, {3, 87}, {3, 87}, {3, 81}, {2, 81}, {2, 90}, {0, 90}, {3, 82}, {0, 94},
		{2, 95}, {1, 95}, {2, 97}, {3, 95}, {2, 99}, {1, 93}, {3, 95}, {1, 102}, {1, 95}, {0, 104}, {3, 104}, {3, 105},
		{1, 107}, {1, 105}, {0, 109}, {3, 110}, {2, 111}, {3, 110}, {2, 113}, {3, 109}, {0, 115}, {1, 116}, {2, 117}, {3, 118},
		{0, 119}, {1, 120}, {2, 121}, {3, 122}, {0, 123}, {1, 124}, {2, 125}, {3, 126}, {0, 127}, {1, 128}, {2, 129}, {3, 130},
		{0, 131}, {1, 132}, {2, 133}, {3, 134}, {0, 135}, {1, 136}, {2, 137}, {3, 138}, {0, 139}, {1, 140}, {2, 141}, {3, 142},
		{0, 143},
	},
	{
		{0, -1}, {1, -1}, {2, -1}, {3, -1}, {2, 3}, {1, 2}, {3, 4}, {2, 6}, {1, 6}, {2, 8}, {0, 9}, {1, 10},
		{0, 6}, {0, 6}, {0, 11}, {1, 14}, {0, 6}, {3, 9}, {2, 15}, {2, 17}, {0, 3}, {3, 14}, {2, 20}, {2, 17},
		{2, 5}, {1, 17}, {2, 16}, {2, 20}, {3, 25}, {1, 14}, {2, 20}, {3, 20}, {3, 15}, {1, 32}, {3, 30}, {3, 20},
		{1, 14}, {0, 36}, {2, 29}, {3, 36}, {1, 20}, {1, 37}, {2, 39}, {1, 35}, {0, 41}, {1, 27}, {3, 38}, {2, 45},
		{0, 42}, {1, 46}, {1, 46}, {2, 37}, {1, 37}, {0, 51}, {3, 51}, {3, 38}, {0, 42}, {1, 56}, {2, 56}, {1, 48},
		{2, 48}, {3, 44}, {0, 57}, {1, 55}, {1, 58}, {2, 62}, {0, 65}, {0, 57}, {1, 67}, {3, 68}, {1, 66}, {2, 69},
		{1, 60}, {0, 70}, {0, 69}, {3, 72}, {2, 75}, {2, 75}, {0, 72}, {1, 77}, {1, 75}, {3, 80}, {0, 80}, {0, 81},
		{0, 80}, {2, 80}, {2, 81}, {2, 80}, {1, 87}, {0, 88}, {2, 81}, {2, 81}, {2, 88}, {3, 92}, {1, 93}, {1, 92},
		{3, 95}, {0, 96}, {1, 97}, {2, 98}, {3, 99}, {0, 100}, {1, 101}, {2, 102}, {3, 103}, {0, 104}, {1, 105}, {2, 106},
		{3, 107}, {0, 108}, {1, 109}, {2, 110}, {3, 111}, {0, 112}, {1, 113}, {2, 114}, {3, 115}, {0, 116}, {1, 117}, {2, 118},
		{3, 119}, {0, 120}, {1, 121}, {2, 122}, {3, 123}, {0, 124},
	},
	{
		{0, -1}, {1, -1}, {2, -1}, {3, -1},
		{1, 3}, {0, 4}, {0, 4}, {3, 6}, {3, 6}, {0, 8}, {2, 9}, {2, 5},
		{2, 8}, {1, 12}, {2, 13}, {3, 14}, {0, 15},
		{2, 9}, {1, 15}, {1, 11}, {2, 19}, {1, 20}, {2, 16}, {3, 22},
		{3, 19}, {0, 24}, {1, 24}, {1, 25}, {3, 18}, {2, 26}, {1, 29}, {2, 30}, {3, 29}, {0, 32}, {3, 31}, {0, 27},
		{0, 30}, {0, 30}, {1, 37}, {3, 38}, {2, 38}, {2, 34},
		{3, 41},
		{2, 34}, {3, 43}, {3, 43}, {1, 43}, {0, 46},
		{2, 47}, {0, 48}, {0, 41}, {0, 41}, {1, 51}, {2, 52}, {0, 53}, {1, 54}, {1, 50},
		{2, 56},
		{3, 57}, {0, 58},
		{1, 59}, {2, 60}, {3, 61}, {0, 62}, {1, 63}, {2, 64}, {3, 65}, {0, 66}, {1, 67}, {2, 68}, {3, 69}, {0, 70},
		{1, 71}, {2, 72}, {3, 73}, {0, 74}, {1, 75}, {2, 76}, {3, 77}, {0, 78}, {1, 79}, {2, 80}, {3, 81}, {0, 82},
		{1, 83}, {2, 84}, {3, 85}, {0, 86}, {1, 87}, {2, 88},
	},
}

// shapeStragglerRound: seven validators with very uneven activity; the fame of
// the last witness of an early round is settled later than that of the others
// while events seen by the early famous witnesses only are still waiting to be
// received. (7 validators, 108 events.)
var shapeStragglerRound = [][2]int{
	{0, -1}, {1, -1}, {2, -1}, {3, -1}, {4, -1}, {5, -1}, {6, -1}, {6, 0}, {0, 4}, {5, 2}, {6, 9}, {1, 3},
	{2, 8}, {6, 4}, {0, 12}, {2, 9}, {3, 14}, {4, 15}, {0, 15}, {6, 15}, {5, 19}, {0, 15}, {6, 21}, {2, 20},
	{1, 16}, {0, 23}, {4, 23}, {6, 25}, {3, 23}, {2, 25}, {0, 27}, {2, 30}, {6, 31}, {1, 20}, {0, 20}, {6, 31},
	{2, 34}, {1, 36}, {0, 26}, {4, 20}, {6, 38}, {2, 38}, {1, 20}, {3, 40}, {0, 39}, {6, 39}, {2, 20}, {4, 45},
	{6, 47}, {1, 20}, {5, 46}, {0, 50}, {5, 47}, {2, 47}, {0, 52}, {2, 48}, {2, 43}, {0, 56}, {0, 56}, {4, 58},
	{3, 59}, {4, 56}, {4, 49}, {0, 49}, {2, 60}, {4, 52}, {3, 48}, {6, 65}, {5, 63}, {0, 64}, {2, 68}, {2, 67},
	{3, 69}, {1, 69}, {5, 71}, {5, 67}, {0, 65}, {4, 67}, {2, 76}, {5, 72}, {6, 76}, {0, 73}, {2, 80}, {5, 81},
	{4, 80}, {4, 83}, {5, 80}, {0, 82}, {6, 82}, {6, 73}, {5, 82}, {2, 89}, {2, 89}, {1, 72}, {0, 89}, {5, 89},
	{0, 95}, {2, 96}, {4, 97}, {0, 95}, {2, 89}, {0, 98}, {2, 89}, {6, 102}, {0, 103}, {6, 102}, {2, 95}, {3, 105},
}

// shapeBareSupermajority: five validators (supermajority four). The votes on a
// round-1 witness split three/two; in round 3 one witness strongly sees
// exactly four witnesses and collects three no / one yes, three others collect
// two/two, one collects three no / two yes; in round 4 a witness that does not
// descend from the first one collects three yes / one no. Three concurring
// votes out of four collected are not a supermajority of five: nobody may
// decide there. The first of these witnesses (event 37) is not referenced by
// anybody for a long while. Then ring gossip. (5 validators, 128 events; the
// schedule of a seeded change's demonstration.)
var shapeBareSupermajority = [][2]int{
	{0, -1}, {1, -1}, {2, -1}, {3, -1}, {4, -1}, {4, 2}, {2, 1}, {2, 1}, {4, 0}, {0, 3}, {2, 3}, {0, 8},
	{3, 11}, {2, 11}, {3, 13}, {2, 14}, {4, 11}, {0, 15}, {1, 13}, {2, 16}, {3, 16}, {4, 15}, {2, 17}, {3, 22},
	{4, 23}, {0, 24}, {2, 25}, {3, 26}, {0, 27}, {2, 28}, {4, 18}, {4, 27}, {1, 31}, {3, 29}, {4, 33}, {3, 34},
	{2, 35}, {0, 36}, {4, 32}, {3, 38}, {2, 39}, {3, 40}, {4, 41}, {1, 42}, {2, 43}, {3, 44}, {4, 45}, {0, 46},
	{2, 47}, {3, 48}, {4, 49}, {1, 50}, {0, 51}, {2, 52}, {3, 53}, {4, 54}, {1, 55}, {0, 56}, {2, 57}, {3, 58},
	{4, 59}, {1, 60}, {0, 61}, {2, 62}, {3, 63}, {4, 64}, {1, 65}, {0, 66}, {2, 67}, {3, 68}, {4, 69}, {1, 70},
	{0, 71}, {2, 72}, {3, 73}, {4, 74}, {1, 75}, {0, 76}, {2, 77}, {3, 78}, {4, 79}, {1, 80}, {0, 81}, {2, 82},
	{3, 83}, {4, 84}, {1, 85}, {0, 86}, {2, 87}, {3, 88}, {4, 89}, {1, 90}, {0, 91}, {2, 92}, {3, 93}, {4, 94},
	{1, 95}, {0, 96}, {2, 97}, {3, 98}, {4, 99}, {1, 100}, {0, 101}, {2, 102}, {3, 103}, {4, 104}, {1, 105}, {0, 106},
	{2, 107}, {3, 108}, {4, 109}, {1, 110}, {0, 111}, {2, 112}, {3, 113}, {4, 114}, {1, 115}, {0, 116}, {2, 117}, {3, 118},
	{4, 119}, {1, 120}, {0, 121}, {2, 122}, {3, 123}, {4, 124}, {1, 125}, {0, 126},
}

var shapeCorpus = map[string][][2]int{"long-election": shapeLongElections[0], "long-election-1": shapeLongElections[1], "long-election-2": shapeLongElections[2], "long-election-3": shapeLongElections[3], "straggler-round": shapeStragglerRound, "bare-supermajority": shapeBareSupermajority}
var shapeCreators = map[string]int{"long-election": 4, "long-election-1": 4, "long-election-2": 4, "long-election-3": 4, "straggler-round": 7, "bare-supermajority": 5}

func genDagFromShape(rng *rand.Rand, seed int64, shape [][2]int, n int) *Dag {
	return genDagFromShapePerm(rng, seed, shape, n, rng.Perm(n))
}

func genDagFromShapePerm(rng *rand.Rand, seed int64, shape [][2]int, n int, perm []int) *Dag {
	d := &Dag{N: n, ByHash: map[string]*DagEvent{}, Liars: map[int]bool{}}
	for i := 0; i < n; i++ {
		k := detKey(seed, "shape", i)
		d.Keys = append(d.Keys, k)
		d.Peers = append(d.Peers, mkPeer(k, fmt.Sprintf("shape:%d", i), fmt.Sprintf("s%d", i)))
	}
	heads := make([]string, n)
	seqs := make([]int, n)
	for i := range seqs {
		seqs[i] = -1
	}
	for i, p := range shape {
		c := perm[p[0]]
		other := ""
		if p[1] >= 0 {
			other = d.Events[p[1]].Hash
		}
		var txs [][]byte
		if rng.Intn(3) > 0 {
			txs = append(txs, []byte(fmt.Sprintf("stx|%d|%d|%d", c, i, rng.Int63())))
		}
		ev := hg.NewEvent(txs, nil, nil, []string{heads[c], other}, keysPub(d.Keys[c]), seqs[c]+1)
		ev.Body.Timestamp = 1700000000 + int64(i) + int64(rng.Intn(3))
		if err := ev.Sign(d.Keys[c]); err != nil {
			panic(err)
		}
		de := &DagEvent{Body: ev.Body, Signature: ev.Signature, Hash: ev.Hex(), Creator: c, Parents: [2]string{heads[c], other}, Honest: true}
		d.Events = append(d.Events, de)
		d.ByHash[de.Hash] = de
		heads[c] = de.Hash
		seqs[c]++
	}
	return d
}

// ancestryFirst returns the order "everything event z descends from (in
// generation order), then the rest": what a node sees that learnt the history
// from z's creator before hearing of the other events.
func (d *Dag) ancestryFirst(z int) []*DagEvent {
	in := map[string]bool{}
	var walk func(h string)
	walk = func(h string) {
		if h == "" || in[h] {
			return
		}
		in[h] = true
		e := d.ByHash[h]
		walk(e.Parents[0])
		walk(e.Parents[1])
	}
	walk(d.Events[z].Hash)
	out := []*DagEvent{}
	for _, e := range d.Events {
		if in[e.Hash] {
			out = append(out, e)
		}
	}
	for _, e := range d.Events {
		if !in[e.Hash] {
			out = append(out, e)
		}
	}
	return out
}

// descendantsLast returns the order "everything that does not descend from
// event z (in creation order), then z and its descendants": one piece of news
// reaches the node late.
func (d *Dag) descendantsLast(z int) []*DagEvent {
	desc := map[string]bool{d.Events[z].Hash: true}
	for _, e := range d.Events[z+1:] {
		if desc[e.Parents[0]] || desc[e.Parents[1]] {
			desc[e.Hash] = true
		}
	}
	out := []*DagEvent{}
	for _, e := range d.Events {
		if !desc[e.Hash] {
			out = append(out, e)
		}
	}
	for _, e := range d.Events {
		if desc[e.Hash] {
			out = append(out, e)
		}
	}
	return out
}
