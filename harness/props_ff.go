package main

import (
	"crypto/ecdsa"
	"fmt"
	"time"

	bnet "github.com/mosaicnetworks/babble/src/net"
	_state "github.com/mosaicnetworks/babble/src/node/state"
	"github.com/mosaicnetworks/babble/src/peers"
)

// ffScenario builds a network, runs a history and harvests valid triples.
type ffScenario struct {
	nw      *Network
	triples []*ffTriple
	byz     *SimNode
	victims []*SimNode
}

// collidingKeyPairs: indexes (i, j) such that detKey(0,"collide",i) and
// detKey(0,"collide",j) are different keys with the same 32-bit peer id
// (`vcheck findcollisions 4`).
var collidingKeyPairs = [][2]int{{993, 48767}, {29721, 179326}, {103232, 181346}, {152041, 200622}}

func buildFFScenario(cs CaseSpec, res *CaseResult) *ffScenario {
	nw := NewNetwork(cs, res)
	opts := defaultOpts()
	nw.DefaultOpts = opts
	n := int(cs.I("n", 4))
	if c := int(cs.I("collide", 0)); c > 0 {
		// validator 1's key shares its 32-bit peer id with a key the forger will use
		nw.KeyOverride = map[int]*ecdsa.PrivateKey{1: detKey(0, "collide", collidingKeyPairs[(c-1)%len(collidingKeyPairs)][0])}
	}
	nw.GenesisNodes(n, opts, nil)
	nw.CheckSuspendAfterGossip = false
	sc := &ffScenario{nw: nw}
	rng := cs.rng("ffsc")
	phases := 3
	for ph := 0; ph < phases; ph++ {
		sp := ScheduleSpec{Steps: int(cs.I("steps", 150)), Shape: "uniform", SubmitProb: 0.5, TxKinds: 3, TruncProb: 0.1}
		if ph == 1 && cs.I("joins", 0) > 0 {
			sp.Joins = int(cs.I("joins", 0))
		}
		if ph == 1 {
			sp.Shape = "lag"
		}
		nw.RunSchedule(sp)
		for _, x := range nw.upReal() {
			if rng.Intn(2) == 0 || len(sc.triples) == 0 {
				if t := harvestTriple(x); t != nil {
					sc.triples = append(sc.triples, t)
				}
			}
		}
	}
	return sc
}

// freshVictim restarts an identity with an empty store (a node that lost its
// data), babbling, not yet synced.
func (sc *ffScenario) freshVictim(idx int) *SimNode {
	nw := sc.nw
	v := nw.Nodes[idx]
	cur := clonePeers(nw.Nodes[0].Core.Peers().Peers)
	o := nw.DefaultOpts
	if err := nw.startNode(v, o, cur, clonePeers(nw.Genesis)); err != nil {
		return nil
	}
	return v
}

func runC12(cs CaseSpec) *CaseResult {
	res := newResult(cs)
	sc := buildFFScenario(cs, res)
	nw := sc.nw
	defer nw.Close()
	rng := cs.rng("c12")
	if len(sc.triples) == 0 {
		res.inconclusive("no anchor block was available to harvest a valid response")
		return res
	}
	n := len(nw.Genesis)
	byz := nw.Nodes[n-1]
	byz.Silent = true
	stranger := &SimKey{detKey(cs.Seed, "ffstranger", cs.Index)}
	// victims: a lagging full node, a fresh node, and (later) a node that was reset before
	lag := nw.Nodes[0]
	fresh := sc.freshVictim(n - 2)
	victims := []*SimNode{lag}
	if fresh != nil {
		victims = append(victims, fresh)
	}
	// a previously reset victim: let node 1 adopt a valid response first
	resetV := nw.Nodes[1]
	if err, _, _ := applyToCore(resetV, sc.triples[len(sc.triples)-1]); err == nil {
		resetV.ResetEpochs++
		victims = append(victims, resetV)
		res.count("ff_valid_responses_adopted", 1)
	} else {
		res.count("ff_valid_responses_refused", 1)
	}
	attempts := 0
	maxAttempts := int(cs.I("attempts", 150))
	kinds := map[string]bool{}
	for round := 0; round < 6 && attempts < maxAttempts; round++ {
		valid := sc.triples[rng.Intn(len(sc.triples))]
		if ok, why := ffRule(valid); !ok {
			res.count("ff_harvested_triples_not_satisfying_rule", 1)
			_ = why
			continue
		}
		tms := ffTamperings(rng, valid, sc.triples, stranger)
		for _, ti := range rng.Perm(len(tms)) {
			if attempts >= maxAttempts {
				break
			}
			tm := tms[ti]
			ok, why := ffRule(tm.t)
			if ok {
				res.count("ff_tamperings_still_satisfying_rule_skipped", 1)
				continue
			}
			v := victims[rng.Intn(len(victims))]
			path := "core.fastForward"
			var err error
			var changed []string
			var pan *guardResult
			if rng.Intn(3) == 0 {
				path = "node-level flow (Node.fastForward with a Byzantine responder)"
				err, changed, pan = applyThroughNode(nw, v, byz, tm.t)
			} else {
				err, changed, pan = applyToCore(v, tm.t)
			}
			attempts++
			res.Evaluations++
			res.count("ff_tampered_responses_judged", 1)
			kinds[tm.name] = true
			if pan != nil {
				res.count("ff_attempts_ending_in_panic", 1)
			}
			if err == nil {
				nw.violate("C12", "C12:inconsistent-response-adopted:"+ffClass(tm.name),
					fmt.Sprintf("a fast-forward response that must be refused (%s; tampering: %s) was adopted through %s", why, tm.name, path),
					map[string]interface{}{"tampering": tm.name, "why": why, "path": path, "victim": v.Idx, "victim_resets": v.ResetEpochs})
				return res
			}
			if len(changed) > 0 {
				nw.violate("C12", "C12:refused-response-changed-state:"+changeClass(changed),
					fmt.Sprintf("a fast-forward response refused with %q (tampering: %s) through %s left the node changed", trunc(err.Error(), 80), tm.name, path),
					map[string]interface{}{"tampering": tm.name, "path": path, "victim": v.Idx, "changed": changed})
				return res
			}
			res.count("ff_refusals_state_unchanged", 1)
		}
	}
	res.count("ff_distinct_tampering_kinds", int64(len(kinds)))
	if attempts >= 10 {
		res.digest("c12", cs.Seed, cs.Index, attempts, len(sc.triples))
	}
	names := []string{}
	for k := range kinds {
		names = append(names, k)
	}
	res.Sample = map[string]interface{}{"kind": "tampered fast-forward responses", "n": n, "valid_triples": len(sc.triples), "judged": attempts, "victims": len(victims), "tamperings": names}
	return res
}

func ffClass(name string) string {
	switch {
	case containsStr(name, "spellings"):
		return "signer-counted-repeatedly"
	case containsStr(name, "signatures"):
		return "signatures"
	case containsStr(name, "frame"):
		return "frame"
	case containsStr(name, "block"):
		return "block"
	}
	return "other"
}

func changeClass(changed []string) string {
	onlyApp := true
	for _, l := range changed {
		if !containsStr(l, ": app ") {
			onlyApp = false
		}
	}
	if onlyApp {
		return "application-restored"
	}
	return "node-state"
}

func runC14(cs CaseSpec) *CaseResult {
	res := newResult(cs)
	sc := buildFFScenario(cs, res)
	nw := sc.nw
	defer nw.Close()
	rng := cs.rng("c14")
	n := len(nw.Genesis)
	var byz, lag, fresh *SimNode
	resetIdx := 1
	if n >= 4 {
		byz = nw.Nodes[n-1]
		byz.Silent = true
		lag = nw.Nodes[0]
		fresh = sc.freshVictim(n - 2)
	} else {
		// a network that started with one or two validators and grew through joins:
		// a node that lost its data only knows the (tiny) genesis set
		real := nw.babblers()
		if len(real) < 3 {
			res.inconclusive(fmt.Sprintf("the network did not grow (only %d nodes)", len(real)))
			return res
		}
		byz = real[len(real)-1]
		byz.Silent = true
		lag = real[0]
		fresh = sc.freshVictim(real[len(real)-2].Idx)
		resetIdx = real[1].Idx
		res.count("forgery_victims_that_only_know_a_tiny_genesis_set", 1)
	}
	victims := []*SimNode{lag}
	if fresh != nil {
		victims = append(victims, fresh)
		if n < 4 {
			// the point of these cases
			victims = append(victims, fresh, fresh)
		}
	}
	if len(sc.triples) > 0 {
		resetV := nw.Nodes[resetIdx]
		if err, _, _ := applyToCore(resetV, sc.triples[len(sc.triples)-1]); err == nil {
			resetV.ResetEpochs++
			victims = append(victims, resetV)
		}
	}
	attempts := int(cs.I("attempts", 40))
	for i := 0; i < attempts; i++ {
		k := 1 + rng.Intn(4)
		att := []*SimKey{}
		for j := 0; j < k; j++ {
			att = append(att, &SimKey{detKey(cs.Seed, "forger", cs.Index*1000+i*10+j)})
		}
		if c := int(cs.I("collide", 0)); c > 0 && i%2 == 0 {
			// a stranger's key whose 32-bit peer id equals that of a validator the
			// victim knows (found by a birthday search; an attacker would grind one)
			att[0] = &SimKey{detKey(0, "collide", collidingKeyPairs[(c-1)%len(collidingKeyPairs)][1])}
			res.count("forged_responses_with_a_signer_whose_peer_id_collides_with_a_known_validator", 1)
		}
		var base *ffTriple
		if len(sc.triples) > 0 && rng.Intn(2) == 0 {
			base = sc.triples[rng.Intn(len(sc.triples))]
		}
		index := 1 + rng.Intn(50)
		if rng.Intn(2) == 0 {
			index = 100000 + rng.Intn(1000) // "higher than everyone"
		}
		round := 1 + rng.Intn(200)
		faddr := ""
		if i%5 == 4 {
			faddr = byz.Addr
		}
		v := victims[rng.Intn(len(victims))]
		var named []*peers.Peer
		namedKey, namedSig := "", ""
		if i%4 == 2 && v.Core != nil {
			// the forged set also names a validator the victim knows, the block has
			// an index at which the victim holds (and once verified) that
			// validator's signature, and the signature map repeats that genuine
			// signature string under the validator's key. It is a signature of the
			// honest block of that index, not of the forged one: the response is
			// still endorsed by strangers only.
			st := v.Core.Hg().Store
			for idx := st.LastBlockIndex(); idx >= 0 && namedKey == ""; idx-- {
				hb, e := st.GetBlock(idx)
				if e != nil {
					continue
				}
				for _, hn := range nw.Nodes {
					if hn == v || hn.Puppet || hn.Key == nil {
						continue
					}
					if gs, ok := hb.Signatures[hn.PubHex]; ok {
						namedKey, namedSig, index = hn.PubHex, gs, idx
						named = []*peers.Peer{mkPeer(hn.Key, hn.Addr, hn.Name)}
						break
					}
				}
			}
			if namedKey != "" {
				for len(att) < 2 {
					att = append(att, &SimKey{detKey(cs.Seed, "forger-extra", cs.Index*1000+i*10+len(att))})
				}
				k = len(att)
				base = nil
				res.count("forged_responses_naming_a_known_validator_with_its_genuine_signature_of_the_honest_block_of_that_index", 1)
			}
		}
		ft := forgeResponse(rng, att, base, index, round, faddr, named...)
		if ft == nil {
			continue
		}
		signers := map[string]bool{}
		for kx := range ft.Block.Signatures {
			signers[kx] = true
		}
		if namedKey != "" {
			// not a signer of this block: the entry is a signature of another body
			ft.Block.Signatures[namedKey] = namedSig
		}
		if i%3 == 1 {
			// decoys: entries filed under the keys of validators the victim knows
			// that are not signatures of this block by them (junk, or the
			// validator's genuine signature of another, honest block). The
			// signature map is outside the body hash, so anybody can add them;
			// they endorse nothing and the response is still signed by strangers only.
			for _, hn := range nw.Nodes {
				if hn.Puppet || hn.Key == nil || hn.Node == nil || rng.Intn(2) == 0 {
					continue
				}
				decoy := []string{"1|1", fmt.Sprintf("%x|%x", rng.Int63(), rng.Int63())}[rng.Intn(2)]
				if rng.Intn(2) == 0 {
					if lb := hn.Core.Hg().Store.LastBlockIndex(); lb >= 0 {
						if hb, e := hn.Core.Hg().Store.GetBlock(rng.Intn(lb + 1)); e == nil {
							if gs, ok := hb.Signatures[hn.PubHex]; ok {
								decoy = gs
							}
						}
					}
				}
				ft.Block.Signatures[hn.PubHex] = decoy
				res.count("forged_responses_decoy_entries_under_known_validators_keys", 1)
			}
		}
		if i%5 == 4 {
			// a joining node (fast-sync enabled) whose join request landed on the
			// forger: the join response itself names the forged set
			jv := nw.addIdentity(fmt.Sprintf("c14joiner%d", i))
			o := nw.DefaultOpts
			o.FastSync = true
			if err := nw.startNode(jv, o, clonePeers(lag.Core.Peers().Peers), clonePeers(nw.Genesis)); err == nil && jv.Node.GetState() == _state.Joining {
				jv.Up = false
				if !knownToVictim(jv, signers) {
					nw.joinDirect = func(target string, args *bnet.JoinRequest, out *bnet.JoinResponse) error {
						return wireCopy(&bnet.JoinResponse{FromID: byz.ID, Accepted: true, AcceptedRound: round, Peers: ft.Frame.Peers}, out)
					}
					g := guard(func() { jv.Node.VerifJoin() })
					nw.joinDirect = nil
					if !g.panicked && jv.Node.GetState() == _state.CatchingUp {
						v = jv
						res.count("forged_join_response_then_forged_fastforward", 1)
						// the join response gives the node no reason to trust those keys
						byz.Silent = false
						byz.Responder = forgerResponder(byz, ft)
						nw.FFServe = map[int]bool{byz.Idx: true}
						var ferr error
						g := guard(func() { ferr = jv.Node.VerifFastForward() })
						nw.FFServe = nil
						byz.Responder = nil
						byz.Silent = true
						res.Evaluations++
						res.count("forged_responses_judged", 1)
						adopted := false
						if b, e := jv.Node.GetBlock(ft.Block.Index()); e == nil && !g.panicked && ferr == nil && normBody(b.Body) == normBody(ft.Block.Body) {
							adopted = true
						}
						if adopted || jv.App.Restores > 0 {
							nw.violate("C14", "C14:snapshot-endorsed-only-by-strangers-adopted",
								fmt.Sprintf("a joining node whose join response (from the single peer that answered) named a self-made validator set then reset itself to block %d signed only by that set", ft.Block.Index()),
								map[string]interface{}{"attacker_keys": k, "path": "join response + fast-forward from the same peer", "application_restored": jv.App.Restores})
							return res
						}
						res.count("forged_refusals_state_unchanged", 1)
						res.digest("c14j", cs.Seed, cs.Index, i)
						continue
					}
				}
			}
		}
		if knownToVictim(v, signers) {
			continue
		}
		res.Evaluations++
		res.count("forged_responses_judged", 1)
		path := "core.fastForward"
		var err error
		var changed []string
		if rng.Intn(2) == 0 {
			// node-level: the forger is one responder among the honest ones and
			// claims the highest block
			path = "node-level flow (forger among honest responders, highest block index)"
			before := digestLines(v)
			byz.Silent = false
			byz.Responder = forgerResponder(byz, ft)
			prev := v.Node.GetState()
			v.Node.VerifTransition(_state.CatchingUp)
			g := guard(func() { err = v.Node.VerifFastForward() })
			byz.Responder = nil
			byz.Silent = true
			if g.panicked {
				err = fmt.Errorf("panic: %v", g.val)
				res.count("forged_attempts_ending_in_panic", 1)
			}
			adoptedForged := false
			if b, e := v.Node.GetBlock(ft.Block.Index()); e == nil && err == nil {
				if normBody(b.Body) == normBody(ft.Block.Body) {
					adoptedForged = true
				}
			}
			if err == nil && !adoptedForged {
				// the node adopted an honest responder's answer instead: fine, but
				// this victim is now reset
				v.ResetEpochs++
				res.count("forged_outvoted_by_honest_response", 1)
				continue
			}
			if err != nil {
				v.Node.VerifTransition(prev)
			}
			changed = digestDiff(before, digestLines(v))
			if err == nil && adoptedForged {
				changed = nil
			}
		} else {
			err, changed, _ = applyToCore(v, ft)
		}
		if err == nil {
			nw.violate("C14", "C14:snapshot-endorsed-only-by-strangers-adopted",
				fmt.Sprintf("a node reset itself to block %d of a self-made validator set of %d key(s) none of which it has any reason to trust (through %s)", ft.Block.Index(), k, path),
				map[string]interface{}{"attacker_keys": k, "path": path, "victim": v.Idx, "victim_resets": v.ResetEpochs, "frame_copied_from_honest": base != nil})
			return res
		}
		if len(changed) > 0 {
			nw.violate("C14", "C14:refused-forgery-changed-state:"+changeClass(changed),
				fmt.Sprintf("a forged response refused with %q through %s left the node changed", trunc(err.Error(), 80), path),
				map[string]interface{}{"path": path, "victim": v.Idx, "changed": changed})
			return res
		}
		res.count("forged_refusals_state_unchanged", 1)
		res.digest("c14", cs.Seed, cs.Index, i)
	}
	res.Sample = map[string]interface{}{"kind": "forged fast-forward responses", "n": n, "victims": len(victims), "judged": res.Evaluations}
	return res
}

func init() {
	ffCases := func(tier string, seed int64, quick, thorough int, attempts int64) []CaseSpec {
		count := quick
		if tier == "thorough" {
			count = thorough
		}
		cs := []CaseSpec{}
		ns := []int64{4, 5, 4, 6, 7, 4}
		for i := 0; i < count; i++ {
			c := CaseSpec{Kind: "ff", P: map[string]int64{"n": ns[i%len(ns)], "steps": int64(100 + (i*17)%120), "attempts": attempts}}
			if i%3 == 1 {
				c.P["joins"] = 1
			}
			cs = append(cs, c)
		}
		return cs
	}
	register(&PropDef{
		ID: "C12", Level: "exploration", Engine: "nodesim+tamperer",
		Rule:           "one case = one nodesim history (n=4..7, optional join) from which valid (block, frame, snapshot) triples are harvested at several points from several honest nodes; ~150 tamperings per case (every block-body field, frame round/peers/roots/events/peer-sets/timestamp, foreign frames, signature maps reduced to the threshold, foreign signers, replays, one signer under several spellings of its key) are offered to victims in three states (lagging, fresh, previously reset) through core.fastForward and through the node-level flow with a Byzantine responder; oracle: harness reference rule + full state digest (hashgraph, store, validator sets, core, application incl. Restore calls) unchanged after a refusal; non-trivial: >=10 tampered responses judged",
		Assumptions:    []string{"a response satisfying the rule but refused is not flagged", "tamperings that still satisfy the rule are skipped and counted"},
		MinNontrivial:  6,
		Cases:          func(tier string, seed int64) []CaseSpec { return ffCases(tier, seed, 32, 400, 150) },
		Run:            runC12,
		PerCaseTimeout: 10 * time.Minute,
	})
	register(&PropDef{
		ID: "C14", Level: "exploration", Engine: "nodesim+forger",
		Rule:          "one case = one nodesim history plus ~40 forged fast-forward responses (1-4 attacker keys outside every set the victim knows, self-made validator set, block correctly signed by it, empty or copied frame content, block index small or higher than everyone's) offered to victims in three states through core.fastForward and through the node-level flow with the forger as one responder among honest ones; must be refused with the state digest unchanged; non-trivial: a forged response was judged against a victim that knows none of its signers",
		Assumptions:   []string{"'reason to trust' = configured peers, genesis peers, current validators and every validator set the node has derived"},
		MinNontrivial: 6,
		Cases: func(tier string, seed int64) []CaseSpec {
			cs := ffCases(tier, seed+7, 24, 300, 40)
			for i := range cs {
				if i%3 == 1 {
					cs[i].P["collide"] = int64(1 + i%4)
				}
			}
			tiny := 6
			if tier == "thorough" {
				tiny = 60
			}
			for j := 0; j < tiny; j++ {
				cs = append(cs, CaseSpec{Kind: "ff", P: map[string]int64{"n": int64(1 + j%2), "joins": int64(2 + j%2), "steps": int64(260 + 40*(j%3)), "attempts": 40}})
			}
			return cs
		},
		Run:            runC14,
		PerCaseTimeout: 10 * time.Minute,
	})
}
