package main

import (
	"fmt"
	"math/rand"
	"os"
	"strings"
	"time"
)

func dagWorkDir(cs CaseSpec) string {
	tmp := os.Getenv("VERIF_WORKDIR")
	if tmp == "" {
		tmp = verifDir() + "/.work"
	}
	os.MkdirAll(tmp, 0o755)
	dir, err := os.MkdirTemp(tmp, fmt.Sprintf("dag-%d-", cs.Index))
	if err != nil {
		panic(err)
	}
	return dir
}

func dagSpecFromCase(cs CaseSpec) DagSpec {
	r := cs.rng("dagspec")
	n := int(cs.I("n", 4))
	sp := DagSpec{
		N:            n,
		Events:       int(cs.I("events", 200)),
		TxProb:       0.3 + 0.4*r.Float64(),
		Private:      0.05 * float64(r.Intn(4)),
		NoOtherFirst: 0.3,
		Repeat:       0.15 * float64(r.Intn(3)),
		ClockSkew:    int64(r.Intn(4)) * 100,
		Liars:        0,
	}
	if n == 1 {
		sp.Private = 0
	}
	if l := int(cs.I("liars", 0)); l > 0 {
		sp.Liars = l
	}
	sp.FastClocks = int(cs.I("fastclocks", 0))
	return sp
}

func dagCases(tier string, seed int64, quick, thorough int) []CaseSpec {
	count := quick
	if tier == "thorough" {
		count = thorough
	}
	ns := []int64{4, 3, 5, 2, 7, 4, 1, 6, 4, 5, 3, 7}
	res := []CaseSpec{}
	for i := 0; i < count; i++ {
		cs := CaseSpec{Kind: "dag", P: map[string]int64{}, Seed: seed, Index: i}
		r := cs.rng("gen")
		n := ns[i%len(ns)]
		cs.P["n"] = n
		ev := int64(60 + r.Intn(340))
		if n >= 6 {
			ev = int64(150 + r.Intn(250))
		}
		if n == 1 {
			ev = int64(30 + r.Intn(60))
		}
		cs.P["events"] = ev
		res = append(res, cs)
	}
	return res
}

func runC03(cs CaseSpec) *CaseResult {
	res := newResult(cs)
	// the same differential engine decides C01's "nodes that receive the same
	// events in different orders deliver the same blocks" when asked to
	label := cs.Str("as", "C03")
	ordersOnly := label != "C03"
	rng := cs.rng("c03")
	sp := dagSpecFromCase(cs)
	d := genDag(rng, cs.Seed*7919+int64(cs.Index), sp)
	if shape := cs.Str("shape", ""); shape != "" {
		if shape == "long-election" {
			shape = []string{"long-election", "long-election-1", "long-election-2", "long-election-3"}[cs.Index%4]
		}
		sp.N = shapeCreators[shape]
		d = genDagFromShape(rng, cs.Seed*7919+int64(cs.Index), shapeCorpus[shape], sp.N)
		res.count("dag_from_shape_corpus", 1)
	}
	if cs.I("backlog", 0) == 1 {
		// a long history in which one creator is not heard by anybody for a while (it
		// still listens): its backlog reaches a node long after the events it builds on
		// were committed (and, with a small cache, evicted)
		sp2 := sp
		sp2.Hidden = true
		sp2.HiddenHalf = sp.N - 1
		sp2.HideFrom = 0.15 + 0.2*rng.Float64()
		sp2.HideTo = sp2.HideFrom + 0.3 + 0.25*rng.Float64()
		sp2.Private = 0
		sp2.NoOtherFirst = 0
		d = genDag(rng, cs.Seed*7919+int64(cs.Index), sp2)
		res.count("dag_with_unheard_creator_backlog", 1)
	}
	var stragglerIdx []int
	if cs.I("straggler", 0) == 1 {
		// many creators, one of them heard by only half of the others for a while:
		// its witnesses are decided later than the rest of their round
		sp2 := sp
		sp2.Hidden = true
		sp2.HiddenHalf = sp.N / 2
		sp2.HideFrom = 0.1 + 0.3*rng.Float64()
		sp2.HideTo = sp2.HideFrom + 0.3 + 0.3*rng.Float64()
		sp2.Private = 0
		sp2.NoOtherFirst = 0
		d = genDag(rng, cs.Seed*7919+int64(cs.Index), sp2)
		// workload search: prefer a DAG in which, at some moment of the creation-order
		// execution, a round had more than a supermajority of famous witnesses while a
		// witness that later turned out famous was still open and did not see a waiting event
		for try := 0; try < int(cs.I("tries", 60)); try++ {
			sp3 := sp2
			sp3.HideFrom = 0.05 + 0.4*rng.Float64()
			sp3.HideTo = sp3.HideFrom + 0.2 + 0.5*rng.Float64()
			sp3.HiddenHalf = 1 + rng.Intn(sp.N-2)
			sp3.Skew = try%3 != 0
			sp3.Hidden = try%4 != 3
			if try%2 == 1 {
				sp3.Mute = true
				sp3.MuteFrom = 0.1 + 0.5*rng.Float64()
				sp3.MuteTo = sp3.MuteFrom + 0.05 + 0.2*rng.Float64()
			}
			cand := genDag(rng, cs.Seed*7919+int64(cs.Index)*1000+int64(try), sp3)
			probe := execDag(cand, cand.Events, ExecOpts{Store: "inmem", Cache: len(cand.Events)*2 + 200, Batch: 1, ProbeStraggler: true})
			hits := 0
			if probe.Err == nil {
				moments := stragglerMoments(probe)
				hits = len(moments)
				if hits > 0 {
					stragglerIdx = moments
				}
			}
			probe.close()
			res.count("dag_straggler_search_candidates", 1)
			if hits > 0 {
				d = cand
				res.count("dag_straggler_dags_with_sensitive_moment", 1)
				break
			}
		}
		res.count("dag_straggler_dags", 1)
	}
	if cs.I("coin", 0) == 1 && cs.Str("shape", "") == "" {
		// workload search: keep generating split-view DAGs until one makes a fame
		// election last into a coin round (judged by running it)
		found := false
		if sp.N == 4 {
			// layered generate-and-test (findshape.go): a history built so that one
			// witness alone decides right before the coin round and is then not heard
			lt := int(cs.I("layered_tries", 8))
			if cs.Tier == "thorough" {
				lt = 24
			}
			for try := 0; try < lt && !found; try++ {
				ls := cs.Seed*7919 + int64(cs.Index)*1000 + int64(try)
				shape, _ := layeredElectionSchedule(rand.New(rand.NewSource(ls)), ls)
				res.count("dag_layered_search_attempts", 1)
				if shape != nil {
					d = genDagFromShape(rng, ls, shape, 4)
					found = true
					res.count("dag_layered_search_dags_found", 1)
				}
			}
		}
		for try := 0; try < int(cs.I("tries", 300)) && !found; try++ {
			sp2 := sp
			sp2.Hidden = true
			sp2.HiddenHalf = (sp.N - 1) / 2
			if sp2.HiddenHalf < 1 {
				sp2.HiddenHalf = 1
			}
			sp2.HideFrom = 0.1 + 0.3*rng.Float64()
			sp2.HideTo = sp2.HideFrom + 0.2 + 0.4*rng.Float64()
			sp2.Private = 0
			sp2.NoOtherFirst = 0
			if try%2 == 1 {
				sp2.Mute = true
				sp2.MuteFrom = sp2.HideFrom + 0.05 + 0.3*rng.Float64()
				sp2.MuteTo = sp2.MuteFrom + 0.15 + 0.3*rng.Float64()
			}
			cand := genDag(rng, cs.Seed*7919+int64(cs.Index)*1000+int64(try), sp2)
			probe := execDag(cand, cand.Events, ExecOpts{Store: "inmem", Cache: len(cand.Events)*2 + 200, Batch: 1})
			span := probe.MaxPendingSpan
			partial := 0
			if probe.Err == nil && span >= 3 {
				partial, _ = electionProfile(probe)
			}
			probe.close()
			res.count("dag_coin_search_candidates", 1)
			if partial > 0 {
				res.count("dag_coin_search_partial_deciders_before_coin_round", 1)
			}
			if probe.Err == nil && (partial > 0 || (try > int(cs.I("tries", 300))*3/4 && span >= int(cs.I("span", 4)))) {
				d = cand
				found = true
				res.count("dag_coin_round_dags_found", 1)
				res.max("dag_max_election_span_rounds", int64(span))
				break
			}
		}
		if !found {
			res.count("dag_coin_search_failed", 1)
		}
	}
	dir := dagWorkDir(cs)
	defer os.RemoveAll(dir)
	big := len(d.Events)*2 + 200
	ref := execDag(d, d.Events, ExecOpts{Store: "inmem", Cache: big, Batch: 1, ReadValues: true})
	defer ref.close()
	res.Evaluations++
	if ref.Err != nil {
		res.inconclusive(fmt.Sprintf("reference execution failed: %v", ref.Err))
		return res
	}
	if !ordersOnly {
		// the time of a block is part of the output: by definition the median of
		// the times its round's famous witnesses claim, whatever the clock of the
		// machine that runs consensus says
		for _, b := range ref.RawBlocks {
			ri, err := ref.Store.GetRound(b.RoundReceived())
			if err != nil {
				continue
			}
			var all []int64
			for _, w := range ri.FamousWitnesses() {
				de := d.ByHash[w]
				if de == nil {
					all = nil
					break
				}
				all = append(all, de.Body.Timestamp)
			}
			res.count("dag_block_times_compared_with_the_dag", 1)
			if sp.FastClocks > 0 {
				res.count("dag_block_times_with_creator_clocks_ahead_of_the_local_clock", 1)
			}
			if sig, msg := checkTimestamp(b.Timestamp(), all, nil, 0, d.N); sig != "" {
				res.violate("C03", "C03:block-time-not-determined-by-the-dag", fmt.Sprintf("block %d (round-received %d): %s; creator clocks mode %d (1: all ahead of the local clock, 2: half of them)", b.Index(), b.RoundReceived(), msg, sp.FastClocks),
					map[string]interface{}{"n": d.N, "famous_witness_times": all, "block_timestamp": b.Timestamp(), "local_unix_time": time.Now().Unix()})
				return res
			}
		}
	}
	res.count("dag_events", int64(len(d.Events)))
	res.count("dag_reference_blocks", int64(len(ref.Blocks)))
	res.count("dags", 1)
	W := 2*(ref.MaxUndet+sp.N*12) + 60
	res.max("dag_max_undetermined_in_reference", int64(ref.MaxUndet))
	type variant struct {
		dim    string
		desc   string
		order  []*DagEvent
		o      ExecOpts
		prefix bool
	}
	var vs []variant
	nOrders := 3
	if cs.Tier == "thorough" {
		nOrders = 6
	}
	for k := 0; k < nOrders; k++ {
		vs = append(vs, variant{"order", fmt.Sprintf("random linear extension #%d, in-memory", k), d.randomLinearExtension(rng, nil), ExecOpts{Store: "inmem", Cache: big, Batch: 1, ReadValues: true}, false})
	}
	for l := 0; l < sp.N && sp.N > 1; l++ {
		if cs.I("coin", 0) != 1 && cs.I("straggler", 0) != 1 && l >= 2 {
			break
		}
		vs = append(vs, variant{"order", fmt.Sprintf("creator %d's events arrive as late as possible, in-memory", l), d.delayedExtension(rng, l), ExecOpts{Store: "inmem", Cache: big, Batch: 1, ReadValues: true}, false})
	}
	nAnc := 3
	if cs.I("coin", 0) == 1 || cs.I("straggler", 0) == 1 {
		nAnc = 10
	}
	if cs.I("backlog", 0) == 1 {
		nAnc = 1 // long histories: the budget goes to the store and cache variants
	}
	if cs.I("coin", 0) == 1 {
		// targeted: the view of a node that reaches a later witness without knowing
		// the witnesses that decided an election just before its coin round
		_, _, free := electionProfileZ(ref)
		if len(free) == 0 && strings.HasPrefix(cs.Str("shape", ""), "long-election") {
			// the fixed shape no longer does what it is in the corpus for
			res.count("dag_shape_without_partial_decision", 1)
		}
		if len(free) > 0 {
			idx := map[string]int{}
			for i, e := range d.Events {
				idx[e.Hash] = i
			}
			done := map[int]bool{}
			for _, zh := range free {
				z, ok := idx[zh]
				if !ok || done[z] || len(done) >= 12 {
					continue
				}
				done[z] = true
				res.count("dag_orders_from_a_view_without_the_deciders", 1)
				vs = append(vs, variant{"order", fmt.Sprintf("ancestry of witness #%d (which does not descend from the witnesses that decided an election before its coin round) first, then the rest, in-memory", z), d.ancestryFirst(z), ExecOpts{Store: "inmem", Cache: big, Batch: 1, ReadValues: true}, false})
			}
		}
	}
	for k := 0; k < nAnc; k++ {
		z := len(d.Events)/3 + rng.Intn(len(d.Events)*2/3)
		vs = append(vs, variant{"order", fmt.Sprintf("ancestry of event #%d first, then the rest, in-memory", z), d.ancestryFirst(z), ExecOpts{Store: "inmem", Cache: big, Batch: 1, ReadValues: true}, false})
	}
	// the events whose arrival created a sensitive moment in the creation-order run arrive last
	seenZ := map[int]bool{}
	for _, z0 := range stragglerIdx {
		for _, z := range []int{z0, z0 - 1, z0 + 1} {
			if z <= 0 || z >= len(d.Events) || seenZ[z] || len(seenZ) > 24 {
				continue
			}
			seenZ[z] = true
			vs = append(vs, variant{"order", fmt.Sprintf("event #%d (whose arrival left a round with an open witness) and its descendants arrive last, in-memory", z), d.descendantsLast(z), ExecOpts{Store: "inmem", Cache: big, Batch: 1, ReadValues: true}, false})
		}
	}
	for k := 0; k < 2*nAnc; k++ {
		z := len(d.Events)/6 + rng.Intn(len(d.Events)*4/6)
		vs = append(vs, variant{"order", fmt.Sprintf("event #%d and its descendants arrive last, in-memory", z), d.descendantsLast(z), ExecOpts{Store: "inmem", Cache: big, Batch: 1, ReadValues: true}, false})
	}
	vs = append(vs, variant{"process", "same order, fresh instance (map iteration order, counters)", d.Events, ExecOpts{Store: "inmem", Cache: big, Batch: 1, ReadValues: true}, false})
	vs = append(vs, variant{"store", "Badger, large cache, generation order", d.Events, ExecOpts{Store: "badger", Cache: big, Batch: 1, Dir: dir, ReadValues: true}, false})
	vs = append(vs, variant{"store", "Badger, large cache, random order", d.randomLinearExtension(rng, nil), ExecOpts{Store: "badger", Cache: big, Batch: 1, Dir: dir, ReadValues: true}, false})
	for _, c := range []int{W, W + W/2, 2 * W} {
		if c < big {
			vs = append(vs, variant{"cache", fmt.Sprintf("Badger, cache %d (in-flight window bound W=%d), random order", c, W), d.randomLinearExtension(rng, nil), ExecOpts{Store: "badger", Cache: c, Batch: 1, Dir: dir}, false})
		}
	}
	if cs.I("backlog", 0) == 1 {
		// small caches together with late arrivals: the cache is sized from the
		// in-flight bound of that very arrival order (measured in memory first)
		for l := 0; l < sp.N; l++ {
			order := d.delayedExtension(rng, l)
			pre := execDag(d, order, ExecOpts{Store: "inmem", Cache: big, Batch: 1})
			res.Evaluations++
			if pre.Err != nil {
				pre.close()
				continue
			}
			wl := 2*pre.MaxUndet + 4*sp.N
			pre.close()
			if wl < len(d.Events) {
				res.count("dag_variants_cache_with_late_creator", 1)
				vs = append(vs, variant{"cache", fmt.Sprintf("Badger, cache %d (twice the in-flight bound of this order), creator %d's events arrive as late as possible", wl, l), order, ExecOpts{Store: "badger", Cache: wl, Batch: 1, Dir: dir}, false})
			}
		}
	}
	for _, b := range []int{2, 5, 17, 0} {
		dim := "batch-intermediate"
		desc := fmt.Sprintf("consensus passes every %d insertions", b)
		if b == 0 {
			dim = "batch-all"
			desc = "one consensus pass after all insertions"
		}
		if b > 0 && b >= len(d.Events) {
			continue
		}
		vs = append(vs, variant{dim, desc, d.Events, ExecOpts{Store: "inmem", Cache: big, Batch: b, ReadValues: true}, false})
	}
	nIdeals := 2
	if cs.Tier == "thorough" {
		nIdeals = 4
	}
	// prefixes of the creation order (downward closed by construction): the full DAG minus its last few events
	for _, k := range []int{1, 2, 3, 5, 8, 13} {
		if k >= len(d.Events)/2 {
			continue
		}
		sub := map[string]bool{}
		for _, e := range d.Events[:len(d.Events)-k] {
			sub[e.Hash] = true
		}
		vs = append(vs, variant{"ideal", fmt.Sprintf("creation-order prefix without the last %d events", k), d.Events[:len(d.Events)-k], ExecOpts{Store: "inmem", Cache: big, Batch: 1, ReadValues: true}, true})
	}
	for k := 0; k < nIdeals; k++ {
		sub := d.randomIdeal(rng)
		vs = append(vs, variant{"ideal", fmt.Sprintf("downward-closed sub-DAG of %d events, random order", len(sub)), d.randomLinearExtension(rng, sub), ExecOpts{Store: "inmem", Cache: big, Batch: 1, ReadValues: true}, true})
	}
	for _, v := range vs {
		if ordersOnly && v.dim != "order" {
			continue
		}
		x := execDag(d, v.order, v.o)
		res.Evaluations++
		res.count("dag_variant_executions", 1)
		res.count("dag_variants_"+v.dim, 1)
		if x.Err != nil {
			x.close()
			if isStoreMiss(x.Err) && (v.dim == "cache" || v.dim == "batch-all" || v.dim == "batch-intermediate") {
				res.count("dag_variants_outside_supported_range_"+v.dim, 1)
				continue
			}
			if ordersOnly {
				res.inconclusive(fmt.Sprintf("variant [%s] failed: %v", v.desc, x.Err))
				continue
			}
			res.violate("C03", "C03:variant-fails:"+v.dim,
				fmt.Sprintf("the same events cannot be processed under variant [%s]: %v (the reference execution succeeded)", v.desc, x.Err),
				map[string]interface{}{"variant": v.desc, "n": sp.N, "events": len(d.Events), "error_at": x.ErrAt})
			return res
		}
		diff := compareExec(ref, x, v.prefix)
		x.close()
		if diff != "" {
			sig, msg := "C03:differs:"+v.dim, fmt.Sprintf("same event set, different consensus output under variant [%s]: %s", v.desc, diff)
			if ordersOnly {
				sig, msg = label+":block-disagreement", fmt.Sprintf("two nodes that received the same events in different orders (creation order / %s) computed different consensus results: %s", v.desc, diff)
			}
			res.violate(label, sig, msg,
				map[string]interface{}{"variant": v.desc, "n": sp.N, "events": len(d.Events), "reference_blocks": len(ref.Blocks), "dag": exportDag(d, 80)})
			if v.dim != "batch-intermediate" && v.dim != "batch-all" {
				return res
			}
			// keep exploring the other dimensions: the intermediate-batching
			// difference is a known finding and must not mask others
			continue
		}
	}
	if len(ref.Blocks) >= 3 {
		res.digest("dag", cs.Seed, cs.Index, len(d.Events), d.Events[len(d.Events)-1].Hash)
	}
	res.Sample = map[string]interface{}{"kind": "synthetic DAG", "n": sp.N, "events": len(d.Events), "reference_blocks": len(ref.Blocks), "variants": len(vs), "in_flight_bound_W": W}
	return res
}

func exportDag(d *Dag, k int) interface{} {
	out := []map[string]interface{}{}
	for i, e := range d.Events {
		if i >= k {
			break
		}
		out = append(out, map[string]interface{}{"hash": e.Hash[:14], "creator": e.Creator, "index": e.Body.Index, "self_parent": trunc(e.Parents[0], 14), "other_parent": trunc(e.Parents[1], 14), "txs": len(e.Body.Transactions), "ts": e.Body.Timestamp})
	}
	return out
}

func init() {
	register(&PropDef{
		ID: "C03", Level: "exploration", Engine: "dagcheck",
		Rule:          "one case = one seeded synthetic fork-free DAG (n=1..7 creators, 30-400 events, private chains, first events without other-parent, repeated other-parents; every fourth DAG is a split-view DAG found by a workload search for fame elections that last into a coin round, every eighth comes from a small corpus of fixed shapes (long fame election over a coin round with a late decider; seven unevenly active validators with a straggling witness) with relabelled creators and fresh keys, every eighth is a 7-10 creator DAG with uneven activity found by a workload search for moments at which a round has more than a supermajority of famous witnesses and one still open) executed by a reference real Hashgraph (generation order, in-memory, consensus after every event) and by ~14 variant executions (random linear extensions, one creator's events as late as possible, the ancestry of a random event first, a random event and its descendants last, creation-order prefixes without the last 1..13 events, fresh process state, Badger, cache sizes from the measured in-flight bound W, consensus batchings 2/5/17/all, random downward-closed sub-DAGs) that must give identical per-event round/witness/Lamport/fame/round-received and identical blocks (prefix for sub-DAGs); non-trivial: the reference produced >=3 blocks; distinct DAGs by (seed,index,last event hash)",
		Assumptions:   []string{"static validator set", "a variant that ends in a store-miss error with a cache below the default or with delayed consensus passes is outside the supported range and dropped (counted), only differing outputs are violations", "in-memory variants are never run with a cache below the event count"},
		MinNontrivial: 8,
		Cases: func(tier string, seed int64) []CaseSpec {
			cs := dagCases(tier, seed, 40, 600)
			for i := range cs {
				if i%8 == 5 {
					cs[i].S = map[string]string{"shape": []string{"long-election", "straggler-round", "bare-supermajority"}[(i/8)%3]}
					cs[i].P["coin"] = 1
					cs[i].P["n"] = 4
					continue
				}
				if i%8 == 6 {
					cs[i].P["backlog"] = 1
					cs[i].P["n"] = []int64{4, 5, 4, 7}[(i/8)%4]
					cs[i].P["events"] = int64(560 + (i*29)%240)
					continue
				}
				if i%8 == 1 {
					cs[i].P["straggler"] = 1
					cs[i].P["n"] = []int64{7, 8, 10, 7}[(i/8)%4]
					cs[i].P["events"] = int64(180 + (i*17)%150)
					continue
				}
				if i%8 == 2 || i%8 == 4 {
					// creator clocks decades ahead of the clock of the machine that runs
					// consensus (all of them / half of them)
					cs[i].P["fastclocks"] = int64(1 + (i%8)/4)
				}
				if i%4 == 3 {
					// split-view DAGs searched for long fame elections (coin rounds)
					cs[i].P["coin"] = 1
					cs[i].P["n"] = []int64{4, 4, 5, 7}[(i/4)%4]
					cs[i].P["events"] = int64(120 + (i*11)%120)
				}
			}
			return cs
		},
		Run:            runC03,
		PerCaseTimeout: 15 * time.Minute,
	})
}
