package main

import (
	"fmt"
	"os"
	"time"
)

func dagWorkDir(cs CaseSpec) string {
	tmp := os.Getenv("VERIF_WORKDIR")
	if tmp == "" {
		tmp = verifDir() + "/.work"
	}
	os.MkdirAll(tmp, 0o755)
	dir, err := os.MkdirTemp(tmp, fmt.Sprintf("dag-%d-", cs.Index))
	if err != nil {
		panic(err)
	}
	return dir
}

func dagSpecFromCase(cs CaseSpec) DagSpec {
	r := cs.rng("dagspec")
	n := int(cs.I("n", 4))
	sp := DagSpec{
		N:            n,
		Events:       int(cs.I("events", 200)),
		TxProb:       0.3 + 0.4*r.Float64(),
		Private:      0.05 * float64(r.Intn(4)),
		NoOtherFirst: 0.3,
		Repeat:       0.15 * float64(r.Intn(3)),
		ClockSkew:    int64(r.Intn(4)) * 100,
		Liars:        0,
	}
	if n == 1 {
		sp.Private = 0
	}
	if l := int(cs.I("liars", 0)); l > 0 {
		sp.Liars = l
	}
	return sp
}

func dagCases(tier string, seed int64, quick, thorough int) []CaseSpec {
	count := quick
	if tier == "thorough" {
		count = thorough
	}
	ns := []int64{4, 3, 5, 2, 7, 4, 1, 6, 4, 5, 3, 7}
	res := []CaseSpec{}
	for i := 0; i < count; i++ {
		cs := CaseSpec{Kind: "dag", P: map[string]int64{}, Seed: seed, Index: i}
		r := cs.rng("gen")
		n := ns[i%len(ns)]
		cs.P["n"] = n
		ev := int64(60 + r.Intn(340))
		if n >= 6 {
			ev = int64(150 + r.Intn(250))
		}
		if n == 1 {
			ev = int64(30 + r.Intn(60))
		}
		cs.P["events"] = ev
		res = append(res, cs)
	}
	return res
}

func runC03(cs CaseSpec) *CaseResult {
	res := newResult(cs)
	rng := cs.rng("c03")
	sp := dagSpecFromCase(cs)
	d := genDag(rng, cs.Seed*7919+int64(cs.Index), sp)
	dir := dagWorkDir(cs)
	defer os.RemoveAll(dir)
	big := len(d.Events)*2 + 200
	ref := execDag(d, d.Events, ExecOpts{Store: "inmem", Cache: big, Batch: 1, ReadValues: true})
	defer ref.close()
	res.Evaluations++
	if ref.Err != nil {
		res.inconclusive(fmt.Sprintf("reference execution failed: %v", ref.Err))
		return res
	}
	res.count("dag_events", int64(len(d.Events)))
	res.count("dag_reference_blocks", int64(len(ref.Blocks)))
	res.count("dags", 1)
	W := 2*(ref.MaxUndet+sp.N*12) + 60
	res.max("dag_max_undetermined_in_reference", int64(ref.MaxUndet))
	type variant struct {
		dim    string
		desc   string
		order  []*DagEvent
		o      ExecOpts
		prefix bool
	}
	var vs []variant
	nOrders := 3
	if cs.Tier == "thorough" {
		nOrders = 6
	}
	for k := 0; k < nOrders; k++ {
		vs = append(vs, variant{"order", fmt.Sprintf("random linear extension #%d, in-memory", k), d.randomLinearExtension(rng, nil), ExecOpts{Store: "inmem", Cache: big, Batch: 1, ReadValues: true}, false})
	}
	vs = append(vs, variant{"process", "same order, fresh instance (map iteration order, counters)", d.Events, ExecOpts{Store: "inmem", Cache: big, Batch: 1, ReadValues: true}, false})
	vs = append(vs, variant{"store", "Badger, large cache, generation order", d.Events, ExecOpts{Store: "badger", Cache: big, Batch: 1, Dir: dir, ReadValues: true}, false})
	vs = append(vs, variant{"store", "Badger, large cache, random order", d.randomLinearExtension(rng, nil), ExecOpts{Store: "badger", Cache: big, Batch: 1, Dir: dir, ReadValues: true}, false})
	for _, c := range []int{W, W + W/2, 2 * W} {
		if c < big {
			vs = append(vs, variant{"cache", fmt.Sprintf("Badger, cache %d (in-flight window bound W=%d), random order", c, W), d.randomLinearExtension(rng, nil), ExecOpts{Store: "badger", Cache: c, Batch: 1, Dir: dir}, false})
		}
	}
	for _, b := range []int{2, 5, 17, 0} {
		dim := "batch-intermediate"
		desc := fmt.Sprintf("consensus passes every %d insertions", b)
		if b == 0 {
			dim = "batch-all"
			desc = "one consensus pass after all insertions"
		}
		if b > 0 && b >= len(d.Events) {
			continue
		}
		vs = append(vs, variant{dim, desc, d.Events, ExecOpts{Store: "inmem", Cache: big, Batch: b, ReadValues: true}, false})
	}
	nIdeals := 2
	if cs.Tier == "thorough" {
		nIdeals = 4
	}
	for k := 0; k < nIdeals; k++ {
		sub := d.randomIdeal(rng)
		vs = append(vs, variant{"ideal", fmt.Sprintf("downward-closed sub-DAG of %d events, random order", len(sub)), d.randomLinearExtension(rng, sub), ExecOpts{Store: "inmem", Cache: big, Batch: 1, ReadValues: true}, true})
	}
	for _, v := range vs {
		x := execDag(d, v.order, v.o)
		res.Evaluations++
		res.count("dag_variant_executions", 1)
		res.count("dag_variants_"+v.dim, 1)
		if x.Err != nil {
			x.close()
			if isStoreMiss(x.Err) && (v.dim == "cache" || v.dim == "batch-all" || v.dim == "batch-intermediate") {
				res.count("dag_variants_outside_supported_range_"+v.dim, 1)
				continue
			}
			res.violate("C03", "C03:variant-fails:"+v.dim,
				fmt.Sprintf("the same events cannot be processed under variant [%s]: %v (the reference execution succeeded)", v.desc, x.Err),
				map[string]interface{}{"variant": v.desc, "n": sp.N, "events": len(d.Events), "error_at": x.ErrAt})
			return res
		}
		diff := compareExec(ref, x, v.prefix)
		x.close()
		if diff != "" {
			res.violate("C03", "C03:differs:"+v.dim,
				fmt.Sprintf("same event set, different consensus output under variant [%s]: %s", v.desc, diff),
				map[string]interface{}{"variant": v.desc, "n": sp.N, "events": len(d.Events), "reference_blocks": len(ref.Blocks), "dag": exportDag(d, 80)})
			if v.dim != "batch-intermediate" && v.dim != "batch-all" {
				return res
			}
			// keep exploring the other dimensions: the intermediate-batching
			// difference is a known finding and must not mask others
			continue
		}
	}
	if len(ref.Blocks) >= 3 {
		res.digest("dag", cs.Seed, cs.Index, len(d.Events), d.Events[len(d.Events)-1].Hash)
	}
	res.Sample = map[string]interface{}{"kind": "synthetic DAG", "n": sp.N, "events": len(d.Events), "reference_blocks": len(ref.Blocks), "variants": len(vs), "in_flight_bound_W": W}
	return res
}

func exportDag(d *Dag, k int) interface{} {
	out := []map[string]interface{}{}
	for i, e := range d.Events {
		if i >= k {
			break
		}
		out = append(out, map[string]interface{}{"hash": e.Hash[:14], "creator": e.Creator, "index": e.Body.Index, "self_parent": trunc(e.Parents[0], 14), "other_parent": trunc(e.Parents[1], 14), "txs": len(e.Body.Transactions), "ts": e.Body.Timestamp})
	}
	return out
}

func init() {
	register(&PropDef{
		ID: "C03", Level: "exploration", Engine: "dagcheck",
		Rule: "one case = one seeded synthetic fork-free DAG (n=1..7 creators, 30-400 events, private chains, first events without other-parent, repeated other-parents) executed by a reference real Hashgraph (generation order, in-memory, consensus after every event) and by ~14 variant executions (random linear extensions, fresh process state, Badger, cache sizes from the measured in-flight bound W, consensus batchings 2/5/17/all, random downward-closed sub-DAGs) that must give identical per-event round/witness/Lamport/fame/round-received and identical blocks (prefix for sub-DAGs); non-trivial: the reference produced >=3 blocks; distinct DAGs by (seed,index,last event hash)",
		Assumptions: []string{"static validator set", "a variant that ends in a store-miss error with a cache below the default or with delayed consensus passes is outside the supported range and dropped (counted), only differing outputs are violations", "in-memory variants are never run with a cache below the event count"},
		MinNontrivial: 8,
		Cases: func(tier string, seed int64) []CaseSpec { return dagCases(tier, seed, 40, 600) },
		Run:   runC03,
		PerCaseTimeout: 15 * time.Minute,
	})
}
