package main

import (
	"bytes"
	"encoding/json"
	"fmt"
	"io"
	"math/rand"
	"net"
	"sync"
	"time"

	hg "github.com/mosaicnetworks/babble/src/hashgraph"
	"github.com/mosaicnetworks/babble/src/node/state"
	"github.com/mosaicnetworks/babble/src/peers"
	"github.com/mosaicnetworks/babble/src/proxy"
	"github.com/mosaicnetworks/babble/src/proxy/inmem"
	aproxy "github.com/mosaicnetworks/babble/src/proxy/socket/app"
	bproxy "github.com/mosaicnetworks/babble/src/proxy/socket/babble"
)

// ---------------------------------------------------------------------------
// C20 proxy transparency
// ---------------------------------------------------------------------------

// echoHandler is the application side: it records what it receives and
// answers with a scripted response.
type echoHandler struct {
	mu        sync.Mutex
	blocks    []hg.Block
	next      proxy.CommitResponse
	nextErr   error
	snapshots []int
	restores  [][]byte
	snapshot  []byte
	states    []state.State
	calls     int
}

func (h *echoHandler) CommitHandler(b hg.Block) (proxy.CommitResponse, error) {
	h.mu.Lock()
	defer h.mu.Unlock()
	h.calls++
	h.blocks = append(h.blocks, b)
	return h.next, h.nextErr
}
func (h *echoHandler) SnapshotHandler(i int) ([]byte, error) {
	h.mu.Lock()
	defer h.mu.Unlock()
	h.snapshots = append(h.snapshots, i)
	return h.snapshot, nil
}
func (h *echoHandler) RestoreHandler(s []byte) ([]byte, error) {
	h.mu.Lock()
	defer h.mu.Unlock()
	h.restores = append(h.restores, s)
	return []byte("restored"), nil
}
func (h *echoHandler) StateChangeHandler(s state.State) error {
	h.mu.Lock()
	defer h.mu.Unlock()
	h.states = append(h.states, s)
	return nil
}

// forwarder is a TCP relay between the two socket-proxy sides that can cut a
// connection after a given number of bytes in either direction.
type forwarder struct {
	addrStr  string
	ln       net.Listener
	target   string
	mu       sync.Mutex
	cutAfter int // bytes of the next connection's client->server stream before cutting (-1: never)
	cutBack  int // bytes of the server->client stream before cutting (-1: never)
	cuts     int
	conns    []net.Conn
}

func newForwarder(target string) (*forwarder, error) {
	ln, err := net.Listen("tcp", "127.0.0.1:0")
	if err != nil {
		return nil, err
	}
	f := &forwarder{ln: ln, addrStr: ln.Addr().String(), target: target, cutAfter: -1, cutBack: -1}
	go f.serve()
	return f, nil
}

func (f *forwarder) addr() string { return f.addrStr }

// down makes the application unreachable (connection refused); up restores it.
func (f *forwarder) down() {
	f.ln.Close()
	f.mu.Lock()
	for _, c := range f.conns {
		c.Close()
	}
	f.conns = nil
	f.mu.Unlock()
}
func (f *forwarder) up() error {
	for i := 0; i < 200; i++ {
		ln, err := net.Listen("tcp", f.addrStr)
		if err == nil {
			f.ln = ln
			go f.serve()
			return nil
		}
		time.Sleep(5 * time.Millisecond)
	}
	return fmt.Errorf("cannot listen again on %s", f.addrStr)
}

func (f *forwarder) serve() {
	ln := f.ln
	for {
		c, err := ln.Accept()
		if err != nil {
			return
		}
		f.mu.Lock()
		ca, cb := f.cutAfter, f.cutBack
		f.cutAfter, f.cutBack = -1, -1
		f.mu.Unlock()
		go func() {
			s, err := net.Dial("tcp", f.target)
			if err != nil {
				c.Close()
				return
			}
			f.mu.Lock()
			f.conns = append(f.conns, c, s)
			f.mu.Unlock()
			pipe := func(dst, src net.Conn, limit int) {
				if limit < 0 {
					io.Copy(dst, src)
				} else {
					io.CopyN(dst, src, int64(limit))
					f.mu.Lock()
					f.cuts++
					f.mu.Unlock()
				}
				dst.Close()
				src.Close()
			}
			go pipe(s, c, ca)
			go pipe(c, s, cb)
		}()
	}
}

func genBlock(rng *rand.Rand, g *hostileGen) hg.Block {
	b := hg.Block{Body: hg.BlockBody{Index: rng.Intn(1000), RoundReceived: rng.Intn(1000), Timestamp: rng.Int63() - rng.Int63(),
		StateHash: g.bytes(), FrameHash: g.bytes(), PeersHash: g.bytes(), Transactions: g.txs()}, Signatures: map[string]string{}}
	if rng.Intn(3) == 0 {
		big := make([]byte, 1<<20)
		rng.Read(big)
		b.Body.Transactions = append(b.Body.Transactions, big)
	}
	for i := 0; i < rng.Intn(3); i++ {
		k := detKey(int64(rng.Intn(1000)), "c20", i)
		itx := hg.NewInternalTransaction(hg.TransactionType(rng.Intn(2)), *peers.NewPeer(pubHex(k), "a:1", "m\"\n世"))
		itx.Sign(k)
		b.Body.InternalTransactions = append(b.Body.InternalTransactions, itx)
	}
	for i := 0; i < rng.Intn(4); i++ {
		b.Signatures[fmt.Sprintf("0X%X", rng.Int63())] = fmt.Sprintf("%x|%x", rng.Int63(), rng.Int63())
	}
	return b
}

func sameBlockContent(a, b hg.Block) string {
	ha, _ := a.Body.Hash()
	hb, _ := b.Body.Hash()
	if !bytes.Equal(ha, hb) {
		// nil/empty distinctions change the JSON hash; tell which field
		ja, _ := json.Marshal(a.Body)
		jb, _ := json.Marshal(b.Body)
		return fmt.Sprintf("body hash differs: sent %s / received %s", trunc(string(ja), 300), trunc(string(jb), 300))
	}
	if len(a.Signatures) != len(b.Signatures) {
		return "signature map size differs"
	}
	for k, v := range a.Signatures {
		if b.Signatures[k] != v {
			return "signature map differs"
		}
	}
	if !samePayload(a.Body.Transactions, b.Body.Transactions) {
		return "transactions differ"
	}
	return ""
}

func sameResponse(a, b proxy.CommitResponse) bool {
	if !bytes.Equal(a.StateHash, b.StateHash) || len(a.InternalTransactionReceipts) != len(b.InternalTransactionReceipts) {
		return false
	}
	for i := range a.InternalTransactionReceipts {
		x, y := a.InternalTransactionReceipts[i], b.InternalTransactionReceipts[i]
		hx, _ := x.InternalTransaction.Body.Hash()
		hy, _ := y.InternalTransaction.Body.Hash()
		if x.Accepted != y.Accepted || !bytes.Equal(hx, hy) || x.InternalTransaction.Signature != y.InternalTransaction.Signature {
			return false
		}
	}
	return true
}

func runC20(cs CaseSpec) *CaseResult {
	res := newResult(cs)
	rng := cs.rng("c20")
	g := &hostileGen{rng: rng}
	h := &echoHandler{snapshot: []byte("snap")}
	mode := cs.Str("mode", "socket")
	var commit func(hg.Block) (proxy.CommitResponse, error)
	var submit func([]byte) error
	var submitCh chan []byte
	var getSnapshot func(int) ([]byte, error)
	var restore func([]byte) error
	var fw *forwarder
	var fwSubmit *forwarder
	switch mode {
	case "inmem":
		p := inmem.NewInmemProxy(h, quietLogger())
		commit = p.CommitBlock
		submit = func(tx []byte) error { p.SubmitTx(tx); return nil }
		submitCh = p.SubmitCh()
		getSnapshot = p.GetSnapshot
		restore = p.Restore
	default:
		// app side: server for State.* calls, client for Babble.SubmitTx
		l1, _ := net.Listen("tcp", "127.0.0.1:0")
		appBind := l1.Addr().String()
		l1.Close()
		l2, _ := net.Listen("tcp", "127.0.0.1:0")
		nodeBind := l2.Addr().String()
		l2.Close()
		var err error
		fwSubmit, err = newForwarder(nodeBind)
		if err != nil {
			res.inconclusive(err.Error())
			return res
		}
		bp, err := bproxy.NewSocketBabbleProxy(fwSubmit.addr(), appBind, h, 2*time.Second, quietLogger())
		if err != nil {
			res.inconclusive("app-side proxy: " + err.Error())
			return res
		}
		fw, err = newForwarder(appBind)
		if err != nil {
			res.inconclusive(err.Error())
			return res
		}
		ap, err := aproxy.NewSocketAppProxy(fw.addr(), nodeBind, 2*time.Second, quietLogger())
		if err != nil {
			res.inconclusive("babble-side proxy: " + err.Error())
			return res
		}
		commit = ap.CommitBlock
		submit = bp.SubmitTx
		submitCh = ap.SubmitCh()
		getSnapshot = ap.GetSnapshot
		restore = ap.Restore
	}
	// consumer of submitted transactions (what the node's background loop does)
	var rmu sync.Mutex
	received := [][]byte{}
	stop := make(chan struct{})
	go func() {
		for {
			select {
			case tx := <-submitCh:
				rmu.Lock()
				received = append(received, append([]byte{}, tx...))
				rmu.Unlock()
			case <-stop:
				return
			}
		}
	}()
	defer close(stop)

	type keptResp struct {
		call      int
		got, want proxy.CommitResponse
	}
	var kept []keptResp
	rounds := int(cs.I("rounds", 60))
	faults := cs.I("faults", 0) == 1 && fw != nil
	downFor := 0
	for i := 0; i < rounds; i++ {
		res.Evaluations++
		// --- a block and its response
		blk := genBlock(rng, g)
		want := proxy.CommitResponse{StateHash: g.bytes()}
		for _, itx := range blk.Body.InternalTransactions {
			if rng.Intn(2) == 0 {
				want.InternalTransactionReceipts = append(want.InternalTransactionReceipts, itx.AsAccepted())
			} else {
				want.InternalTransactionReceipts = append(want.InternalTransactionReceipts, itx.AsRefused())
			}
		}
		h.mu.Lock()
		h.next, h.nextErr = want, nil
		if rng.Intn(10) == 0 {
			h.nextErr = fmt.Errorf("application says no")
		}
		expectErr := h.nextErr != nil
		before := len(h.blocks)
		h.mu.Unlock()
		cut := false
		if faults && downFor == 0 && i%12 == 7 {
			// the application goes away for a few consecutive calls
			fw.down()
			downFor = 2 + rng.Intn(2)
			res.count("proxy_application_unreachable_periods", 1)
		}
		if downFor > 0 {
			cut = true
		}
		if faults && downFor == 0 && rng.Intn(3) == 0 {
			// drop the current connection mid-call: the next connection is cut after k bytes
			fw.mu.Lock()
			if rng.Intn(2) == 0 {
				fw.cutAfter = rng.Intn(400)
			} else {
				fw.cutBack = rng.Intn(200)
			}
			fw.mu.Unlock()
			cut = true
		}
		got, err := commit(blk)
		res.count("proxy_commit_calls", 1)
		h.mu.Lock()
		seen := append([]hg.Block{}, h.blocks[before:]...)
		h.mu.Unlock()
		if expectErr {
			if err == nil {
				res.violate("C20", "C20:handler-error-reported-as-success", "the application handler returned an error but CommitBlock reported success", map[string]interface{}{"mode": mode})
				return res
			}
			res.count("proxy_handler_errors_propagated", 1)
		} else if err == nil {
			if len(seen) == 0 {
				res.violate("C20", "C20:success-without-delivery", "CommitBlock reported success but the application handler never saw the block", map[string]interface{}{"mode": mode})
				return res
			}
			if !sameResponse(want, got) {
				res.violate("C20", "C20:commit-response-altered", fmt.Sprintf("the commit response reached Babble altered: sent state hash %x (%d receipts), received %x (%d receipts)", trunc(string(want.StateHash), 40), len(want.InternalTransactionReceipts), trunc(string(got.StateHash), 40), len(got.InternalTransactionReceipts)),
					map[string]interface{}{"mode": mode, "state_hash_len_sent": len(want.StateHash), "state_hash_len_received": len(got.StateHash)})
				return res
			}
			res.count("proxy_commit_responses_compared", 1)
			// Babble keeps what it received (it writes it into the block it signs): the
			// responses handed back by earlier calls must still be what the
			// application answered then
			kept = append(kept, keptResp{i, got, deepCopyResponse(want)})
			for _, kr := range kept {
				res.count("proxy_earlier_responses_rechecked", 1)
				if !sameResponse(kr.want, kr.got) {
					res.violate("C20", "C20:earlier-commit-response-changed-later",
						fmt.Sprintf("the response Babble received for commit call %d was altered by call %d: it no longer is what the application answered (%d receipts then, %d now)", kr.call, i, len(kr.want.InternalTransactionReceipts), len(kr.got.InternalTransactionReceipts)),
						map[string]interface{}{"mode": mode, "earlier_call": kr.call, "later_call": i})
					return res
				}
			}
		} else {
			res.count("proxy_commit_calls_failing_under_injected_faults", 1)
			if !cut && !faults {
				res.violate("C20", "C20:commit-fails-without-fault", "CommitBlock failed although nothing was injected: "+err.Error(), map[string]interface{}{"mode": mode})
				return res
			}
		}
		if downFor > 0 {
			downFor--
			if err == nil {
				res.violate("C20", "C20:success-while-application-unreachable", "CommitBlock reported success while the application could not be reached", map[string]interface{}{"mode": mode})
				return res
			}
			// the other calls must fail as well
			if _, serr := getSnapshot(i); serr == nil {
				res.violate("C20", "C20:success-while-application-unreachable", "GetSnapshot reported success while the application could not be reached", map[string]interface{}{"mode": mode})
				return res
			}
			if rerr := restore([]byte("x")); rerr == nil {
				res.violate("C20", "C20:success-while-application-unreachable", "Restore reported success while the application could not be reached", map[string]interface{}{"mode": mode})
				return res
			}
			res.count("proxy_calls_failing_while_application_unreachable", 3)
			if downFor == 0 {
				if err := fw.up(); err != nil {
					res.inconclusive(err.Error())
					return res
				}
			}
			continue
		}
		if len(seen) > 3 {
			res.violate("C20", "C20:handler-run-too-often", fmt.Sprintf("one CommitBlock call ran the application handler %d times", len(seen)), nil)
			return res
		}
		for _, s := range seen {
			if d := sameBlockContent(blk, s); d != "" {
				res.violate("C20", "C20:block-altered", "the application received a block that differs from what Babble passed: "+d, map[string]interface{}{"mode": mode})
				return res
			}
			res.count("proxy_blocks_compared", 1)
		}
		// --- transactions, in order, buffer reused after the call returns
		rmu.Lock()
		base := len(received)
		rmu.Unlock()
		k := 1 + rng.Intn(5)
		sent := [][]byte{}
		buf := make([]byte, 0, 4096)
		okAll := true
		for j := 0; j < k; j++ {
			tx := append([]byte(fmt.Sprintf("c20|%d|%d|", i, j)), g.bytes()...)
			if len(tx) > 3000 && mode != "inmem" && rng.Intn(2) == 0 {
				tx = tx[:3000]
			}
			buf = append(buf[:0], tx...)
			sent = append(sent, append([]byte{}, tx...))
			if err := submit(buf); err != nil {
				okAll = false
				res.count("proxy_submit_errors", 1)
				sent = sent[:len(sent)-1]
			}
			// the caller reuses its buffer
			for x := range buf {
				buf[x] = 0xEE
			}
		}
		deadline := time.Now().Add(5 * time.Second)
		for {
			rmu.Lock()
			n := len(received) - base
			rmu.Unlock()
			if n >= len(sent) || time.Now().After(deadline) {
				break
			}
			time.Sleep(time.Millisecond)
		}
		rmu.Lock()
		gotTx := append([][]byte{}, received[base:]...)
		rmu.Unlock()
		if len(gotTx) < len(sent) {
			res.violate("C20", "C20:submitted-transaction-lost", fmt.Sprintf("%d transactions were acknowledged by SubmitTx but only %d reached the node", len(sent), len(gotTx)), map[string]interface{}{"mode": mode})
			return res
		}
		if okAll && len(gotTx) == len(sent) {
			for j := range sent {
				if !bytes.Equal(sent[j], gotTx[j]) {
					res.violate("C20", "C20:submitted-transaction-altered-or-reordered",
						fmt.Sprintf("transaction %d of a client's sequence reached the node as %q instead of %q", j, trunc(string(gotTx[j]), 60), trunc(string(sent[j]), 60)), map[string]interface{}{"mode": mode})
					return res
				}
			}
			res.count("proxy_transactions_compared", int64(len(sent)))
		}
		// --- snapshot / restore bytes
		if i%5 == 0 {
			snap := g.bytes()
			h.mu.Lock()
			h.snapshot = snap
			h.mu.Unlock()
			got, err := getSnapshot(i)
			if err == nil && !bytes.Equal(got, snap) {
				res.violate("C20", "C20:snapshot-altered", "snapshot bytes differ on the Babble side", map[string]interface{}{"mode": mode})
				return res
			}
			rs := g.bytes()
			h.mu.Lock()
			nb := len(h.restores)
			h.mu.Unlock()
			if err := restore(rs); err == nil {
				h.mu.Lock()
				okR := len(h.restores) > nb && bytes.Equal(h.restores[len(h.restores)-1], rs)
				h.mu.Unlock()
				if !okR {
					res.violate("C20", "C20:restore-altered", "the snapshot handed to Restore reached the application altered (or not at all)", map[string]interface{}{"mode": mode})
					return res
				}
			}
		}
	}
	if fw != nil {
		fw.mu.Lock()
		res.count("proxy_connections_cut", int64(fw.cuts))
		fw.mu.Unlock()
		fw.ln.Close()
		fwSubmit.ln.Close()
	}
	res.digest("c20", cs.Seed, cs.Index, mode, rounds)
	res.Sample = map[string]interface{}{"kind": "proxy round-trips", "mode": mode, "rounds": rounds, "fault_injection": faults}
	return res
}

func init() {
	register(&PropDef{
		ID: "C20", Level: "exploration", Engine: "live",
		Rule:          "one case = ~60 rounds through a real proxy pair (in-process InmemProxy, or the two socket proxies over loopback with a harness TCP forwarder in between): a generated block (nil/empty/binary/1 MB transactions, internal transactions, signature map, arbitrary hashes and indexes) is committed and the application-side handler's view is compared with what Babble passed (body hash, payload bytes, signature map); a scripted commit response (nil/empty/large state hash, receipts) is compared on the way back; handler errors must surface as errors; sequences of tagged transactions are submitted with the caller overwriting its buffer after each call and must arrive byte-identical and in order; snapshot and restore bytes are compared; in fault cases the forwarder cuts the connection after a random number of bytes in either direction: the call must then fail or be faithful (handler run at most 3 times) and an acknowledged submission must have been delivered; distinct by (seed,index,mode)",
		Assumptions:   []string{"a transaction may be delivered more than once when a connection is cut after delivery and the client retries (not judged)", "waiting for submitted transactions uses a wall-clock watchdog of 5 s; expiry with fewer transactions than acknowledged is a violation only because every acknowledged call has returned"},
		MinNontrivial: 6,
		Cases: func(tier string, seed int64) []CaseSpec {
			count := 16
			if tier == "thorough" {
				count = 200
			}
			cs := []CaseSpec{}
			for i := 0; i < count; i++ {
				c := CaseSpec{Kind: "proxy", P: map[string]int64{"rounds": 60}, S: map[string]string{"mode": []string{"socket", "inmem", "socket", "socket"}[i%4]}}
				if i%4 == 2 || i%4 == 3 {
					c.P["faults"] = 1
				}
				cs = append(cs, c)
			}
			conc := 8
			if tier == "thorough" {
				conc = 80
			}
			for i := 0; i < conc; i++ {
				cs = append(cs, CaseSpec{Kind: "concurrent", P: map[string]int64{"rounds": int64(60 + 20*(i%3))}, S: map[string]string{"mode": []string{"socket", "socket", "inmem", "socket"}[i%4]}})
			}
			busy := 3
			if tier == "thorough" {
				busy = 20
			}
			for i := 0; i < busy; i++ {
				cs = append(cs, CaseSpec{Kind: "busy", P: map[string]int64{"clients": int64(1 + i%3), "timeout_ms": int64(300 + 100*(i%3)), "busy_timeouts": int64(3 + i%2)}})
			}
			cs = append(cs, CaseSpec{Kind: "concurrent", P: map[string]int64{"rounds": 40}, S: map[string]string{"mode": "socket", "race": "1"}})
			for i := 0; i < 2*raceSoaks(tier); i++ {
				c := CaseSpec{Kind: "proxy", P: map[string]int64{"rounds": 40}, S: map[string]string{"mode": []string{"socket", "inmem"}[i%2], "race": "1"}}
				if i >= 2 {
					c.P["faults"] = 1
					c.S["mode"] = "socket"
				}
				cs = append(cs, c)
			}
			return cs
		},
		Workers: 8,
		Run: func(cs CaseSpec) *CaseResult {
			if cs.Kind == "concurrent" {
				return runC20Concurrent(cs)
			}
			if cs.Kind == "busy" {
				return runC20Busy(cs)
			}
			return runC20(cs)
		},
		PerCaseTimeout: 10 * time.Minute,
	})
}

func deepCopyResponse(r proxy.CommitResponse) proxy.CommitResponse {
	var out proxy.CommitResponse
	wireCopy(&r, &out)
	if r.StateHash != nil && out.StateHash == nil {
		out.StateHash = []byte{}
	}
	return out
}
