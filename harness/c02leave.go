package main

import (
	"fmt"
	"sync"
	"time"

	"github.com/mosaicnetworks/babble/src/config"
	hg "github.com/mosaicnetworks/babble/src/hashgraph"
)

// ---------------------------------------------------------------------------
// C02, live: a validator is told to leave (Node.Leave, what the operator's
// signal handler calls) from another goroutine at the very moment its
// application is busy with a block, in a network that is otherwise quiet. The
// leave path is the one caller of the core that does not hold the node's
// core lock for its whole duration. Verdicts only use what the applications saw
// (sequence of deliveries) and what the nodes report afterwards.
// ---------------------------------------------------------------------------

func runC02Leave(cs CaseSpec) *CaseResult {
	res := newResult(cs)
	n := int(cs.I("n", 5))
	ln, err := newLiveNetJ(cs.Seed*173+int64(cs.Index), n, func(c *config.Config) {
		c.JoinTimeout = 5 * time.Second
		c.SlowHeartbeatTimeout = 100 * time.Millisecond
	}, nil)
	if err != nil {
		res.inconclusive("cannot create live network: " + err.Error())
		return res
	}
	defer ln.shutdown()
	ln.run()
	txc := 0
	feed := func(i int) {
		if i%2 == 0 {
			txc++
			ln.Nodes[txc%n].Proxy.SubmitTx([]byte(fmt.Sprintf("c02leave-warm-%d-%d", cs.Index, txc)))
		}
	}
	if !ln.waitBlocks(3, 60*time.Second, feed) {
		res.inconclusive("watchdog: live network produced fewer than 3 blocks in 60s")
		return res
	}
	slow := time.Duration(cs.I("slow_ms", 150)) * time.Millisecond
	attempts := int(cs.I("attempts", 2))
	left := map[int]bool{}
	for a := 0; a < attempts; a++ {
		x := ln.Nodes[n-1-a] // the leaver of this attempt
		// quiet network: everybody idle under its own lock, twice in a row
		quiet := false
		deadline := time.Now().Add(40 * time.Second)
		for time.Now().Before(deadline) && !quiet {
			_, i1 := liveDiagExcept(ln, left)
			time.Sleep(60 * time.Millisecond)
			_, i2 := liveDiagExcept(ln, left)
			quiet = i1 && i2
		}
		if !quiet {
			res.inconclusive("watchdog: the live network did not become quiet")
			break
		}
		var once sync.Once
		leaveDone := make(chan error, 1)
		marker := fmt.Sprintf("c02leave-trigger-%d-%d", cs.Index, a)
		x.App.SetOnEnter(func(b *hg.Block) {
			hit := false
			for _, tx := range b.Body.Transactions {
				if string(tx) == marker {
					hit = true
				}
			}
			if !hit {
				return
			}
			once.Do(func() {
				go func() { leaveDone <- x.Node.Leave() }()
				res.count("live_leave_calls_while_the_application_is_busy_with_a_block", 1)
			})
			time.Sleep(slow) // a slow application
		})
		// one more transaction, submitted elsewhere: its block reaches the leaver
		// through a gossip routine
		ln.Nodes[a%(n-attempts)].Proxy.SubmitTx([]byte(marker))
		select {
		case <-leaveDone:
		case <-time.After(30 * time.Second):
			res.count("live_leave_calls_not_finished_within_the_watchdog", 1)
		}
		x.App.SetOnEnter(nil)
		left[n-1-a] = true
		res.Evaluations++
		// what the applications saw
		for i, l := range ln.Nodes {
			dl := l.App.DeliveredCopy()
			seenTx := map[string]int{}
			lastRR := -1
			for k, d := range dl {
				if d.Index != k {
					res.violate("C02", "C02:index-sequence", fmt.Sprintf("live node %d (leaver of this attempt: node %d): delivery #%d has index %d", i, n-1-a, k, d.Index), map[string]interface{}{"engine": "live leave"})
					return res
				}
				if d.Body.RoundReceived <= lastRR {
					res.violate("C02", "C02:round-received-not-increasing", fmt.Sprintf("live node %d (leaver of this attempt: node %d): block %d has round-received %d, the block before it %d", i, n-1-a, d.Index, d.Body.RoundReceived, lastRR), map[string]interface{}{"engine": "live leave"})
					return res
				}
				lastRR = d.Body.RoundReceived
				for _, tx := range d.Body.Transactions {
					seenTx[string(tx)]++
					if seenTx[string(tx)] > 1 {
						res.violate("C02", "C02:block-delivered-again", fmt.Sprintf("live node %d (leaver of this attempt: node %d): transaction %q delivered again in block %d", i, n-1-a, trunc(string(tx), 40), d.Index), map[string]interface{}{"engine": "live leave"})
						return res
					}
				}
				res.count("live_leave_deliveries_checked", 1)
			}
		}
	}
	if res.Counters["live_leave_calls_while_the_application_is_busy_with_a_block"] > 0 {
		res.digest("c02leave", cs.Seed, cs.Index, res.Counters["live_leave_calls_while_the_application_is_busy_with_a_block"])
	}
	res.Sample = map[string]interface{}{"kind": "Node.Leave called while the application is busy with a block", "n": n, "attempts": attempts}
	return res
}

// liveDiagExcept is liveDiag restricted to the nodes that have not left.
func liveDiagExcept(ln *liveNet, left map[int]bool) ([]string, bool) {
	sub := &liveNet{}
	for i, l := range ln.Nodes {
		if !left[i] {
			sub.Nodes = append(sub.Nodes, l)
		}
	}
	return liveDiag(sub)
}
