package main

import (
	"fmt"
	"math/rand"
	"os"
	"time"

	hg "github.com/mosaicnetworks/babble/src/hashgraph"
)

// Histories shared by the chain properties (C01 C02 C04 C05 C09 C10 C18): a
// case is one random nodesim history; the property selects the monitors.

var shapes = []string{"uniform", "lag", "silent", "partition", "split"}

func chainCases(tier string, seed int64, quickCount, thoroughCount int, membership bool) []CaseSpec {
	count := quickCount
	if tier == "thorough" {
		count = thoroughCount
	}
	ns := []int64{4, 3, 5, 4, 7, 2, 4, 1, 5, 3, 4, 6, 4, 7, 5, 3}
	if tier == "thorough" {
		ns = append(ns, 8, 9, 10, 4, 4, 5)
	}
	res := []CaseSpec{}
	for i := 0; i < count; i++ {
		cs := CaseSpec{Kind: "history", P: map[string]int64{}, S: map[string]string{}}
		cs.Seed = seed
		cs.Index = i
		r := cs.rng("gen")
		n := ns[i%len(ns)]
		cs.P["n"] = n
		cs.S["shape"] = shapes[i%len(shapes)]
		steps := int64(300 + r.Intn(700))
		if n >= 7 {
			steps = int64(250 + r.Intn(350))
		}
		if n >= 9 {
			steps = int64(200 + r.Intn(150))
		}
		cs.P["steps"] = steps
		cs.P["badger"] = 0
		if i%7 == 3 {
			cs.P["badger"] = 1
			cs.P["cache"] = int64(2000 + r.Intn(2000))
		}
		if membership && n >= 2 && i%3 != 0 {
			cs.P["joins"] = int64(1 + r.Intn(2))
			if n >= 4 {
				cs.P["leaves"] = int64(r.Intn(2))
			}
			if i%5 == 1 {
				cs.P["refused"] = 1
			}
			if i%4 == 2 {
				cs.P["simultaneous"] = 1
			}
			if i%9 == 4 && n >= 4 {
				cs.P["rejoin"] = 1
				cs.P["leaves"] = 1
			}
		}
		res = append(res, cs)
	}
	return res
}

func specFromCase(cs CaseSpec) ScheduleSpec {
	r := cs.rng("spec")
	sp := ScheduleSpec{
		Steps:           int(cs.I("steps", 500)),
		Shape:           cs.Str("shape", "uniform"),
		SubmitProb:      0.25 + 0.3*r.Float64(),
		BurstProb:       0.05,
		TruncProb:       0.15 * r.Float64() * 2,
		DropProb:        0.1 * r.Float64() * 2,
		StaleProb:       0.03,
		PullOnly:        0.1,
		TxKinds:         6,
		Joins:           int(cs.I("joins", 0)),
		Leaves:          int(cs.I("leaves", 0)),
		Refused:         int(cs.I("refused", 0)),
		Simultaneous:    cs.I("simultaneous", 0) == 1,
		Rejoin:          cs.I("rejoin", 0) == 1,
		FastSyncJoiners: cs.I("fsjoin", 0) == 1,
		ResetInWindow:   cs.I("resetinwindow", 0) == 1,
		CallbackTxProb:  float64(cs.I("cbtx", 0)) / 100.0,
		KeepSilent:      cs.I("keepsilent", 0) == 1,
	}
	sp.CloseLeaves = cs.I("closeleaves", 0) == 1
	sp.CloseGap = int(cs.I("closegap", 0))
	if cs.I("trickle", 0) == 1 {
		// almost every exchange carries only a few events: nodes learn the history in
		// small, differently ordered pieces
		sp.TruncProb = 0.9
	}
	sp.CloseOnCommit = cs.I("closeoncommit", 0) == 1
	sp.LagAtSecondChange = cs.I("lagatsecond", 0) == 1
	sp.FFResets = int(cs.I("ffresets", 0))
	sp.FFSingleServer = cs.I("ffsingle", 0) == 1
	sp.FFOldest = cs.I("ffoldest", 0) == 1
	if cs.I("dupcontent", 0) == 1 {
		sp.DupProb = 0.08
		sp.EmptyProb = 0.04
	}
	if cs.I("notrunc", 0) == 1 {
		// whole syncs: nothing truncated below the configured sync limit
		sp.TruncProb = 0
		sp.DropProb = 0.03
	}
	if cs.I("harshfaults", 0) == 1 {
		sp.DropProb = 0.15 + 0.25*r.Float64()
		sp.TruncProb = 0.2 + 0.3*r.Float64()
		sp.StaleProb = 0.08
	}
	return sp
}

func optsFromCase(cs CaseSpec) NodeOpts {
	o := defaultOpts()
	if cs.I("badger", 0) == 1 {
		o.Store = "badger"
	}
	if c := cs.I("cache", 0); c > 0 {
		o.CacheSize = int(c)
	}
	if s := cs.I("synclimit", 0); s > 0 {
		o.SyncLimit = int(s)
	}
	if s := cs.I("suspendlimit", 0); s > 0 {
		o.SuspendLimit = int(s)
	}
	return o
}

// runHistory builds a network for the case, installs the monitors and runs
// the schedule followed by a fair suffix.
func runHistory(cs CaseSpec, mk func(nw *Network) []Monitor, after func(nw *Network, res *CaseResult, cycles int, idle bool)) *CaseResult {
	res := newResult(cs)
	nw := NewNetwork(cs, res)
	defer nw.Close()
	opts := optsFromCase(cs)
	nw.DefaultOpts = opts
	nw.GenesisNodes(int(cs.I("n", 4)), opts, nil)
	if p, q := cs.I("storeerr", 0), cs.I("frameerr", 0); p > 0 || q > 0 {
		// storage faults: SetEvent (storeerr) or SetFrame (frameerr) fails now and
		// then on every node (nothing is written)
		for _, x := range nw.Nodes {
			if x.Node != nil && !x.Puppet {
				x.Core.Hg().Store = &faultyStore{Store: x.Core.Hg().Store, rng: cs.rng(fmt.Sprint("fs", x.Idx)), perMille: int(p), framePerMille: int(q), self: x.PubHex, res: res}
			}
		}
	}
	if sf := cs.I("selffault", 0); sf > 0 {
		// one node, once: a frame write fails during the consensus pass that
		// follows the insertion of its own new event, after step sf
		var cands []*SimNode
		for _, x := range nw.Nodes {
			if x.Node != nil && !x.Puppet {
				cands = append(cands, x)
			}
		}
		x := cands[cs.rng("selffault").Intn(len(cands))]
		x.Core.Hg().Store = &faultyStore{Store: x.Core.Hg().Store, rng: cs.rng("sf"), self: x.PubHex, res: res,
			selfFaultAfter: func() bool { return int64(nw.Step) >= sf },
			selfFaulted:    func() { x.SelfInsertFaulted = true }}
	}
	nw.Mons = mk(nw)
	nw.SubmitViaProxy = cs.I("viaproxy", 0) == 1
	if p := cs.I("loseack", 0); p > 0 {
		// now and then a node's application processes a block but its
		// acknowledgement is lost (the commit call returns an error)
		lr := cs.rng("loseack")
		nw.AfterStepHook = func(nw *Network) {
			if lr.Intn(1000) < int(p) {
				up := nw.upReal()
				if len(up) > 0 {
					x := up[lr.Intn(len(up))]
					if x.App != nil && x.App.LoseAck == 0 {
						x.App.LoseAck = 1
						nw.Res.count("commit_acknowledgements_to_be_lost", 1)
					}
				}
			}
		}
	}
	sp := specFromCase(cs)
	nw.RunSchedule(sp)
	cycles, idle := 0, false
	if !nw.stopped {
		cycles, idle = nw.FairCycles(int(cs.I("fair", 60)))
	}
	if !nw.stopped && idle && cs.I("quietitx", 0) == 1 {
		// a membership request arrives while everything is idle: it alone must get
		// the network moving again
		b := nw.babblers()
		var cand *SimNode
		for _, x := range b {
			if x.Core.Validators().ByID[x.ID] != nil && x.Core.Validators().Len() > 3 && fullHistory(x) {
				cand = x
				break
			}
		}
		if cand != nil {
			if nw.leaving == nil {
				nw.leaving = map[int]*ItxRecord{}
			}
			nw.leaving[cand.Idx] = nw.RequestLeave(cand)
			nw.Res.count("quiet_membership_requests", 1)
			c2, i2 := nw.FairCycles(int(cs.I("fair", 60)))
			nw.retireLeavers()
			if c2 > cycles {
				cycles = c2
			}
			idle = i2
		}
	}
	nw.idleAfterFair = idle
	if !nw.stopped {
		nw.finish()
	}
	res.max("fair_cycles_to_idle", int64(cycles))
	if !idle {
		res.count("histories_not_idle_after_fair_suffix", 1)
	}
	if after != nil && !nw.stopped {
		after(nw, res, cycles, idle)
	}
	res.Evaluations = int64(nw.Step)
	res.count("steps", int64(nw.Step))
	res.count("events_recorded", int64(len(nw.Rec.Order)))
	blocks := 0
	for _, n := range nw.Nodes {
		if n.App != nil && len(n.App.Delivered) > blocks {
			blocks = len(n.App.Delivered)
		}
	}
	res.count("blocks_on_longest_chain", int64(blocks))
	res.count("histories", 1)
	if blocks >= 3 && len(nw.Rec.Order) >= 20 && res.Counters["liveness_premise_not_met_live_validators_not_a_supermajority"] == 0 {
		res.digest("history", cs.Seed, cs.Index, len(nw.Rec.Order), blocks, nw.Rec.Order[len(nw.Rec.Order)-1].Hash)
	}
	res.Sample = map[string]interface{}{
		"kind": "nodesim history", "n": cs.I("n", 4), "shape": sp.Shape, "steps": nw.Step, "events": len(nw.Rec.Order), "blocks": blocks,
		"joins": sp.Joins, "leaves": sp.Leaves, "refused": sp.Refused, "store": opts.Store, "fair_cycles_to_idle": cycles,
		"nodes": nw.describe()["nodes"],
	}
	return res
}

func raceSoaks(tier string) int {
	if tier == "thorough" {
		return 4
	}
	return 1
}

func init() {
	register(&PropDef{
		ID: "C01", Level: "exploration", Engine: "nodesim",
		Rule:          "two kinds of cases: (a) one seeded nodesim history (real Node objects, harness scheduler/network: shapes uniform/lagging/silent-minority/healing-partition/split-view, truncated+dropped+stale syncs, joins/leaves), non-trivial when >=20 events were created and >=3 blocks delivered; (b) one DAG (a fixed long-election shape with relabelled creators and fresh keys, or a split-view DAG found by a workload search for elections that last into a coin round) delivered to real Hashgraph instances in different arrival orders (random, one creator's events as late as possible, the ancestry of some event first), non-trivial when the reference produced >=3 blocks; distinct = distinct (seed,index,event count,last event hash)",
		Assumptions:   []string{"no equivocating creator is generated", "fast-forwarded nodes are judged by C13, not here", "one simulator step = one hold of the node's coreLock (single-threaded)"},
		MinNontrivial: 10,
		Cases: func(tier string, seed int64) []CaseSpec {
			cs := chainCases(tier, seed, 48, 640, true)
			for i := range cs {
				if i%6 == 5 {
					// transient failures writing frames while decided rounds are turned into blocks
					cs[i].P["frameerr"] = int64(60 + 40*(i%5))
				}
				if i%6 == 2 && cs[i].P["n"] >= 4 {
					// two validators leave one right after the other: the second change is
					// committed while the first is still pending, and nodes that lag see it
					// at different moments
					cs[i].P["leaves"] = 2
					cs[i].P["closeleaves"] = 1
					cs[i].P["closegap"] = int64(20 + 15*(i%5)) // up to about six rounds apart
					cs[i].P["closeoncommit"] = int64((i / 6) % 2)
					cs[i].P["joins"] = 0
					cs[i].P["refused"] = 0
					if cs[i].P["n"] < 5 {
						cs[i].P["n"] = 5
					}
					delete(cs[i].P, "rejoin")
				}
			}
			// plus: one DAG delivered to two real Hashgraph instances in different arrival
			// orders (shape corpus and searched long-election DAGs), which reaches the
			// coin-round / late-witness corners that random gossip rarely produces
			extra := 8
			if tier == "thorough" {
				extra = 120
			}
			for i := 0; i < extra; i++ {
				c := CaseSpec{Kind: "orders", P: map[string]int64{"n": 4, "events": int64(100 + (i*13)%100), "coin": 1}, S: map[string]string{"as": "C01"}}
				if i%2 == 0 {
					c.S["shape"] = "long-election"
				}
				if i%4 == 3 {
					c.S["shape"] = "bare-supermajority"
				}
				cs = append(cs, c)
			}
			// dedicated histories: a second validator-set change committed around the
			// round at which the first takes effect, seen by nodes with different views
			closeN := 24
			if tier == "thorough" {
				closeN = 300
			}
			for j := 0; j < closeN; j++ {
				cs = append(cs, CaseSpec{Kind: "history",
					P: map[string]int64{"n": int64(5 + j%3), "steps": int64(260 + 20*(j%6)), "leaves": 2, "closeleaves": 1, "closeoncommit": 1, "lagatsecond": int64(j % 2), "trickle": int64((j / 2) % 2), "badger": 0},
					S: map[string]string{"shape": []string{"lag", "partition", "uniform", "split"}[j%4]}})
			}
			// a validator that hears nothing for more than half of a long history and
			// then receives its backlog (several hundred events) in whole syncs of the
			// default limit, while the others go on
			deep := 4
			if tier == "thorough" {
				deep = 40
			}
			for j := 0; j < deep; j++ {
				cs = append(cs, CaseSpec{Kind: "history",
					P: map[string]int64{"n": int64(4 + j%2), "steps": int64(1300 + 150*(j%3)), "notrunc": 1, "badger": 0, "deeplag": 1},
					S: map[string]string{"shape": "lag"}})
			}
			soaks := 2
			if tier == "thorough" {
				soaks = 12
			}
			for i := 0; i < soaks; i++ {
				c := CaseSpec{Kind: "soak", P: map[string]int64{"n": int64(3 + i%3), "txs": 240}}
				if i%2 == 1 {
					c.P["pace_us"] = 4000
				}
				if i%4 >= 1 {
					// delays injected at the node's store, transport and application calls
					c.P["jitter"] = 1
				}
				cs = append(cs, c)
			}
			// the same live soak in a worker built with the race detector: other
			// timing for the behavioural oracles, race reports for the evidence
			for i := 0; i < raceSoaks(tier); i++ {
				cs = append(cs, CaseSpec{Kind: "soak", P: map[string]int64{"n": int64(4 + i%2), "txs": 240, "pace_us": 30000}, S: map[string]string{"race": "1"}})
			}
			// the recorded history of the known finding (late validator-set change),
			// kept in every tier and at every seed: thorough seed 1 case 26
			cs = append(cs, CaseSpec{Kind: "history",
				P: map[string]int64{"badger": 0, "joins": 2, "leaves": 1, "n": 7, "refused": 1, "simultaneous": 1, "steps": 470, "pin_seed": 1, "pin_index": 26},
				S: map[string]string{"shape": "lag", "pin_tier": "thorough"}})
			return cs
		},
		Run: func(cs CaseSpec) *CaseResult {
			if cs.Kind == "soak" {
				return runLiveSoak(cs)
			}
			if cs.Kind == "orders" {
				return runC03(cs)
			}
			return runHistory(cs, func(nw *Network) []Monitor {
				fm := NewMonFame()
				fm.Strict = os.Getenv("VERIF_FAME_STRICT") == "1"
				return []Monitor{NewMonAgreement(), NewMonReach(), fm, NewMonLateSets()}
			}, nil)
		},
		PerCaseTimeout: 15 * time.Minute,
	})
	register(&PropDef{
		ID: "C02", Level: "exploration", Engine: "nodesim",
		Rule:          "one case = one seeded nodesim history; after every step the commit-callback sequence of every node is checked and delivered blocks are re-read from the store (last 12 every step, all every 40 steps); non-trivial: >=20 events and >=3 blocks; distinct as C01",
		Assumptions:   []string{"blocks evicted from an in-memory store are not judged (documented limitation)", "single-threaded simulator: reads happen between lock holds"},
		MinNontrivial: 10,
		Cases: func(tier string, seed int64) []CaseSpec {
			cs := chainCases(tier, seed+7919, 48, 640, true)
			for i := range cs {
				if i%2 == 1 {
					cs[i].P["badger"] = 1
					cs[i].P["cache"] = int64(2000 + 100*(i%13))
				}
				if i%4 == 2 && cs[i].P["n"] >= 4 {
					// validators that reset themselves from a peer's anchor (in place or after losing their data)
					cs[i].P["ffresets"] = int64(2 + i%2)
					cs[i].P["ffsingle"] = 1 // served by one random peer, possibly one that lags behind the resetting node
					delete(cs[i].P, "rejoin")
					if i%8 == 2 {
						// on a persistent store: the database still holds the blocks above an
						// anchor that lies below the node's own last block
						cs[i].P["badger"] = 1
						cs[i].P["cache"] = int64(2500 + 100*(i%7))
					}
				}
				if i%4 == 3 {
					// transient failures writing frames, i.e. in the middle of turning decided rounds into blocks
					cs[i].P["frameerr"] = int64(60 + 40*(i%5))
				}
				if i%4 == 0 && cs[i].P["joins"] == 0 && cs[i].P["leaves"] == 0 {
					// now and then an application's acknowledgement of a block is lost
					// (static validator sets: a lost answer also loses its receipts)
					cs[i].P["loseack"] = int64(15 + 10*(i%3))
				}
			}
			soaks := 2
			if tier == "thorough" {
				soaks = 12
			}
			for i := 0; i < soaks; i++ {
				c := CaseSpec{Kind: "soak", P: map[string]int64{"n": int64(3 + i%3), "txs": 240}}
				if i%2 == 1 {
					c.P["pace_us"] = 4000
				}
				if i%4 >= 1 {
					// delays injected at the node's store, transport and application calls
					c.P["jitter"] = 1
				}
				cs = append(cs, c)
			}
			// the same live soak in a worker built with the race detector: other
			// timing for the behavioural oracles, race reports for the evidence
			for i := 0; i < raceSoaks(tier); i++ {
				cs = append(cs, CaseSpec{Kind: "soak", P: map[string]int64{"n": int64(4 + i%2), "txs": 240, "pace_us": 30000}, S: map[string]string{"race": "1"}})
			}
			// several readers per node that re-read delivered blocks through the
			// node's block API as fast as they can while consensus goes on
			// a validator told to leave while its application is busy with a block
			leaves := 4
			if tier == "thorough" {
				leaves = 40
			}
			for i := 0; i < leaves; i++ {
				cs = append(cs, CaseSpec{Kind: "leave", P: map[string]int64{"n": int64(4 + i%2), "slow_ms": int64(100 + 50*(i%3)), "attempts": 2, "lv": 1}})
			}
			hammers := 4
			if tier == "thorough" {
				hammers = 12
			}
			for i := 0; i < hammers; i++ {
				cs = append(cs, CaseSpec{Kind: "soak", P: map[string]int64{"n": int64(3 + i%3), "txs": 400, "pace_us": 2000, "readers": 4, "hammer": 1}})
			}
			// (appended after the live cases so that those keep their place in the
			// workers' lists: several live soaks starting at the same moment starve each other)
			// validators that reset their running hashgraph in place from the peer
			// whose anchor is the oldest, i.e. usually to an anchor below their own
			// last block, with a lagging validator in the network
			old := 6
			if tier == "thorough" {
				old = 60
			}
			for j := 0; j < old; j++ {
				c := CaseSpec{Kind: "history", P: map[string]int64{"n": int64(4 + j%2), "steps": int64(420 + 40*(j%3)), "ffresets": 3, "ffsingle": 1, "ffoldest": 1, "badger": int64(j % 2)}, S: map[string]string{"shape": "lag"}}
				if j%2 == 1 {
					c.P["cache"] = int64(2500 + 100*(j%7))
				}
				cs = append(cs, c)
			}
			return cs
		},
		Run: func(cs CaseSpec) *CaseResult {
			if cs.Kind == "leave" {
				return runC02Leave(cs)
			}
			if cs.Kind == "soak" {
				return runLiveSoak(cs)
			}
			return runHistory(cs, func(nw *Network) []Monitor { return []Monitor{NewMonFinality(), NewMonReach()} }, nil)
		},
		PerCaseTimeout: 15 * time.Minute,
	})
}

func init() {
	register(&PropDef{
		ID: "C04", Level: "exploration", Engine: "nodesim",
		Rule:          "one case = one seeded nodesim history with unique-id transactions; every delivered block of every node is joined with the harness's own DAG record (parents, payload): ancestors' payload first, events whole/once/contiguous, block = concatenation of its frame; non-trivial: >=20 events and >=3 blocks",
		Assumptions:   []string{"the harness's DAG record is built from what stores expose after every step", "nodes reset by fast-sync are not required to deliver what was committed before their anchor"},
		MinNontrivial: 10,
		Cases: func(tier string, seed int64) []CaseSpec {
			cs := chainCases(tier, seed+104729, 48, 640, true)
			for i := range cs {
				if i%4 == 1 {
					cs[i].P["loseack"] = int64(20 + 10*(i%3))
				}
				if i%8 == 2 && cs[i].P["n"] >= 4 {
					// validators on a persistent store that reset themselves in place from a
					// peer's anchor, possibly one below their own last block: the database
					// still holds the rounds and events of their previous life
					cs[i].P["ffresets"] = int64(2 + i%2)
					cs[i].P["ffsingle"] = 1
					cs[i].P["badger"] = 1
					cs[i].P["cache"] = int64(2500 + 100*(i%7))
					delete(cs[i].P, "rejoin")
				}
			}
			// one DAG through a Hashgraph on Badger whose cache is smaller than the
			// number of events in flight (c04dag.go)
			small := 6
			if tier == "thorough" {
				small = 60
			}
			for j := 0; j < small; j++ {
				cs = append(cs, CaseSpec{Kind: "dag-smallcache",
					P: map[string]int64{"n": int64(4 + j%2), "events": int64(300 + 40*(j%3)), "cache": int64(40 + 10*(j%3))}})
			}
			return cs
		},
		Run: func(cs CaseSpec) *CaseResult {
			if cs.Kind == "dag-smallcache" {
				return runC04SmallCache(cs)
			}
			return runHistory(cs, func(nw *Network) []Monitor { return []Monitor{NewMonCausality()} }, nil)
		},
		PerCaseTimeout: 15 * time.Minute,
	})
	register(&PropDef{
		ID: "C05", Level: "exploration", Engine: "nodesim",
		Rule:          "one case = one seeded nodesim history with injected sync failures/truncations; transactions carry unique ids (plus deliberate duplicate-content, empty, binary and large ones); after every step: committed multiset <= submitted multiset and submitted(X) = pool(X) + payload(own events of X) for every running node; after the fair suffix exactly-once everywhere; non-trivial: >=20 events and >=3 blocks",
		Assumptions:   []string{"a node that is restarted loses its pending pool (the property speaks of nodes that keep running)", "pool read through the verif hook between lock holds"},
		MinNontrivial: 10,
		Cases: func(tier string, seed int64) []CaseSpec {
			cs := chainCases(tier, seed+15485863, 48, 640, true)
			for i := range cs {
				cs[i].P["dupcontent"] = int64(i % 2)
				cs[i].P["viaproxy"] = int64((i / 2) % 2)
				if i%3 == 1 {
					cs[i].P["cbtx"] = 30
				}
				cs[i].P["harshfaults"] = 1
				if i%4 == 3 {
					cs[i].P["storeerr"] = 25 // per mille of SetEvent calls fail
					cs[i].P["badger"] = 0
				}
				if i%8 == 5 {
					// transient failures writing frames while decided rounds are turned
					// into blocks (never while a node inserts its own event): the sync
					// fails, nothing may be committed twice
					cs[i].P["frameerr"] = int64(60 + 40*(i%5))
					cs[i].P["badger"] = 0
				}
			}
			// a storage fault in the consensus pass right after a node inserted its
			// own event (static membership, so that the faulted node is the only
			// one that stops creating events)
			sfN := 10
			if tier == "thorough" {
				sfN = 100
			}
			for j := 0; j < sfN; j++ {
				cs = append(cs, CaseSpec{Kind: "history",
					P: map[string]int64{"n": int64(4 + j%3), "steps": int64(300 + 40*(j%5)), "selffault": int64(60 + 25*(j%6)), "sf": 1, "badger": 0, "dupcontent": int64(j % 2), "fair": 12},
					S: map[string]string{"shape": []string{"uniform", "lag", "partition"}[j%3]}})
			}
			soaks := 2
			if tier == "thorough" {
				soaks = 12
			}
			for i := 0; i < soaks; i++ {
				c := CaseSpec{Kind: "soak", P: map[string]int64{"n": int64(3 + i%3), "txs": 240}}
				if i%2 == 1 {
					c.P["pace_us"] = 4000
				}
				if i%4 >= 1 {
					// delays injected at the node's store, transport and application calls
					c.P["jitter"] = 1
				}
				cs = append(cs, c)
			}
			// the same live soak in a worker built with the race detector: other
			// timing for the behavioural oracles, race reports for the evidence
			for i := 0; i < raceSoaks(tier); i++ {
				cs = append(cs, CaseSpec{Kind: "soak", P: map[string]int64{"n": int64(4 + i%2), "txs": 240, "pace_us": 30000}, S: map[string]string{"race": "1"}})
			}
			// crowds: bursts of 60 clients blocked in SubmitTx on one node at once
			crowds := 2
			if tier == "thorough" {
				crowds = 16
			}
			for i := 0; i < crowds; i++ {
				cs = append(cs, CaseSpec{Kind: "soak", P: map[string]int64{"n": int64(3 + i%2), "txs": 3000, "submitters": 60, "crowd": 1}})
			}
			return cs
		},
		Run: func(cs CaseSpec) *CaseResult {
			if cs.Kind == "soak" {
				return runLiveSoak(cs)
			}
			return runHistory(cs, func(nw *Network) []Monitor { return []Monitor{NewMonTxIntegrity()} }, nil)
		},
		PerCaseTimeout: 15 * time.Minute,
	})
	register(&PropDef{
		ID: "C06", Level: "exploration", Engine: "nodesim",
		Rule:          "one case = an adversarial nodesim prefix (any shape, truncated/dropped/stale syncs, a minority < n/3 silent from a random point, possibly for good) followed by fair all-pairs cycles among the live validators with the default sync limit; within 60 cycles everybody must be idle, all payload events / transactions / membership requests committed, chains equal; non-trivial: >=20 events and >=3 blocks",
		Assumptions:   []string{"liveness is decided in its bounded form only (60 fair cycles; the evidence reports the cycles actually needed)", "no equivocation", "trailing empty events may stay undetermined"},
		MinNontrivial: 10,
		Cases: func(tier string, seed int64) []CaseSpec {
			cs := chainCases(tier, seed+32452843, 64, 800, true)
			for i := range cs {
				// self-suspension (C17's subject) is switched off: a prefix without quorum
				// only piles up undetermined events which the fair suffix must resolve
				cs[i].P["suspendlimit"] = 1000000
				if i%3 == 2 && cs[i].P["n"] >= 4 && cs[i].S["shape"] != "silent" {
					cs[i].P["ffresets"] = 1
				}
				if i%3 == 1 && cs[i].P["n"] >= 4 {
					cs[i].P["quietitx"] = 1
				}
				if i%6 == 3 && cs[i].P["n"] >= 4 && cs[i].P["keepsilent"] == 0 {
					// two validators leave one right after the other: both changes are pending together
					cs[i].P["leaves"] = 2
					cs[i].P["closeleaves"] = 1
					cs[i].P["joins"] = 0
					cs[i].P["refused"] = 0
					if i%12 == 3 {
						cs[i].P["n"] = 4
					}
					delete(cs[i].P, "rejoin")
				}
				if cs[i].S["shape"] == "silent" {
					cs[i].P["keepsilent"] = int64(i % 2)
					// a dead minority and membership changes interact with the 1/3 bound: keep sets static there
					if cs[i].P["keepsilent"] == 1 {
						delete(cs[i].P, "joins")
						delete(cs[i].P, "leaves")
						delete(cs[i].P, "refused")
						delete(cs[i].P, "rejoin")
					}
				}
			}
			// the recorded history of the known finding (childless event of a departed
			// validator), kept in every tier and at every seed: thorough seed 1 case 542
			cs = append(cs, CaseSpec{Kind: "history",
				P: map[string]int64{"badger": 1, "cache": 3146, "joins": 2, "keepsilent": 0, "leaves": 1, "n": 5, "simultaneous": 1, "steps": 869, "suspendlimit": 1000000, "pin_seed": 1, "pin_index": 542},
				S: map[string]string{"shape": "silent", "pin_tier": "thorough"}})
			// real goroutines: a running network (background loop, timers, TCP) under
			// crowds of concurrent clients and under paced submitters with injected
			// delays; once every node is idle under its own lock, everything that was
			// accepted must have been committed (decided on state; an expired
			// watchdog alone is inconclusive)
			lives := 2
			if tier == "thorough" {
				lives = 16
			}
			for i := 0; i < lives; i++ {
				c := CaseSpec{Kind: "soak", P: map[string]int64{"n": int64(3 + i%3), "txs": 3000, "submitters": 60, "crowd": 1}}
				if i%2 == 1 {
					c.P = map[string]int64{"n": int64(3 + i%3), "txs": 240, "pace_us": 4000, "jitter": 1}
				}
				cs = append(cs, c)
			}
			return cs
		},
		Run: func(cs CaseSpec) *CaseResult {
			if cs.Kind == "soak" {
				return runLiveSoak(cs)
			}
			return runHistory(cs, func(nw *Network) []Monitor { return []Monitor{} }, func(nw *Network, res *CaseResult, cycles int, idle bool) {
				checkLiveness(nw, res, cycles, idle, int(cs.I("fair", 60)))
			})
		},
		PerCaseTimeout: 15 * time.Minute,
	})
	register(&PropDef{
		ID: "C10", Level: "exploration", Engine: "nodesim",
		Rule:          "one case = one seeded nodesim history with a membership script (successive/simultaneous joins, leaves, re-join after leave, joins refused by the application); after every step every node's round->validator-set function is compared with a replay of that node's own delivered blocks (accepted receipts, effective at round-received+6), block peer-set hashes and witness membership are checked; non-trivial: >=20 events and >=3 blocks; histories with at least one replayed change are counted separately",
		Assumptions:   []string{"sets compared as sets of public keys; order is judged through the block's peer-set hash against the node's own reported set"},
		MinNontrivial: 10,
		Cases: func(tier string, seed int64) []CaseSpec {
			cs := chainCases(tier, seed+49979687, 48, 640, true)
			for i := range cs {
				if cs[i].P["n"] >= 2 && cs[i].P["joins"] == 0 {
					cs[i].P["joins"] = 1
				}
			}
			return cs
		},
		Run: func(cs CaseSpec) *CaseResult {
			return runHistory(cs, func(nw *Network) []Monitor {
				mv := NewMonValidators()
				mv.Outsiders = true
				return []Monitor{mv}
			}, nil)
		},
		PerCaseTimeout: 15 * time.Minute,
	})
}

func init() {
	register(&PropDef{
		ID: "C13", Level: "exploration", Engine: "nodesim",
		Rule:          "one case = one seeded nodesim history with fast-sync: validators that lose their data and reset from an honest peer's anchor (any serving peer, chained resets), joiners with fast-sync enabled (with and without other-parent for their first event), anchors inside the six-round window of pending joins/leaves; after every step the blocks delivered by reset nodes (from anchor+1) are compared with the canonical chain of the full-history nodes, their round->validator-set function with a replay from the shipped history, and frames of the same round across nodes; non-trivial: at least one successful reset and >=3 blocks; distinct by history",
		Assumptions:   []string{"a reset node that can no longer insert what it receives simply stops delivering (not a violation)", "the resetting validator's own events are known to everybody before it loses its data (no self-fork)"},
		MinNontrivial: 8,
		Cases: func(tier string, seed int64) []CaseSpec {
			cs := chainCases(tier, seed+86028121, 48, 640, true)
			for i := range cs {
				if cs[i].P["n"] < 3 {
					cs[i].P["n"] = 4
				}
				cs[i].P["ffresets"] = int64(1 + i%3)
				cs[i].P["fsjoin"] = int64(i % 2)
				cs[i].P["ffsingle"] = int64((i / 2) % 2)
				if cs[i].P["joins"] == 0 {
					cs[i].P["joins"] = 1
				}
				cs[i].P["joins"] += int64(i % 2)
				delete(cs[i].P, "rejoin")
				cs[i].P["badger"] = 0
				if i%5 == 2 {
					// persistent stores: an in-place reset leaves the previous life's data in the database
					cs[i].P["badger"] = 1
					cs[i].P["cache"] = int64(2500 + 100*(i%7))
				}
				if i%4 == 1 {
					// two validator-set changes decided within a few rounds, resets
					// while both are pending, another change afterwards
					cs[i].P["n"] = int64(5 + i%3)
					cs[i].P["leaves"], cs[i].P["closeleaves"], cs[i].P["resetinwindow"] = 2, 1, 1
					cs[i].P["joins"], cs[i].P["refused"], cs[i].P["simultaneous"] = 0, 0, 0
					cs[i].P["ffresets"] = 3
					cs[i].S["shape"] = "uniform"
				}
			}
			// dedicated histories for resets that adopt an anchor at which two
			// validator-set changes are pending
			extra := 24
			if tier == "thorough" {
				extra = 240
			}
			for j := 0; j < extra; j++ {
				c := CaseSpec{Kind: "history", Seed: seed + 86028121, Index: len(cs), P: map[string]int64{}, S: map[string]string{"shape": "uniform"}}
				c.P["n"] = int64(6 + j%2)
				c.P["steps"] = int64(380 + 20*(j%5))
				c.P["leaves"], c.P["closeleaves"], c.P["resetinwindow"] = 2, 1, 1
				c.P["ffresets"] = 5
				c.P["ffsingle"] = int64(j % 2)
				cs = append(cs, c)
			}
			// one DAG, every block as anchor (c13anchors.go)
			anch := 16
			if tier == "thorough" {
				anch = 200
			}
			for j := 0; j < anch; j++ {
				cs = append(cs, CaseSpec{Kind: "anchors", P: map[string]int64{"n": int64(4 + j%3), "events": int64(260 + (j*23)%200)}})
			}
			// the recorded history of the known finding (a reset node gives a late event
			// a lower round), kept in every tier and at every seed: thorough seed 1 case 51
			cs = append(cs, CaseSpec{Kind: "history",
				P: map[string]int64{"badger": 0, "ffresets": 1, "ffsingle": 1, "fsjoin": 1, "joins": 2, "n": 4, "steps": 350, "pin_seed": 1, "pin_index": 51},
				S: map[string]string{"shape": "lag", "pin_tier": "thorough"}})
			return cs
		},
		Run: func(cs CaseSpec) *CaseResult {
			if cs.Kind == "anchors" {
				return runC13Anchors(cs)
			}
			res := runHistory(cs, func(nw *Network) []Monitor {
				a := NewMonAgreement()
				a.IncludeReset, a.Prop = true, "C13"
				v := NewMonValidators()
				v.IncludeReset, v.Prop = true, "C13"
				return []Monitor{a, v, NewMonFrames()}
			}, nil)
			if res.Counters["fastforward_ok"] == 0 {
				res.Digests = nil // trivial for this property
			}
			return res
		},
		PerCaseTimeout: 15 * time.Minute,
	})
}

var _ = fmt.Sprint

// faultyStore makes SetEvent fail now and then without writing anything (a
// full disk, an I/O error): insertions fail midway through a sync, also the
// insertion of the node's own new event.
type faultyStore struct {
	hg.Store
	rng      *rand.Rand
	perMille int
	// framePerMille: SetFrame fails (a transient write failure while a decided
	// round is turned into a block; nothing is written and nothing else has
	// happened yet for that round, so the round is simply retried later)
	framePerMille  int
	self           string // creator string of the node's own events
	lastOwn        bool   // the event being inserted is the node's own
	framesThisPass int    // frames written since the last event insertion
	res            *CaseResult
	// selfFault: once, a frame write fails while the node runs consensus on its
	// own freshly inserted event (the event is stored, the consensus pass is
	// cut short). The unchanged code never advances the core's head after
	// that and the node stops creating events for good, so it is exempt from
	// the per-node conservation and liveness oracles from then on; what stays
	// decisive is the network-wide part of C05 (nothing committed that was not
	// submitted, nothing committed more often than submitted).
	selfFaultAfter func() bool
	selfFaulted    func()
	selfFaultDone  bool
}

func (f *faultyStore) SetFrame(fr *hg.Frame) error {
	// Never while the node inserts its own new event: the real code does not
	// survive that (the event is stored but the core's head is not advanced, and
	// every later self-event is refused) - a half-completed insertion again,
	// outside what these properties quantify over. Later frames of one
	// consensus pass fail more often than the first: that is the rarer position.
	if f.selfFaultAfter != nil && !f.selfFaultDone && f.lastOwn && f.selfFaultAfter() {
		f.selfFaultDone = true
		f.res.count("injected_frame_write_errors_during_own_event_insertion", 1)
		if f.selfFaulted != nil {
			f.selfFaulted()
		}
		return fmt.Errorf("injected storage fault writing frame %d (during the node's own insertion)", fr.Round)
	}
	if f.framePerMille > 0 && !f.lastOwn {
		p := f.framePerMille
		if f.framesThisPass > 0 {
			p = 500
		}
		if f.rng.Intn(1000) < p {
			f.res.count("injected_frame_write_errors", 1)
			if f.framesThisPass > 0 {
				f.res.count("injected_frame_write_errors_after_a_block_of_the_same_pass", 1)
			}
			return fmt.Errorf("injected storage fault writing frame %d", fr.Round)
		}
	}
	f.framesThisPass++
	return f.Store.SetFrame(fr)
}

func (f *faultyStore) SetEvent(e *hg.Event) error {
	if _, err := f.Store.GetEvent(e.Hex()); err != nil {
		// first write = start of an insertion and of its consensus pass
		f.lastOwn = e.Creator() == f.self
		f.framesThisPass = 0
	}
	// only the first write of an event fails (the insertion fails as a whole,
	// nothing was stored): failing a later re-write of an already inserted
	// event would model a half-completed insertion, which is outside C05
	if _, err := f.Store.GetEvent(e.Hex()); err != nil && f.perMille > 0 && f.rng.Intn(1000) < f.perMille {
		f.res.count("injected_store_errors", 1)
		return fmt.Errorf("injected storage fault")
	}
	return f.Store.SetEvent(e)
}
