package main

import (
	"bytes"
	"encoding/json"
	"fmt"
	"math/rand"
	"os"
	"path/filepath"
	"sort"
	"time"

	hg "github.com/mosaicnetworks/babble/src/hashgraph"
	"github.com/mosaicnetworks/babble/src/peers"
)

// ---------------------------------------------------------------------------
// C16 store fidelity: model-based differential monitor of the BadgerStore
// ---------------------------------------------------------------------------

type storeOp struct {
	kind  string // event | round | block | frame | peerset | consensus
	ev    []byte // MarshalDB form
	hash  string
	round int
	raw   []byte // marshalled value (round / block / frame)
	ps    []*peers.Peer
}

// recStore records the write calls a real Hashgraph makes.
type recStore struct {
	hg.Store
	ops []storeOp
}

func (r *recStore) SetEvent(e *hg.Event) error {
	b, err := e.MarshalDB()
	if err == nil {
		r.ops = append(r.ops, storeOp{kind: "event", ev: b, hash: e.Hex()})
	}
	return r.Store.SetEvent(e)
}
func (r *recStore) SetRound(i int, ri *hg.RoundInfo) error {
	b, err := ri.Marshal()
	if err == nil {
		r.ops = append(r.ops, storeOp{kind: "round", round: i, raw: b})
	}
	return r.Store.SetRound(i, ri)
}
func (r *recStore) SetBlock(b *hg.Block) error {
	raw, err := b.Marshal()
	if err == nil {
		r.ops = append(r.ops, storeOp{kind: "block", round: b.Index(), raw: raw})
	}
	return r.Store.SetBlock(b)
}
func (r *recStore) SetFrame(f *hg.Frame) error {
	raw, err := f.Marshal()
	if err == nil {
		r.ops = append(r.ops, storeOp{kind: "frame", round: f.Round, raw: raw})
	}
	return r.Store.SetFrame(f)
}
func (r *recStore) SetPeerSet(round int, ps *peers.PeerSet) error {
	r.ops = append(r.ops, storeOp{kind: "peerset", round: round, ps: clonePeers(ps.Peers)})
	return r.Store.SetPeerSet(round, ps)
}

// recordHistoryOps runs a synthetic DAG through a real Hashgraph (with block
// signing emulated) on a recording store and returns the write sequence.
func recordHistoryOps(cs CaseSpec, rng *rand.Rand) ([]storeOp, *Dag) {
	sp := dagSpecFromCase(cs)
	d := genDag(rng, cs.Seed*92821+int64(cs.Index), sp)
	rs := &recStore{Store: hg.NewInmemStore(len(d.Events)*2 + 500)}
	var h *hg.Hashgraph
	cb := func(b *hg.Block) error {
		// what core.commit does: write the state hash, sign, store again
		b.Body.StateHash = []byte(fmt.Sprintf("state-%d", b.Index()))
		for i := 0; i < 1+rng.Intn(d.N); i++ {
			if sig, err := b.Sign(d.Keys[i]); err == nil {
				b.SetSignature(sig)
				h.Store.SetBlock(b)
			}
		}
		return nil
	}
	h = hg.NewHashgraph(rs, cb, quietLogger())
	h.Init(peers.NewPeerSet(clonePeers(d.Peers)))
	for _, de := range d.Events {
		if err := h.InsertEventAndRunConsensus(de.fresh(), true); err != nil {
			break
		}
	}
	return rs.ops, d
}

type storeModel struct {
	events   map[string][]byte
	topo     []string            // hashes in order of first write
	listing  map[string][]string // creator -> hashes by index
	creator  map[string]string
	index    map[string]int
	blocks   map[int][]byte
	frames   map[int][]byte
	rounds   map[int][]byte
	peersets map[int][]*peers.Peer
	reper    map[string]bool
}

func newStoreModel() *storeModel {
	return &storeModel{events: map[string][]byte{}, listing: map[string][]string{}, creator: map[string]string{}, index: map[string]int{},
		blocks: map[int][]byte{}, frames: map[int][]byte{}, rounds: map[int][]byte{}, peersets: map[int][]*peers.Peer{}, reper: map[string]bool{}}
}

func evFromDB(b []byte) *hg.Event {
	e := new(hg.Event)
	if err := e.UnmarshalDB(b); err != nil {
		panic(err)
	}
	return e
}

func sameJSONish(a, b []byte) bool { return bytes.Equal(bytes.TrimSpace(a), bytes.TrimSpace(b)) }

func runC16(cs CaseSpec) *CaseResult {
	res := newResult(cs)
	rng := cs.rng("c16")
	ops, d := recordHistoryOps(cs, rng)
	if len(ops) < 50 {
		res.inconclusive("history too short")
		return res
	}
	ops = withRewrites(rng, ops, res)
	dir := dagWorkDir(cs)
	defer os.RemoveAll(dir)
	cache := int(cs.I("cache", 10))
	path := filepath.Join(dir, "c16db")
	st, err := hg.NewBadgerStore(cache, path, false, nil)
	if err != nil {
		res.inconclusive(err.Error())
		return res
	}
	defer func() { st.Close() }()
	m := newStoreModel()
	reopenAt := map[int]bool{}
	for i := 0; i < int(cs.I("reopens", 2)); i++ {
		reopenAt[len(ops)/4+rng.Intn(len(ops)*3/4)] = true
	}
	fail := func(sig, msg string) *CaseResult {
		res.violate("C16", sig, msg, map[string]interface{}{"cache_size": cache, "ops_total": len(ops), "n": d.N})
		return res
	}
	checkReads := func(phase string, full bool) *CaseResult {
		// events (through the store API: cache first, then database)
		hashes := m.topo
		k := 12
		if full {
			k = len(hashes)
		}
		for j := 0; j < k && len(hashes) > 0; j++ {
			hsh := hashes[rng.Intn(len(hashes))]
			if full {
				hsh = hashes[j]
			}
			got, err := st.GetEvent(hsh)
			res.count("store_event_reads", 1)
			if err != nil {
				return fail("C16:stored-event-unreadable", fmt.Sprintf("%s: GetEvent(%s) fails: %v", phase, hsh[:12], err))
			}
			gb, _ := got.MarshalDB()
			if !sameJSONish(gb, m.events[hsh]) {
				return fail("C16:stored-event-differs", fmt.Sprintf("%s: GetEvent(%s) returns something else than the last value written", phase, hsh[:12]))
			}
			if full {
				db, err := st.VerifDBGetEvent(hsh)
				if err != nil {
					return fail("C16:event-not-durable", fmt.Sprintf("%s: event %s is not in the database: %v", phase, hsh[:12], err))
				}
				dbb, _ := db.MarshalDB()
				if !sameJSONish(dbb, m.events[hsh]) {
					return fail("C16:durable-event-differs", fmt.Sprintf("%s: database copy of event %s differs from the last value written", phase, hsh[:12]))
				}
			}
		}
		// blocks
		for idx, want := range m.blocks {
			if !full && rng.Intn(4) != 0 {
				continue
			}
			b, err := st.GetBlock(idx)
			res.count("store_block_reads", 1)
			if err != nil {
				return fail("C16:stored-block-unreadable", fmt.Sprintf("%s: GetBlock(%d) fails: %v", phase, idx, err))
			}
			raw, _ := b.Marshal()
			if !sameJSONish(raw, want) {
				return fail("C16:stored-block-differs", fmt.Sprintf("%s: GetBlock(%d) differs from the last value written (signatures included)", phase, idx))
			}
			if full {
				db, err := st.VerifDBGetBlock(idx)
				if err != nil {
					return fail("C16:block-not-durable", fmt.Sprintf("%s: block %d is not in the database: %v", phase, idx, err))
				}
				raw, _ := db.Marshal()
				if !sameJSONish(raw, want) {
					return fail("C16:durable-block-differs", fmt.Sprintf("%s: database copy of block %d differs", phase, idx))
				}
			}
		}
		// per-participant listings
		for c, list := range m.listing {
			if !full && rng.Intn(2) == 0 {
				continue
			}
			skip := -1
			if !full && len(list) > 0 {
				skip = rng.Intn(len(list)+1) - 1
			}
			got, err := st.ParticipantEvents(c, skip)
			res.count("store_listing_reads", 1)
			if err != nil {
				return fail("C16:listing-unreadable", fmt.Sprintf("%s: ParticipantEvents(%s, %d) fails: %v", phase, c[:10], skip, err))
			}
			want := list[skip+1:]
			if len(got) != len(want) {
				return fail("C16:listing-length", fmt.Sprintf("%s: ParticipantEvents(%s, %d) returns %d hashes, %d events with a higher index were stored", phase, c[:10], skip, len(got), len(want)))
			}
			for i := range want {
				if got[i] != want[i] {
					return fail("C16:listing-order", fmt.Sprintf("%s: ParticipantEvents(%s, %d)[%d] is not the stored event with index %d", phase, c[:10], skip, i, skip+1+i))
				}
			}
			if len(list) > 0 {
				i := rng.Intn(len(list))
				one, err := st.ParticipantEvent(c, i)
				if err != nil || one != list[i] {
					return fail("C16:listing-item", fmt.Sprintf("%s: ParticipantEvent(%s, %d) = %q (%v), stored %s", phase, c[:10], i, trunc(one, 12), err, list[i][:12]))
				}
			}
			if full {
				db, err := st.VerifDBParticipantEvents(c, -1)
				if err != nil || len(db) != len(list) {
					return fail("C16:durable-listing-length", fmt.Sprintf("%s: database listing of %s has %d entries (%v), %d events were stored", phase, c[:10], len(db), err, len(list)))
				}
				for i := range list {
					if db[i] != list[i] {
						return fail("C16:durable-listing-order", fmt.Sprintf("%s: database listing of %s differs at position %d", phase, c[:10], i))
					}
				}
			}
		}
		if full {
			// topological listing: every stored event exactly once, in order, no gaps
			all := []*hg.Event{}
			for start := 0; ; start += 100 {
				batch, err := st.VerifDBTopologicalEvents(start, 100)
				if err != nil {
					return fail("C16:topological-listing-unreadable", fmt.Sprintf("%s: %v", phase, err))
				}
				all = append(all, batch...)
				if len(batch) < 100 {
					break
				}
			}
			res.count("store_topological_scans", 1)
			if len(all) != len(m.topo) {
				return fail("C16:topological-listing-length", fmt.Sprintf("%s: the topological listing has %d events, %d were stored", phase, len(all), len(m.topo)))
			}
			for i, e := range all {
				if e.Hex() != m.topo[i] {
					return fail("C16:topological-listing-order", fmt.Sprintf("%s: topological listing position %d is %s, expected %s", phase, i, e.Hex()[:12], m.topo[i][:12]))
				}
			}
			for r, want := range m.rounds {
				ri, err := st.VerifDBGetRound(r)
				if err != nil {
					return fail("C16:round-not-durable", fmt.Sprintf("%s: round %d is not in the database: %v", phase, r, err))
				}
				raw, _ := ri.Marshal()
				if !sameJSONish(raw, want) {
					return fail("C16:durable-round-differs", fmt.Sprintf("%s: database copy of round %d differs from the last value written", phase, r))
				}
				res.count("store_round_db_reads", 1)
			}
			for r, want := range m.frames {
				f, err := st.VerifDBGetFrame(r)
				if err != nil {
					return fail("C16:frame-not-durable", fmt.Sprintf("%s: frame %d is not in the database: %v", phase, r, err))
				}
				raw, _ := f.Marshal()
				if !sameJSONish(raw, want) {
					return fail("C16:durable-frame-differs", fmt.Sprintf("%s: database copy of frame %d differs", phase, r))
				}
				res.count("store_frame_db_reads", 1)
			}
			for r, want := range m.peersets {
				ps, err := st.VerifDBGetPeerSet(r)
				if err != nil {
					return fail("C16:peerset-not-durable", fmt.Sprintf("%s: peer-set %d is not in the database: %v", phase, r, err))
				}
				if peerKeys(ps.Peers) != peerKeys(want) {
					return fail("C16:durable-peerset-differs", fmt.Sprintf("%s: database copy of peer-set %d differs", phase, r))
				}
				for _, p := range want {
					if _, err := st.VerifDBGetRoot(p.PubKeyString()); err != nil {
						return fail("C16:root-not-durable", fmt.Sprintf("%s: no root in the database for participant %s", phase, p.PubKeyString()[:10]))
					}
					if _, err := st.GetRoot(p.PubKeyString()); err != nil {
						return fail("C16:root-unreadable", fmt.Sprintf("%s: GetRoot(%s): %v", phase, p.PubKeyString()[:10], err))
					}
				}
			}
			rep, err := st.VerifDBGetRepertoire()
			if err != nil {
				return fail("C16:repertoire-unreadable", err.Error())
			}
			for pk := range m.reper {
				if _, ok := rep[pk]; !ok {
					return fail("C16:repertoire-incomplete", fmt.Sprintf("%s: participant %s missing from the stored repertoire", phase, pk[:10]))
				}
			}
		}
		return nil
	}

	// Look-ups of items that do not exist yet (the node itself asks for an
	// event by hash and by creator/index before it has it: parent checks, wire
	// decoding). They must fail, and must not stand in the way of reading the
	// item once it has been written and has left the in-memory window. Sparse,
	// so that few other misses lie between the miss and the later read.
	type negKey struct {
		c    string
		i    int
		hash string
	}
	var negLooked []negKey
	negEvery := 3*d.N + 1
	recheckNeg := func(phase string) *CaseResult {
		for _, k := range negLooked {
			if _, ok := m.events[k.hash]; !ok {
				continue
			}
			res.count("store_reads_of_items_looked_up_before_they_existed", 1)
			if got, err := st.GetEvent(k.hash); err != nil || got == nil {
				return fail("C16:stored-event-unreadable", fmt.Sprintf("%s: GetEvent(%s) fails (%v); the event had been asked for before it was written", phase, k.hash[:12], err))
			}
			one, err := st.ParticipantEvent(k.c, k.i)
			if err != nil || one != k.hash {
				return fail("C16:listing-item", fmt.Sprintf("%s: ParticipantEvent(%s, %d) = %q (%v), stored %s; the position had been asked for before the event was written", phase, k.c[:10], k.i, trunc(one, 12), err, k.hash[:12]))
			}
		}
		return nil
	}

	for i, op := range ops {
		res.Evaluations++
		switch op.kind {
		case "event":
			ev := evFromDB(op.ev)
			if _, seen := m.events[op.hash]; !seen && rng.Intn(negEvery) == 0 {
				res.count("store_lookups_of_items_that_do_not_exist_yet", 1)
				if got, err := st.GetEvent(op.hash); err == nil && got != nil {
					return fail("C16:absent-item-read-as-present", fmt.Sprintf("GetEvent(%s) succeeds before the event was ever written", op.hash[:12]))
				}
				if one, err := st.ParticipantEvent(ev.Creator(), ev.Index()); err == nil && one != "" {
					return fail("C16:absent-item-read-as-present", fmt.Sprintf("ParticipantEvent(%s, %d) = %s before an event with that index was ever written", ev.Creator()[:10], ev.Index(), trunc(one, 12)))
				}
				negLooked = append(negLooked, negKey{ev.Creator(), ev.Index(), op.hash})
				if len(negLooked) > 200 {
					negLooked = negLooked[1:]
				}
			}
			err := st.SetEvent(ev)
			if err != nil {
				res.count("store_writes_refused_by_cache_layer", 1)
				break
			}
			if _, seen := m.events[op.hash]; !seen {
				m.topo = append(m.topo, op.hash)
				c := ev.Creator()
				m.listing[c] = append(m.listing[c], op.hash)
				m.creator[op.hash] = c
				m.index[op.hash] = ev.Index()
			}
			m.events[op.hash] = op.ev
			res.count("store_event_writes", 1)
		case "round":
			ri := new(hg.RoundInfo)
			if err := ri.Unmarshal(op.raw); err != nil {
				continue
			}
			if err := st.SetRound(op.round, ri); err == nil {
				raw, _ := ri.Marshal()
				m.rounds[op.round] = raw
			}
		case "block":
			b := new(hg.Block)
			if err := b.Unmarshal(op.raw); err != nil {
				continue
			}
			if err := st.SetBlock(b); err == nil {
				raw, _ := b.Marshal()
				m.blocks[op.round] = raw
				res.count("store_block_writes", 1)
			}
		case "frame":
			f := new(hg.Frame)
			if err := f.Unmarshal(op.raw); err != nil {
				continue
			}
			if err := st.SetFrame(f); err == nil {
				raw, _ := f.Marshal()
				m.frames[op.round] = raw
			}
		case "peerset":
			if err := st.SetPeerSet(op.round, peers.NewPeerSet(clonePeers(op.ps))); err == nil {
				m.peersets[op.round] = op.ps
				for _, p := range op.ps {
					m.reper[p.PubKeyString()] = true
				}
			}
		}
		if i%17 == 16 {
			if r := checkReads(fmt.Sprintf("after %d writes", i+1), false); r != nil {
				return r
			}
		}
		if i%29 == 28 {
			if r := recheckNeg(fmt.Sprintf("after %d writes", i+1)); r != nil {
				return r
			}
		}
		if reopenAt[i] {
			if r := checkReads(fmt.Sprintf("before close at write %d", i+1), true); r != nil {
				return r
			}
			st.Close()
			st2, err := hg.NewBadgerStore(cache, path, false, nil)
			if err != nil {
				res.inconclusive("reopen: " + err.Error())
				return res
			}
			st = st2
			res.count("store_reopens", 1)
			if r := checkReads(fmt.Sprintf("after reopen at write %d", i+1), true); r != nil {
				return r
			}
			// the in-memory layer is rebuilt by bootstrap in production; here the
			// run simply ends with the durable state verified
			break
		}
	}
	if r := checkReads("end of run", true); r != nil {
		return r
	}
	if r := recheckNeg("end of run"); r != nil {
		return r
	}
	// roots written by a reset from a frame (fast-sync), then a later validator
	// set recorded on top: the roots must stay what the frame said, in the cache,
	// in the database and after a reopen
	if r := checkRootsAfterReset(cs, res, ops, d, dir, cache, rng); r != nil {
		return r
	}
	res.digest("c16", cs.Seed, cs.Index, cache, len(ops))
	keys := []int{}
	for k := range m.blocks {
		keys = append(keys, k)
	}
	sort.Ints(keys)
	res.Sample = map[string]interface{}{"kind": "store call sequence of a real history replayed against BadgerStore", "cache_size": cache, "write_ops": len(ops), "events": len(m.topo), "blocks": len(keys), "rounds": len(m.rounds), "frames": len(m.frames)}
	return res
}

func init() {
	register(&PropDef{
		ID: "C16", Level: "exploration", Engine: "storecheck",
		Rule:          "one case = the exact sequence of store writes a real Hashgraph made while processing a seeded synthetic DAG (events re-written as their coordinates grow, rounds, frames, blocks re-written as signatures arrive, peer-sets), replayed against a fresh real BadgerStore with one cache size from {1,2,3,5,8,13,21,50,200,default} with random reads of old keys interleaved (events, blocks, per-participant listings with random skip, single items) and full audits (API reads, DB-level reads of events/blocks/rounds/frames/peer-sets/roots/repertoire, topological and per-participant listings complete, ordered and gap-free) before a close, after the reopen and at the end; compared with a map model; a write that returns an error is a refused write and is not applied to the model; non-trivial: >=50 writes replayed; distinct by (history, cache size)",
		Assumptions:   []string{"cache-only reads (rounds, frames through the normal API) are not judged; their durability is judged through the DB-level hooks", "stores reset by fast-sync are excluded"},
		MinNontrivial: 8,
		Cases: func(tier string, seed int64) []CaseSpec {
			count := 40
			if tier == "thorough" {
				count = 600
			}
			caches := []int64{1, 2, 3, 5, 8, 13, 21, 50, 200, 10000}
			cs := []CaseSpec{}
			for i := 0; i < count; i++ {
				c := CaseSpec{Kind: "storereplay", P: map[string]int64{"n": int64(2 + i%5), "events": int64(80 + (i*29)%220), "cache": caches[i%len(caches)], "reopens": int64(i % 3)}}
				cs = append(cs, c)
			}
			return cs
		},
		Run:            runC16,
		PerCaseTimeout: 10 * time.Minute,
	})
}

// withRewrites inserts direct, legal re-writes into a recorded sequence: a
// block stored again with one signature value replaced (the same validator
// signing again: ECDSA is randomised) or with an equal-sized but different set
// of signers, an event stored again with grown coordinates, a round stored
// again. The model is the last successful write in every case.
func withRewrites(rng *rand.Rand, ops []storeOp, res *CaseResult) []storeOp {
	out := make([]storeOp, 0, len(ops)+len(ops)/8)
	var blocks, events []int
	for i, op := range ops {
		out = append(out, op)
		switch op.kind {
		case "block":
			blocks = append(blocks, len(out)-1)
		case "event":
			events = append(events, len(out)-1)
		}
		if i%9 != 8 {
			continue
		}
		switch rng.Intn(3) {
		case 0:
			if len(blocks) == 0 {
				continue
			}
			src := out[blocks[rng.Intn(len(blocks))]]
			// take the latest written version of that block
			for j := len(out) - 1; j >= 0; j-- {
				if out[j].kind == "block" && out[j].round == src.round {
					src = out[j]
					break
				}
			}
			b := new(hg.Block)
			if b.Unmarshal(src.raw) != nil || len(b.Signatures) == 0 {
				continue
			}
			keys := []string{}
			for k := range b.Signatures {
				keys = append(keys, k)
			}
			sort.Strings(keys)
			k := keys[rng.Intn(len(keys))]
			if rng.Intn(2) == 0 {
				b.Signatures[k] = fmt.Sprintf("%x|%x", rng.Int63(), rng.Int63()) // same signer, new value
				res.count("store_rewrites_block_resigned", 1)
			} else {
				delete(b.Signatures, k)
				b.Signatures[fmt.Sprintf("0X04%062X", rng.Int63())] = fmt.Sprintf("%x|%x", rng.Int63(), rng.Int63()) // equal-sized, other signer
				res.count("store_rewrites_block_other_signers", 1)
			}
			raw, err := b.Marshal()
			if err != nil {
				continue
			}
			out = append(out, storeOp{kind: "block", round: src.round, raw: raw})
		case 1:
			if len(events) == 0 {
				continue
			}
			// re-write one of the recent events with a grown first-descendant map
			src := out[events[len(events)-1-rng.Intn(minInt(len(events), 20))]]
			for j := len(out) - 1; j >= 0; j-- {
				if out[j].kind == "event" && out[j].hash == src.hash {
					src = out[j]
					break
				}
			}
			var m map[string]interface{}
			if json.Unmarshal(src.ev, &m) != nil {
				continue
			}
			fd, _ := m["FirstDescendants"].(map[string]interface{})
			if fd == nil {
				fd = map[string]interface{}{}
			}
			fd[fmt.Sprintf("0X04%062X", rng.Int63())] = map[string]interface{}{"Hash": "0XABCD", "Index": rng.Intn(100)}
			m["FirstDescendants"] = fd
			nb, err := json.Marshal(m)
			if err != nil {
				continue
			}
			// normalise through the real decoder/encoder
			nb2, err := evFromDB(nb).MarshalDB()
			if err != nil {
				continue
			}
			out = append(out, storeOp{kind: "event", ev: nb2, hash: src.hash})
			res.count("store_rewrites_event_coordinates", 1)
		default:
			// a round stored again unchanged
			for j := len(out) - 1; j >= 0; j-- {
				if out[j].kind == "round" {
					out = append(out, out[j])
					res.count("store_rewrites_round", 1)
					break
				}
			}
		}
	}
	return out
}

// checkRootsAfterReset: a second store is initialised with the genesis set,
// reset from one of the frames of the history (the one with the most root
// events), and then records a later validator set containing the same
// participants, as a join or leave accepted after the fast-forward does.
func checkRootsAfterReset(cs CaseSpec, res *CaseResult, ops []storeOp, d *Dag, dir string, cache int, rng *rand.Rand) *CaseResult {
	var frame *hg.Frame
	best := 0
	for _, op := range ops {
		if op.kind == "frame" && len(op.raw) > 0 {
			fr := new(hg.Frame)
			if fr.Unmarshal(op.raw) != nil {
				continue
			}
			k := 0
			for _, r := range fr.Roots {
				k += len(r.Events)
			}
			if k > best {
				best, frame = k, fr
			}
		}
	}
	if frame == nil || best == 0 {
		res.count("store_reset_checks_skipped_no_frame_with_root_events", 1)
		return nil
	}
	var f hg.Frame
	if wireCopy(frame, &f) != nil {
		return nil
	}
	fail := func(sig, msg string) *CaseResult {
		res.violate("C16", sig, msg, map[string]interface{}{"cache_size": cache, "frame_round": f.Round, "n": d.N})
		return res
	}
	path := filepath.Join(dir, "c16db-reset")
	st, err := hg.NewBadgerStore(cache, path, false, nil)
	if err != nil {
		return nil
	}
	defer func() { st.Close() }()
	genesis := peers.NewPeerSet(clonePeers(d.Peers))
	if err := st.SetPeerSet(0, genesis); err != nil {
		return nil
	}
	want := map[string]string{}
	for pk, r := range f.Roots {
		b, _ := r.Marshal()
		want[pk] = string(b)
	}
	if err := st.Reset(&f); err != nil {
		return fail("C16:reset-from-frame-fails", fmt.Sprintf("a store initialised with the genesis set cannot be reset from frame %d of the history: %v", f.Round, err))
	}
	if err := st.SetPeerSet(f.Round+6, peers.NewPeerSet(clonePeers(f.Peers))); err != nil {
		return fail("C16:peerset-refused-after-reset", err.Error())
	}
	check := func(phase string, s *hg.BadgerStore) *CaseResult {
		for pk, w := range want {
			res.count("store_root_reads_after_reset", 2)
			r, err := s.GetRoot(pk)
			if err != nil {
				return fail("C16:root-unreadable", fmt.Sprintf("%s: GetRoot(%s): %v", phase, pk[:10], err))
			}
			if b, _ := r.Marshal(); string(b) != w {
				return fail("C16:stored-root-differs", fmt.Sprintf("%s: GetRoot(%s) is not the root the reset wrote (%d bytes instead of %d)", phase, pk[:10], len(b), len(w)))
			}
			dr, err := s.VerifDBGetRoot(pk)
			if err != nil {
				return fail("C16:root-not-durable", fmt.Sprintf("%s: no root in the database for %s: %v", phase, pk[:10], err))
			}
			if b, _ := dr.Marshal(); string(b) != w {
				return fail("C16:durable-root-differs", fmt.Sprintf("%s: the database copy of the root of %s is not the root the reset wrote (%d bytes instead of %d)", phase, pk[:10], len(b), len(w)))
			}
		}
		return nil
	}
	if r := check("after reset and a later validator set", st); r != nil {
		return r
	}
	st.Close()
	st2, err := hg.NewBadgerStore(cache, path, false, nil)
	if err != nil {
		return fail("C16:reopen-fails", err.Error())
	}
	st = st2
	if r := check("after reset, a later validator set, close and reopen", st2); r != nil {
		return r
	}
	res.count("store_reset_then_peerset_checks", 1)
	return nil
}
