package main

import (
	"bytes"
	"encoding/hex"
	"encoding/json"
	"fmt"
	"github.com/mosaicnetworks/babble/src/node"
	"github.com/mosaicnetworks/babble/src/service"
	"net/http"
	"net/http/httptest"
	"sort"

	"github.com/mosaicnetworks/babble/src/crypto/keys"
	hg "github.com/mosaicnetworks/babble/src/hashgraph"
	"github.com/mosaicnetworks/babble/src/peers"
)

// ---------------------------------------------------------------------------
// helpers
// ---------------------------------------------------------------------------

// blockDigest is the harness's digest of everything C01 lists.
func blockDigest(d *Delivered) string {
	rj, ij := []byte("[]"), []byte("[]")
	if len(d.Resp.InternalTransactionReceipts) > 0 {
		rj, _ = json.Marshal(d.Resp.InternalTransactionReceipts)
	}
	if len(d.Body.InternalTransactions) > 0 {
		ij, _ = json.Marshal(d.Body.InternalTransactions)
	}
	var b bytes.Buffer
	fmt.Fprintf(&b, "i=%d rr=%d ts=%d fh=%x ph=%x sh=%x itx=%s rc=%s txs=%d:", d.Body.Index, d.Body.RoundReceived, d.Body.Timestamp,
		d.Body.FrameHash, d.Body.PeersHash, d.Resp.StateHash, ij, rj, len(d.Body.Transactions))
	for _, tx := range d.Body.Transactions {
		fmt.Fprintf(&b, "%d:%x,", len(tx), tx)
	}
	return b.String()
}

func describeDelivered(d *Delivered) map[string]interface{} {
	txs := []string{}
	for _, tx := range d.Body.Transactions {
		s := string(tx)
		if len(s) > 40 {
			s = s[:40] + "..."
		}
		txs = append(txs, fmt.Sprintf("%q", s))
	}
	return map[string]interface{}{
		"index": d.Body.Index, "round_received": d.Body.RoundReceived, "timestamp": d.Body.Timestamp,
		"frame_hash": fmt.Sprintf("%x", d.Body.FrameHash), "peers_hash": fmt.Sprintf("%x", d.Body.PeersHash),
		"state_hash": fmt.Sprintf("%x", d.Resp.StateHash), "txs": txs, "itxs": len(d.Body.InternalTransactions),
		"receipts": len(d.Resp.InternalTransactionReceipts), "delivered_at_step": d.Step,
	}
}

func storedBodyDigest(b *hg.Block) string {
	d := &Delivered{Body: b.Body}
	d.Resp.StateHash = b.Body.StateHash
	d.Resp.InternalTransactionReceipts = b.Body.InternalTransactionReceipts
	return blockDigest(d)
}

// fullHistory tells whether a node's delivered chain starts at genesis.
func fullHistory(n *SimNode) bool {
	return n.Node != nil && !n.Puppet && n.ResetEpochs == 0 && n.App != nil
}

func verifySig(pubHex string, body *hg.BlockBody, sig string) bool {
	pub, err := decodeHex(pubHex)
	if err != nil {
		return false
	}
	h, err := body.Hash()
	if err != nil {
		return false
	}
	r, s, err := keys.DecodeSignature(sig)
	if err != nil || r == nil || s == nil {
		return false
	}
	pk := keys.ToPublicKey(pub)
	if pk == nil || pk.X == nil || pk.Y == nil {
		return false
	}
	return keys.Verify(pk, h, r, s)
}

func decodeHex(s string) ([]byte, error) {
	if len(s) < 2 {
		return nil, fmt.Errorf("short hex")
	}
	return hex.DecodeString(s[2:])
}

func pubSet(ps []*peers.Peer) map[string]bool {
	m := map[string]bool{}
	for _, p := range ps {
		if p != nil {
			m[p.PubKeyString()] = true
		}
	}
	return m
}

func sameSet(a, b map[string]bool) bool {
	if len(a) != len(b) {
		return false
	}
	for k := range a {
		if !b[k] {
			return false
		}
	}
	return true
}

func setKeys(m map[string]bool) []string {
	res := []string{}
	for k := range m {
		if len(k) > 12 {
			k = k[:12]
		}
		res = append(res, k)
	}
	sort.Strings(res)
	return res
}

// ---------------------------------------------------------------------------
// C01 Agreement
// ---------------------------------------------------------------------------

type canonEntry struct {
	digest string
	from   int
	d      *Delivered
}

type MonAgreement struct {
	canon     map[int]*canonEntry
	processed map[*App]int
	// IncludeReset extends the comparison to fast-forwarded nodes (C13)
	IncludeReset bool
	Prop         string
	compared     int64
}

func NewMonAgreement() *MonAgreement {
	return &MonAgreement{canon: map[int]*canonEntry{}, processed: map[*App]int{}, Prop: "C01"}
}
func (m *MonAgreement) Name() string { return "agreement" }

func (m *MonAgreement) AfterStep(nw *Network) {
	for _, n := range nw.Nodes {
		if n.Node == nil || n.Puppet || n.App == nil {
			continue
		}
		if !m.IncludeReset && n.ResetEpochs > 0 {
			continue
		}
		app := n.App
		if n.unjudgedAfterReset() {
			// "for as long as it can insert the events it receives": a reset node
			// that had to refuse events is no longer judged
			if m.processed[app] < len(app.Delivered) {
				nw.Res.count("reset_node_deliveries_not_judged_after_failed_insert", int64(len(app.Delivered)-m.processed[app]))
				m.processed[app] = len(app.Delivered)
			}
			continue
		}
		for i := m.processed[app]; i < len(app.Delivered); i++ {
			d := app.Delivered[i]
			dg := blockDigest(d)
			if c, ok := m.canon[d.Index]; ok {
				m.compared++
				nw.Res.count("agreement_block_comparisons", 1)
				if c.digest != dg {
					sig := m.Prop + ":block-disagreement"
					if late := lateSetChangeBefore(nw.Nodes[c.from], d.Body.RoundReceived) + lateSetChangeBefore(n, d.Body.RoundReceived); late > 0 {
						// a validator-set change reached one of the two nodes only after it
						// had already assigned events to the round at which it takes effect
						sig = m.Prop + ":block-disagreement-after-late-validator-set-change"
					} else if m.Prop == "C13" && onlyFrameHashDiffers(c.d, d) {
						a := nw.Nodes[c.from]
						if fa, ea := a.Core.Hg().Store.GetFrame(d.Body.RoundReceived); ea == nil {
							if fb, eb := n.Core.Hg().Store.GetFrame(d.Body.RoundReceived); eb == nil && resetNodeAssignsLowerRounds(a, fa, n, fb) {
								// a recorded, specific way in which a reset node's frames differ (known_findings.json)
								sig = "C13:reset-node-assigns-lower-round-to-late-event"
							}
						}
					}
					nw.violate(m.Prop, sig,
						fmt.Sprintf("node %d delivered block %d differing from what node %d delivered for the same index", n.Idx, d.Index, c.from),
						map[string]interface{}{"node_a": c.from, "block_a": describeDelivered(c.d), "node_b": n.Idx, "block_b": describeDelivered(d), "node_b_resets": n.ResetEpochs,
							"node_b_insert_failed_step": n.InsertFailedStep, "node_b_joined_step": n.JoinedAtStep, "trace_first_difference": traceDiff(nw, n, c.d, d),
							"frame_diff": frameDiffNodes(nw.Nodes[c.from], n, d.Body.RoundReceived)})
					return
				}
			} else {
				m.canon[d.Index] = &canonEntry{digest: dg, from: n.Idx, d: d}
				nw.Res.count("agreement_canonical_blocks", 1)
			}
		}
		m.processed[app] = len(app.Delivered)
		// store view of recent blocks
		if n.StoreClosed {
			continue
		}
		last := n.Node.GetLastBlockIndex()
		dl := -1
		if len(app.Delivered) > 0 {
			dl = app.Delivered[len(app.Delivered)-1].Index
		}
		if dl < last {
			last = dl
		}
		for i := last; i > last-3 && i >= 0; i-- {
			c, ok := m.canon[i]
			if !ok {
				continue
			}
			b, err := n.Node.GetBlock(i)
			if err != nil {
				continue
			}
			nw.Res.count("agreement_store_comparisons", 1)
			if storedBodyDigest(b) != c.digest {
				nw.violate(m.Prop, m.Prop+":stored-block-disagreement",
					fmt.Sprintf("node %d stores a block %d that differs from the block node %d delivered", n.Idx, i, c.from),
					map[string]interface{}{"node_a": c.from, "block_a": describeDelivered(c.d), "node_b": n.Idx, "stored_b": storedBodyDigest(b)})
				return
			}
		}
	}
}
func (m *MonAgreement) Finish(nw *Network) {}

// ---------------------------------------------------------------------------
// C02 Finality
// ---------------------------------------------------------------------------

type finState struct {
	resets    int
	processed int
	lastIndex int
	lastRR    int
	epoch     int
	started   bool
	sigs      map[int]map[string]string
	bodies    map[int]string // index -> expected stored body json
}

type MonFinality struct {
	st   map[*App]*finState
	Prop string
	// the node's HTTP service API (one mux per real node object)
	api map[*node.Node]*http.ServeMux
}

func NewMonFinality() *MonFinality {
	return &MonFinality{st: map[*App]*finState{}, Prop: "C02", api: map[*node.Node]*http.ServeMux{}}
}

// apiFor returns the handlers of the node's real HTTP service. The service
// registers on http.DefaultServeMux, so every node gets a fresh default mux.
func (m *MonFinality) apiFor(n *SimNode) *http.ServeMux {
	if mux, ok := m.api[n.Node]; ok {
		return mux
	}
	http.DefaultServeMux = http.NewServeMux()
	service.NewService("127.0.0.1:0", n.Node, quietLogger())
	m.api[n.Node] = http.DefaultServeMux
	return m.api[n.Node]
}

func apiGet(mux *http.ServeMux, path string, into interface{}) (int, error) {
	rec := httptest.NewRecorder()
	mux.ServeHTTP(rec, httptest.NewRequest("GET", path, nil))
	if rec.Code != 200 {
		return rec.Code, fmt.Errorf("status %d: %s", rec.Code, trunc(rec.Body.String(), 100))
	}
	return rec.Code, json.Unmarshal(rec.Body.Bytes(), into)
}
func (m *MonFinality) Name() string { return "finality" }

func expectedStoredBody(d *Delivered) string {
	b := d.Body
	b.StateHash = d.Resp.StateHash
	b.InternalTransactionReceipts = d.Resp.InternalTransactionReceipts
	j, _ := json.Marshal(b)
	return string(j)
}

// normBody is a canonical rendering of a block body in which nil and empty
// slices are the same thing (they are the same thing to every consumer).
func normBody(b hg.BlockBody) string {
	if b.StateHash == nil {
		b.StateHash = []byte{}
	}
	if b.FrameHash == nil {
		b.FrameHash = []byte{}
	}
	if b.PeersHash == nil {
		b.PeersHash = []byte{}
	}
	if len(b.Transactions) == 0 {
		b.Transactions = [][]byte{}
	} else {
		txs := make([][]byte, len(b.Transactions))
		for i, tx := range b.Transactions {
			if tx == nil {
				tx = []byte{}
			}
			txs[i] = tx
		}
		b.Transactions = txs
	}
	if len(b.InternalTransactions) == 0 {
		b.InternalTransactions = []hg.InternalTransaction{}
	}
	if len(b.InternalTransactionReceipts) == 0 {
		b.InternalTransactionReceipts = []hg.InternalTransactionReceipt{}
	}
	j, _ := json.Marshal(b)
	return string(j)
}

func (m *MonFinality) AfterStep(nw *Network) {
	for _, n := range nw.Nodes {
		if n.Node == nil || n.Puppet || n.App == nil {
			continue
		}
		app := n.App
		s := m.st[app]
		if s == nil {
			s = &finState{lastIndex: -1, lastRR: -1, sigs: map[int]map[string]string{}, bodies: map[int]string{}}
			m.st[app] = s
		}
		if s.resets != n.ResetEpochs {
			// the node reset its store from a fast-sync anchor: what it held before is
			// deliberately gone; bookkeeping of stored bodies starts again
			s.resets = n.ResetEpochs
			s.bodies = map[int]string{}
			s.sigs = map[int]map[string]string{}
		}
		for i := s.processed; i < len(app.Delivered); i++ {
			d := app.Delivered[i]
			nw.Res.count("finality_deliveries", 1)
			if d.Epoch != s.epoch || !s.started {
				// first delivery of an epoch: 0 for a genesis start, anchor+1 after a reset
				want := 0
				if d.Epoch > 0 {
					if a, ok := n.AnchorAtReset[d.Epoch]; ok {
						want = a + 1
					} else {
						// the application was restored but the node did not reset: the chain continues
						want = s.lastIndex + 1
					}
				}
				if d.Index != want {
					nw.violate(m.Prop, m.Prop+":first-index",
						fmt.Sprintf("node %d: first block delivered in epoch %d has index %d, expected %d", n.Idx, d.Epoch, d.Index, want),
						map[string]interface{}{"node": n.Idx, "block": describeDelivered(d)})
					return
				}
				s.epoch = d.Epoch
				s.started = true
				if _, ok := n.AnchorAtReset[d.Epoch]; ok && d.Epoch > 0 {
					s.lastRR = n.AnchorRRAtReset[d.Epoch]
					nw.Res.count("finality_first_after_reset", 1)
				}
			} else {
				if d.Index != s.lastIndex+1 {
					nw.violate(m.Prop, m.Prop+":index-sequence",
						fmt.Sprintf("node %d delivered block %d after block %d (not consecutive)", n.Idx, d.Index, s.lastIndex),
						map[string]interface{}{"node": n.Idx, "block": describeDelivered(d)})
					return
				}
			}
			if d.Body.RoundReceived <= s.lastRR {
				nw.violate(m.Prop, m.Prop+":round-received-not-increasing",
					fmt.Sprintf("node %d delivered block %d with round-received %d after round-received %d", n.Idx, d.Index, d.Body.RoundReceived, s.lastRR),
					map[string]interface{}{"node": n.Idx, "block": describeDelivered(d)})
				return
			}
			s.lastIndex = d.Index
			s.lastRR = d.Body.RoundReceived
			s.bodies[d.Index] = normBody(func() hg.BlockBody {
				b := d.Body
				if d.AckLost {
					// Babble never saw the application's answer: it keeps the body as delivered
					return b
				}
				b.StateHash = d.Resp.StateHash
				b.InternalTransactionReceipts = d.Resp.InternalTransactionReceipts
				return b
			}())
		}
		s.processed = len(app.Delivered)
		if n.StoreClosed || len(app.Delivered) == 0 {
			continue
		}
		// re-read delivered indexes from the store: last 12 every step, all every 40 steps
		lo := s.lastIndex - 12
		if nw.Step%40 == 0 {
			lo = -1
		}
		for i := s.lastIndex; i > lo && i >= 0; i-- {
			want, ok := s.bodies[i]
			if !ok {
				continue
			}
			b, err := n.Node.GetBlock(i)
			if err != nil {
				if n.Opts.Store == "inmem" && i < s.lastIndex-n.Opts.CacheSize+2 {
					continue // evicted from an in-memory store (documented limitation)
				}
				nw.violate(m.Prop, m.Prop+":delivered-block-unreadable",
					fmt.Sprintf("node %d can no longer read delivered block %d: %v", n.Idx, i, err), map[string]interface{}{"node": n.Idx})
				return
			}
			nw.Res.count("finality_rereads", 1)
			got := normBody(b.Body)
			if got != want {
				nw.violate(m.Prop, m.Prop+":delivered-block-changed",
					fmt.Sprintf("node %d reports a different body for delivered block %d", n.Idx, i),
					map[string]interface{}{"node": n.Idx, "delivered_plus_response": want, "reported": got})
				return
			}
			prev := s.sigs[i]
			cur := map[string]string{}
			for k, v := range b.Signatures {
				cur[k] = v
			}
			for k, v := range prev {
				cv, ok := cur[k]
				if !ok {
					nw.violate(m.Prop, m.Prop+":signature-lost",
						fmt.Sprintf("node %d: the signature of %s on block %d disappeared", n.Idx, k[:12], i), map[string]interface{}{"node": n.Idx})
					return
				}
				if cv != v {
					// the same validator may legitimately sign the same body again (e.g. after
					// replaying history with a fresh store): the set of signers is what may
					// only grow; validity of each entry is judged by C09
					nw.Res.count("finality_signature_values_replaced_by_same_signer", 1)
				}
			}
			if len(cur) > len(prev) {
				nw.Res.count("finality_signature_growth_observed", 1)
			}
			// the same block through the HTTP service API
			if nw.Step%5 == 0 && i > s.lastIndex-4 {
				mux := m.apiFor(n)
				var hb hg.Block
				if _, err := apiGet(mux, fmt.Sprintf("/block/%d", i), &hb); err != nil {
					nw.violate(m.Prop, m.Prop+":delivered-block-unreadable",
						fmt.Sprintf("node %d: the HTTP API cannot serve delivered block %d: %v", n.Idx, i, err), map[string]interface{}{"node": n.Idx})
					return
				}
				nw.Res.count("finality_rereads_through_http_api", 1)
				if g := normBody(hb.Body); g != want || hb.Index() != i {
					nw.violate(m.Prop, m.Prop+":delivered-block-changed",
						fmt.Sprintf("node %d: the HTTP API reports a different body for delivered block %d", n.Idx, i),
						map[string]interface{}{"node": n.Idx, "delivered_plus_response": want, "reported": g, "via": "/block/"})
					return
				}
				if i == s.lastIndex && i >= 2 {
					// a range ending at the last block
					start := i - 2 - (nw.Step/5)%3
					if start < 0 {
						start = 0
					}
					var list []*hg.Block
					// sometimes asking for more than there is: the answer ends at the last block
					over := (nw.Step / 5) % 2 * 3
					lastStored := n.Node.GetLastBlockIndex()
					if _, err := apiGet(mux, fmt.Sprintf("/blocks/%d?count=%d", start, i-start+1+over), &list); err == nil && lastStored == i {
						nw.Res.count("finality_range_reads_through_http_api", 1)
						if len(list) != i-start+1 {
							nw.violate(m.Prop, m.Prop+":delivered-block-changed",
								fmt.Sprintf("node %d: the HTTP API returned %d blocks for the range %d..%d", n.Idx, len(list), start, i), map[string]interface{}{"node": n.Idx, "via": "/blocks/"})
							return
						}
						for k, lb := range list {
							if w2, ok := s.bodies[start+k]; ok && lb != nil && (normBody(lb.Body) != w2 || lb.Index() != start+k) {
								nw.violate(m.Prop, m.Prop+":delivered-block-changed",
									fmt.Sprintf("node %d: the HTTP API range %d..%d reports another body at position %d (block %d)", n.Idx, start, i, k, start+k),
									map[string]interface{}{"node": n.Idx, "via": "/blocks/"})
								return
							}
						}
					}
				}
			}
			s.sigs[i] = cur
		}
	}
}
func (m *MonFinality) Finish(nw *Network) {}

func traceDiff(nw *Network, n *SimNode, a, b *Delivered) interface{} {
	in := map[string]bool{}
	for _, tx := range b.Body.Transactions {
		in[string(tx)] = true
	}
	for _, tx := range a.Body.Transactions {
		if !in[string(tx)] {
			return traceTx(nw, n, tx)
		}
	}
	in = map[string]bool{}
	for _, tx := range a.Body.Transactions {
		in[string(tx)] = true
	}
	for _, tx := range b.Body.Transactions {
		if !in[string(tx)] {
			return traceTx(nw, nw.Nodes[0], tx)
		}
	}
	return nil
}

func frameDiffNodes(a, b *SimNode, rr int) interface{} {
	out := map[string]interface{}{}
	if a.Node == nil || b.Node == nil || a.StoreClosed || b.StoreClosed {
		return out
	}
	fa, ea := a.Core.Hg().Store.GetFrame(rr)
	fb, eb := b.Core.Hg().Store.GetFrame(rr)
	if ea == nil && eb == nil {
		d := frameDiff(fa, fb)
		out["frame_diff"] = d
		// events to which the two nodes assign different rounds: who strongly sees what
		if len(fa.Events) == len(fb.Events) {
			for i := range fa.Events {
				x, y := fa.Events[i], fb.Events[i]
				if x.Core.Hex() == y.Core.Hex() && x.Round != y.Round {
					out["round_trace"] = map[string]interface{}{"a": roundTrace(a, x.Core.Hex()), "b": roundTrace(b, x.Core.Hex())}
					break
				}
			}
		}
		if len(d) == 0 {
			// the structural comparison sees nothing: compare the encodings
			ja, _ := json.Marshal(fa)
			jb, _ := json.Marshal(fb)
			ha, _ := fa.Hash()
			hb, _ := fb.Hash()
			out["stored_frame_hashes"] = fmt.Sprintf("%x vs %x", ha, hb)
			if string(ja) != string(jb) {
				i := 0
				for i < len(ja) && i < len(jb) && ja[i] == jb[i] {
					i++
				}
				lo := i - 200
				if lo < 0 {
					lo = 0
				}
				out["first_encoding_difference_at"] = i
				out["encoding_a_around"] = string(ja[lo:minInt(len(ja), i+200)])
				out["encoding_b_around"] = string(jb[lo:minInt(len(jb), i+200)])
			}
		}
	}
	for name, n := range map[string]*SimNode{"a": a, "b": b} {
		if ri, err := n.Core.Hg().Store.GetRound(rr); err == nil {
			ws := []string{}
			for _, w := range ri.Witnesses() {
				_, f := ri.VerifFame(w)
				ev, _ := n.Core.Hg().Store.GetEvent(w)
				c, idx, ts := -1, -1, int64(0)
				if ev != nil {
					if sn := n.nw.nodeByPub(ev.Creator()); sn != nil {
						c = sn.Idx
					}
					idx, ts = ev.Index(), ev.Timestamp()
				}
				ws = append(ws, fmt.Sprintf("%s creator=%d index=%d ts=%d fame=%s topo=%d", w[:10], c, idx, ts, f, func() int {
					if ev != nil {
						return ev.VerifTopologicalIndex()
					}
					return -1
				}()))
			}
			sort.Strings(ws)
			out["witnesses_"+name] = ws
			ps, _ := n.Core.Hg().Store.GetPeerSet(rr)
			if ps != nil {
				out["peerset_"+name] = fmt.Sprintf("%d validators, supermajority %d", ps.Len(), ps.SuperMajority())
			}
		}
	}
	return out
}

// lateSetChangeBefore counts the accepted membership changes that node n
// committed when it had already created events in (or beyond) the round at
// which they take effect, with an effective round <= rr.
func lateSetChangeBefore(n *SimNode, rr int) int {
	if n == nil || n.App == nil {
		return 0
	}
	c := 0
	for _, d := range n.App.Delivered {
		if d.LastRoundAtCommit < 0 || d.Body.RoundReceived+6 > rr {
			continue
		}
		acc := false
		for _, rc := range d.Resp.InternalTransactionReceipts {
			if rc.Accepted {
				acc = true
			}
		}
		if acc && d.LastRoundAtCommit >= d.Body.RoundReceived+6 {
			c++
		}
	}
	return c
}

// roundTrace explains the round a node assigns to an event: its parents'
// rounds and which witnesses of the parent round it strongly sees there.
func roundTrace(n *SimNode, hash string) map[string]interface{} {
	h := n.Core.Hg()
	out := map[string]interface{}{"node": n.Idx, "resets": n.ResetEpochs}
	ev, err := h.Store.GetEvent(hash)
	if err != nil {
		out["error"] = err.Error()
		return out
	}
	r, _ := h.VerifRound(hash)
	out["round"] = r
	pr := -1
	for k, p := range []string{ev.SelfParent(), ev.OtherParent()} {
		name := []string{"self_parent", "other_parent"}[k]
		if p == "" {
			continue
		}
		if rr, err := h.VerifRound(p); err == nil {
			out[name+"_round"] = rr
			if rr > pr {
				pr = rr
			}
		} else {
			out[name+"_round"] = "unknown: " + err.Error()
		}
	}
	out["parent_round"] = pr
	if ri, err := h.Store.GetRound(pr); err == nil {
		ps, _ := h.Store.GetPeerSet(pr)
		ws := []string{}
		for _, w := range ri.Witnesses() {
			ss, err := h.VerifStronglySee(hash, w, ps)
			c := -1
			if we, e2 := h.Store.GetEvent(w); e2 == nil {
				if sn := n.nw.nodeByPub(we.Creator()); sn != nil {
					c = sn.Idx
				}
			}
			ws = append(ws, fmt.Sprintf("witness %s (creator %d): strongly seen=%v err=%v", trunc(w, 10), c, ss, err))
		}
		sort.Strings(ws)
		out["parent_round_witnesses"] = ws
		if ps != nil {
			out["supermajority"] = ps.SuperMajority()
		}
	} else {
		out["parent_round_info"] = "missing: " + err.Error()
	}
	return out
}

// onlyFrameHashDiffers: two deliveries of the same block index that agree on
// everything but the frame hash.
func onlyFrameHashDiffers(x, y *Delivered) bool {
	a, b := x.Body, y.Body
	a.FrameHash, b.FrameHash = nil, nil
	da := &Delivered{Index: x.Index, Body: a, Resp: x.Resp}
	db := &Delivered{Index: y.Index, Body: b, Resp: y.Resp}
	return blockDigest(da) == blockDigest(db)
}

// resetNodeAssignsLowerRounds: the two frames hold the same events, peers,
// roots and peer-sets and differ only in that the node that was reset by
// fast-sync (exactly one of the two) gives some events a lower round (and
// possibly another witness flag) than the other node.
func resetNodeAssignsLowerRounds(a *SimNode, fa *hg.Frame, b *SimNode, fb *hg.Frame) bool {
	if (a.ResetEpochs > 0) == (b.ResetEpochs > 0) {
		return false
	}
	if a.ResetEpochs > 0 {
		a, fa, b, fb = b, fb, a, fa
	}
	// b is the reset node
	return framesDifferOnlyByLowerRounds(fa, fb)
}
