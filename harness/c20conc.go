package main

import (
	"crypto/sha256"
	"fmt"
	"net"
	"sync"
	"time"

	hg "github.com/mosaicnetworks/babble/src/hashgraph"
	"github.com/mosaicnetworks/babble/src/node/state"
	"github.com/mosaicnetworks/babble/src/proxy"
	"github.com/mosaicnetworks/babble/src/proxy/inmem"
	aproxy "github.com/mosaicnetworks/babble/src/proxy/socket/app"
	bproxy "github.com/mosaicnetworks/babble/src/proxy/socket/babble"
)

// ---------------------------------------------------------------------------
// C20, concurrent callers. A running node calls its application from several
// goroutines at once: CommitBlock under the core lock from a gossip routine,
// OnStateChanged from Suspend/Shutdown/checkSuspend without it, GetSnapshot
// from a fast-forward request handler after releasing it. The application
// answers each call with a value derived from that call's own argument (and is
// slow now and then), so every answer identifies the call it belongs to: a
// caller must get the answer to its own call, or an error.
// ---------------------------------------------------------------------------

type derivedHandler struct {
	mu      sync.Mutex
	commits int
	j       *jitter
}

func derivedState(b *hg.Block) []byte {
	h := sha256.Sum256([]byte(fmt.Sprintf("state|%d|%d|%x|%d", b.Body.Index, b.Body.RoundReceived, b.Body.FrameHash, len(b.Body.Transactions))))
	return h[:]
}
func derivedSnapshot(i int) []byte { return []byte(fmt.Sprintf("snapshot-of-block-%d", i)) }

func (h *derivedHandler) CommitHandler(b hg.Block) (proxy.CommitResponse, error) {
	h.j.nap()
	h.mu.Lock()
	h.commits++
	h.mu.Unlock()
	resp := proxy.CommitResponse{StateHash: derivedState(&b)}
	for _, itx := range b.Body.InternalTransactions {
		resp.InternalTransactionReceipts = append(resp.InternalTransactionReceipts, itx.AsAccepted())
	}
	return resp, nil
}
func (h *derivedHandler) SnapshotHandler(i int) ([]byte, error) {
	h.j.nap()
	return derivedSnapshot(i), nil
}
func (h *derivedHandler) RestoreHandler(s []byte) ([]byte, error) {
	x := sha256.Sum256(s)
	return x[:], nil
}
func (h *derivedHandler) StateChangeHandler(s state.State) error { return nil }

func runC20Concurrent(cs CaseSpec) *CaseResult {
	res := newResult(cs)
	rng := cs.rng("c20conc")
	g := &hostileGen{rng: rng, maxIndex: 50}
	jit := newJitter(cs.Seed*31+int64(cs.Index), 3, 4*time.Millisecond)
	h := &derivedHandler{j: jit}
	mode := cs.Str("mode", "socket")
	var ap proxy.AppProxy
	switch mode {
	case "inmem":
		ap = inmem.NewInmemProxy(h, quietLogger())
	default:
		l1, _ := net.Listen("tcp", "127.0.0.1:0")
		appBind := l1.Addr().String()
		l1.Close()
		l2, _ := net.Listen("tcp", "127.0.0.1:0")
		nodeBind := l2.Addr().String()
		l2.Close()
		if _, err := bproxy.NewSocketBabbleProxy(nodeBind, appBind, h, 5*time.Second, quietLogger()); err != nil {
			res.inconclusive("app-side proxy: " + err.Error())
			return res
		}
		sp, err := aproxy.NewSocketAppProxy(appBind, nodeBind, 5*time.Second, quietLogger())
		if err != nil {
			res.inconclusive("babble-side proxy: " + err.Error())
			return res
		}
		ap = sp
	}
	rounds := int(cs.I("rounds", 80))
	blocks := make([]hg.Block, rounds)
	for i := range blocks {
		blocks[i] = genBlock(rng, g)
		if len(blocks[i].Body.Transactions) > 0 && len(blocks[i].Body.Transactions[0]) > 100000 {
			blocks[i].Body.Transactions = blocks[i].Body.Transactions[1:] // keep the calls short: the point is the overlap
		}
	}
	var mu sync.Mutex
	bad := ""
	fail := func(sig, msg string) {
		mu.Lock()
		if bad == "" {
			bad = sig + "\x00" + msg
		}
		mu.Unlock()
	}
	var wg sync.WaitGroup
	var nCommit, nSnap, nState int64
	wg.Add(3)
	go func() { // what a gossip routine does under the core lock
		defer wg.Done()
		for i := range blocks {
			got, err := ap.CommitBlock(blocks[i])
			mu.Lock()
			nCommit++
			mu.Unlock()
			if err != nil {
				fail("C20:commit-fails-without-fault", fmt.Sprintf("CommitBlock failed although nothing was injected (call %d, while other goroutines were calling the application): %v", i, err))
				return
			}
			want := derivedState(&blocks[i])
			if string(got.StateHash) != string(want) || len(got.InternalTransactionReceipts) != len(blocks[i].Body.InternalTransactions) {
				fail("C20:commit-response-altered", fmt.Sprintf("commit call %d, issued while other goroutines were calling the application, returned without error a response that is not the application's answer to that block: state hash %x (%d bytes, %d receipts), the application answered %x (%d receipts)",
					i, trunc(string(got.StateHash), 16), len(got.StateHash), len(got.InternalTransactionReceipts), trunc(string(want), 16), len(blocks[i].Body.InternalTransactions)))
				return
			}
		}
	}()
	rngSnap, rngState := cs.rng("c20conc-snap"), cs.rng("c20conc-state")
	go func() { // what a fast-forward request handler does
		defer wg.Done()
		for i := 0; i < rounds*2; i++ {
			got, err := ap.GetSnapshot(i)
			mu.Lock()
			nSnap++
			mu.Unlock()
			if err != nil {
				fail("C20:commit-fails-without-fault", fmt.Sprintf("GetSnapshot failed although nothing was injected (call %d): %v", i, err))
				return
			}
			if string(got) != string(derivedSnapshot(i)) {
				fail("C20:snapshot-altered", fmt.Sprintf("GetSnapshot(%d), issued while other goroutines were calling the application, returned %q without error; the application answered %q", i, trunc(string(got), 40), string(derivedSnapshot(i))))
				return
			}
			time.Sleep(time.Duration(rngSnap.Intn(300)) * time.Microsecond)
		}
	}()
	go func() { // what Suspend / checkSuspend / Shutdown do
		defer wg.Done()
		for i := 0; i < rounds*3; i++ {
			err := ap.OnStateChanged(state.State(i % 5))
			mu.Lock()
			nState++
			mu.Unlock()
			if err != nil {
				fail("C20:commit-fails-without-fault", fmt.Sprintf("OnStateChanged failed although nothing was injected (call %d): %v", i, err))
				return
			}
			time.Sleep(time.Duration(rngState.Intn(200)) * time.Microsecond)
		}
	}()
	done := make(chan struct{})
	go func() { wg.Wait(); close(done) }()
	select {
	case <-done:
	case <-time.After(3 * time.Minute):
		res.inconclusive("watchdog: the concurrent proxy calls did not finish within 3 minutes")
		return res
	}
	res.Evaluations = nCommit + nSnap + nState
	res.count("proxy_concurrent_commit_calls", nCommit)
	res.count("proxy_concurrent_snapshot_calls", nSnap)
	res.count("proxy_concurrent_state_change_calls", nState)
	jit.mu.Lock()
	res.count("proxy_application_side_delays_injected", jit.Naps)
	jit.mu.Unlock()
	if bad != "" {
		sig, msg := bad[:len(bad)-len(bad[indexByte(bad, 0):])], bad[indexByte(bad, 0)+1:]
		res.violate("C20", sig, msg, map[string]interface{}{"mode": mode, "callers": "CommitBlock, GetSnapshot and OnStateChanged from three goroutines"})
		return res
	}
	res.digest("c20conc", cs.Seed, cs.Index, mode, rounds)
	res.Sample = map[string]interface{}{"kind": "concurrent proxy callers", "mode": mode, "commit_calls": nCommit, "snapshot_calls": nSnap, "state_change_calls": nState}
	return res
}

func indexByte(s string, b byte) int {
	for i := 0; i < len(s); i++ {
		if s[i] == b {
			return i
		}
	}
	return -1
}
