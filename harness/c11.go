package main

import (
	"bufio"
	"encoding/json"
	"fmt"
	"math/rand"
	"os"
	"os/exec"
	"path/filepath"
	"strings"
	"syscall"
	"time"

	hg "github.com/mosaicnetworks/babble/src/hashgraph"
	_state "github.com/mosaicnetworks/babble/src/node/state"
)

// ---------------------------------------------------------------------------
// C11 crash recovery
// ---------------------------------------------------------------------------

type crashSentinel struct{ at string }

// crashStore decorates the victim's store: it logs BEGIN/END around every
// first write of an event and "crashes" (panics with a sentinel, or SIGKILLs
// the process) at the k-th write call, before or after delegating.
type crashStore struct {
	hg.Store
	calls     int
	crashAt   int  // k (0 = never)
	after     bool // crash after delegating instead of before
	kill      bool // SIGKILL the process instead of panicking
	attempted map[string]bool
	completed map[string]bool
	log       *os.File // optional durable BEGIN/END log (SIGKILL tier)
	crashed   bool
	lastOp    string
	// crash in the middle of a run of re-writes of already stored events (the
	// first-descendant updates of one insertion walk down every creator's chain,
	// one write per ancestor): at the rewriteCrashAt-th re-write that directly
	// follows another re-write
	rewriteCrashAt   int
	midChainRewrites int
	prevWasRewrite   bool
}

func newCrashStore(s hg.Store) *crashStore {
	return &crashStore{Store: s, attempted: map[string]bool{}, completed: map[string]bool{}}
}

func (c *crashStore) point(op string, do func() error) error {
	c.calls++
	c.lastOp = op
	wasRewrite := c.prevWasRewrite
	c.prevWasRewrite = false
	if op == "SetEvent (re-write)" {
		c.prevWasRewrite = true
		if wasRewrite {
			c.midChainRewrites++
			if c.rewriteCrashAt > 0 && c.midChainRewrites == c.rewriteCrashAt {
				if c.after {
					do()
					c.die("SetEvent (after the second or later re-write of stored events in a row)")
				}
				c.die("SetEvent (before the second or later re-write of stored events in a row)")
			}
		}
	}
	if c.crashAt > 0 && c.calls == c.crashAt && !c.after {
		c.die(op + " (before the write)")
	}
	err := do()
	if c.crashAt > 0 && c.calls == c.crashAt && c.after {
		c.die(op + " (after the write)")
	}
	return err
}

func (c *crashStore) die(at string) {
	c.crashed = true
	if c.kill {
		if c.log != nil {
			fmt.Fprintf(c.log, "CRASH %s\n", at)
			c.log.Sync()
		}
		syscall.Kill(os.Getpid(), syscall.SIGKILL)
		time.Sleep(time.Hour)
	}
	panic(crashSentinel{at})
}

func (c *crashStore) SetEvent(e *hg.Event) error {
	h := e.Hex()
	first := !c.attempted[h]
	if first {
		c.attempted[h] = true
		if c.log != nil {
			fmt.Fprintf(c.log, "BEGIN %s\n", h)
			c.log.Sync()
		}
	}
	op := "SetEvent"
	if !first {
		op = "SetEvent (re-write)"
	}
	err := c.point(op, func() error { return c.Store.SetEvent(e) })
	if err == nil && first {
		c.completed[h] = true
		if c.log != nil {
			fmt.Fprintf(c.log, "END %s\n", h)
			c.log.Sync()
		}
	}
	return err
}
func (c *crashStore) SetRound(r int, ri *hg.RoundInfo) error {
	return c.point("SetRound", func() error { return c.Store.SetRound(r, ri) })
}
func (c *crashStore) SetBlock(b *hg.Block) error {
	return c.point("SetBlock", func() error { return c.Store.SetBlock(b) })
}
func (c *crashStore) SetFrame(f *hg.Frame) error {
	return c.point("SetFrame", func() error { return c.Store.SetFrame(f) })
}
func (c *crashStore) AddConsensusEvent(e *hg.Event) error {
	return c.point("AddConsensusEvent", func() error { return c.Store.AddConsensusEvent(e) })
}

// guardedStep runs f and reports whether the victim's crash point fired.
func guardedStep(f func()) (crashed bool, at string) {
	defer func() {
		if r := recover(); r != nil {
			if s, ok := r.(crashSentinel); ok {
				crashed, at = true, s.at
				return
			}
			panic(r)
		}
	}()
	f()
	return
}

// verifyRecovery restarts the victim from its database with bootstrap and
// compares with what was observed before the crash.
func verifyRecovery(nw *Network, v *SimNode, pre []*Delivered, attempted, completed map[string]bool, where string) bool {
	res := nw.Res
	o := v.Opts
	o.Bootstrap = true
	// fsrestart: the operator restarts the node with both bootstrap and
	// fast-sync enabled; nobody answers its fast-forward request at that moment
	// (the others are unreachable, or none of them has an anchor block yet), so
	// the node goes on from what its database gave it
	fsRestart := nw.Res.Case.I("fsrestart", 0) == 1
	if fsRestart {
		o.FastSync = true
	}
	cur := clonePeers(v.peersAtCrash)
	if err := nw.startNode(v, o, cur, clonePeers(nw.Genesis)); err != nil {
		nw.violate("C11", "C11:bootstrap-fails", fmt.Sprintf("after a crash at %s the node cannot bootstrap from its database: %v", where, err), map[string]interface{}{"crash_point": where})
		return false
	}
	v.StoreClosed = false
	if nw.lostPool == nil {
		nw.lostPool = map[int]bool{}
	}
	nw.lostPool[v.Idx] = true
	res.count("crash_recoveries", 1)
	if fsRestart && v.Node.GetState() == _state.CatchingUp {
		saved := map[int]bool{}
		for _, x := range nw.Nodes {
			if x != v {
				saved[x.Idx] = x.Silent
				x.Silent = true
			}
		}
		err := nw.FastForward(v)
		for _, x := range nw.Nodes {
			if x != v {
				x.Silent = saved[x.Idx]
			}
		}
		res.count("restarts_with_fast_sync_enabled_and_no_answer", 1)
		if err == nil || v.Node.GetState() != _state.Babbling {
			res.inconclusive(fmt.Sprintf("fsrestart: expected the unanswered fast-forward to end in Babbling (err=%v state=%s)", err, v.Node.GetState().String()))
			return false
		}
	}
	post := v.App.Delivered
	// every block delivered before the crash is re-delivered identically
	for i, d := range pre {
		res.count("crash_redelivery_comparisons", 1)
		if i >= len(post) {
			nw.violate("C11", "C11:delivered-block-not-redelivered",
				fmt.Sprintf("after a crash at %s, bootstrap re-delivered %d blocks but %d had been delivered before the crash (block %d missing)", where, len(post), len(pre), d.Index),
				map[string]interface{}{"crash_point": where, "missing": describeDelivered(d)})
			return false
		}
		if blockDigest(post[i]) != blockDigest(d) {
			nw.violate("C11", "C11:redelivered-block-differs",
				fmt.Sprintf("after a crash at %s, bootstrap re-delivered a block %d that differs from the one delivered before the crash", where, d.Index),
				map[string]interface{}{"crash_point": where, "before": describeDelivered(d), "after": describeDelivered(post[i])})
			return false
		}
	}
	// completed <= K <= attempted
	st := v.Core.Hg().Store
	K := map[string]bool{}
	for pk := range st.RepertoireByPubKey() {
		evs, err := st.ParticipantEvents(pk, -1)
		if err != nil {
			continue
		}
		for _, h := range evs {
			K[h] = true
		}
	}
	for h := range completed {
		if !K[h] {
			nw.violate("C11", "C11:completed-event-lost", fmt.Sprintf("after a crash at %s, event %s whose insertion had completed is unknown after bootstrap", where, h[:12]), map[string]interface{}{"crash_point": where})
			return false
		}
	}
	for h := range K {
		if !attempted[h] {
			nw.violate("C11", "C11:unknown-event-after-bootstrap", fmt.Sprintf("after a crash at %s, bootstrap knows event %s that was never written", where, h[:12]), map[string]interface{}{"crash_point": where})
			return false
		}
	}
	res.count("crash_known_event_checks", int64(len(K)))
	// head restored: the node's own latest stored event
	head, seq := v.Core.Head()
	if last, err := st.LastEventFrom(v.PubHex); err == nil && last != "" {
		ev, _ := st.GetEvent(last)
		if head != last || (ev != nil && seq != ev.Index()) {
			nw.violate("C11", "C11:head-not-restored", fmt.Sprintf("after a crash at %s, the node's head/seq (%s,%d) is not its latest stored event (%s)", where, trunc(head, 12), seq, last[:12]), map[string]interface{}{"crash_point": where})
			return false
		}
	}
	if v.Node.GetState() != _state.Babbling {
		v.Node.VerifSetBabblingOrCatchingUpState()
	}
	// the recorder must re-learn what this incarnation holds
	v.known = map[uint32]int{}
	v.has = map[string]bool{}
	return true
}

func runC11(cs CaseSpec) *CaseResult {
	if cs.Kind == "sigkill" || cs.Kind == "syscallkill" {
		return runC11Kill(cs)
	}
	res := newResult(cs)
	nw := NewNetwork(cs, res)
	defer nw.Close()
	rng := cs.rng("c11")
	opts := defaultOpts()
	opts.Store = "badger"
	opts.CacheSize = 5000
	nw.DefaultOpts = opts
	n := int(cs.I("n", 3))
	nw.GenesisNodes(n, opts, nil)
	nw.CheckSuspendAfterGossip = false
	agree := NewMonAgreement()
	agree.Prop = "C11"
	nw.Mons = []Monitor{agree}
	v := nw.Nodes[rng.Intn(n)]
	// wrap the victim's store (the node keeps using it through the interface)
	cst := newCrashStore(v.Store)
	v.Core.Hg().Store = cst
	cst.crashAt = int(cs.I("k", 100))
	cst.after = cs.I("after", 0) == 1
	if rw := cs.I("rwk", 0); rw > 0 {
		cst.crashAt, cst.rewriteCrashAt = 0, int(rw)
	}
	clean := cs.I("clean", 0) == 1
	if clean {
		cst.crashAt = 0
	}
	sp := ScheduleSpec{Steps: 1, Shape: "uniform", SubmitProb: 0.6, TxKinds: 3, TruncProb: 0.1}
	if cs.I("hugetx", 0) == 1 {
		nw.HugeTx = true
		sp.BurstProb = 0.1
		res.count("histories_with_transactions_of_tens_of_kilobytes", 1)
	}
	joinAt := -1
	if cs.I("joins", 0) > 0 {
		joinAt = 20 + rng.Intn(40)
	}
	crashedAt := ""
	maxSteps := int(cs.I("steps", 400))
	for s := 0; s < maxSteps && !nw.stopped; s++ {
		if s == joinAt {
			b := nw.babblers()
			host := b[rng.Intn(len(b))]
			if host != v {
				nw.StartJoin(host, "", opts)
			}
		}
		crashed, at := guardedStep(func() { nw.RunSchedule(sp) })
		if crashed {
			crashedAt = at
			break
		}
		if cs.I("refusals", 0) == 1 && s%5 == 3 {
			// a relaying peer hands the victim an event it must refuse
			crashed, at = guardedStep(func() { offerRefusedEvent(nw, v, rng) })
			if crashed {
				crashedAt = at
				break
			}
		}
		if clean && s == maxSteps/2 {
			crashedAt = "clean shutdown"
			break
		}
	}
	if nw.stopped {
		return res
	}
	if crashedAt == "" {
		res.count("crash_point_not_reached", 1)
		res.Sample = map[string]interface{}{"kind": "crash point beyond the end of the history", "k": cst.crashAt, "store_calls": cst.calls}
		res.Evaluations = 1
		return res
	}
	res.count("crash_points_hit", 1)
	res.count("crash_at_"+strings.Fields(crashedAt)[0], 1)
	if strings.Contains(crashedAt, "in a row") {
		res.count("crash_points_inside_the_run_of_ancestor_rewrites_of_one_insertion", 1)
	}
	// the process is gone: release the database handle, keep what the harness
	// (the durable observer) logged
	pre := append([]*Delivered{}, v.App.Delivered...)
	v.peersAtCrash = clonePeers(v.Core.Peers().Peers)
	func() {
		defer func() { recover() }()
		cst.Store.Close()
	}()
	v.Up = false
	v.StoreClosed = true
	nw.fault = Fault{}
	// the rest of the network carries on for a while without the victim
	v.Silent = true
	nw.PinnedSilent = map[int]bool{v.Idx: true}
	nw.RunSchedule(ScheduleSpec{Steps: 10 + rng.Intn(30), Shape: "uniform", SubmitProb: 0.5, TxKinds: 2})
	nw.PinnedSilent = nil
	v.Silent = false
	if nw.stopped {
		return res
	}
	if !verifyRecovery(nw, v, pre, cst.attempted, cst.completed, crashedAt) {
		return res
	}
	// continuation: the restarted node gossips again; agreement and no self-fork
	forksBefore := len(nw.Rec.Forks)
	nw.RunSchedule(ScheduleSpec{Steps: int(cs.I("cont", 120)), Shape: "uniform", SubmitProb: 0.5, TxKinds: 2, TruncProb: 0.1})
	if !nw.stopped {
		nw.FairCycles(20)
	}
	if !nw.stopped && len(nw.Rec.Forks) > forksBefore {
		nw.violate("C11", "C11:self-fork-after-restart", "after restarting from its database the node created a second event at a height it had already used: "+nw.Rec.Forks[len(nw.Rec.Forks)-1], map[string]interface{}{"crash_point": crashedAt})
		return res
	}
	if !nw.stopped {
		// the restarted node must be taking part again: it delivered at least as much as before
		if len(v.App.Delivered) < len(pre) {
			nw.violate("C11", "C11:restarted-node-behind-its-own-past", "restarted node holds fewer blocks than before the crash", nil)
			return res
		}
		own := 0
		for _, e := range nw.Rec.Order {
			if e.CreatorIdx == v.Idx && e.CreatorInc == v.Incarnation {
				own++
			}
		}
		res.count("crash_events_created_after_restart", int64(own))
	}
	if !nw.stopped && cs.I("second", 0) == 1 {
		// second life ends too (process killed between two steps): everything the
		// node held and delivered after its first bootstrap must survive as well
		pre2 := append([]*Delivered{}, v.App.Delivered...)
		held := map[string]bool{}
		st := v.Core.Hg().Store
		for pk := range st.RepertoireByPubKey() {
			evs, _ := st.ParticipantEvents(pk, -1)
			for _, h := range evs {
				held[h] = true
			}
		}
		v.peersAtCrash = clonePeers(v.Core.Peers().Peers)
		func() {
			defer func() { recover() }()
			st.Close()
		}()
		v.Up = false
		v.StoreClosed = true
		res.count("crash_second_stops_after_a_bootstrap", 1)
		if !verifyRecovery(nw, v, pre2, held, held, "a second stop, after a first crash and bootstrap ("+crashedAt+")") {
			return res
		}
		forks2 := len(nw.Rec.Forks)
		nw.RunSchedule(ScheduleSpec{Steps: 60, Shape: "uniform", SubmitProb: 0.5, TxKinds: 2})
		if !nw.stopped {
			nw.FairCycles(20)
		}
		if !nw.stopped && len(nw.Rec.Forks) > forks2 {
			nw.violate("C11", "C11:self-fork-after-restart", "after its second restart the node created a second event at a height it had already used: "+nw.Rec.Forks[len(nw.Rec.Forks)-1], map[string]interface{}{"crash_point": crashedAt})
			return res
		}
	}
	res.Evaluations = int64(nw.Step)
	res.digest("c11", cs.Seed, cs.Index, crashedAt, cst.calls)
	res.Sample = map[string]interface{}{"kind": "in-process crash point", "n": n, "crash_at_store_call": cst.crashAt, "operation": crashedAt, "blocks_before_crash": len(pre), "blocks_after_continuation": len(v.App.Delivered), "events_written_before_crash": len(cst.completed)}
	return res
}

// ---------------------------------------------------------------------------
// SIGKILL tier: a child process runs an all-Badger network and is killed (it
// kills itself at the k-th store call of the victim, without any Close); the
// parent reopens the databases, bootstraps and compares with durable logs.
// ---------------------------------------------------------------------------

type killPlan struct {
	Seed  int64  `json:"seed"`
	Index int    `json:"index"`
	N     int    `json:"n"`
	K     int    `json:"k"`
	After bool   `json:"after"`
	Dir   string `json:"dir"`
	Steps int    `json:"steps"`
}

// crashChildMain is the child process of the SIGKILL tier.
func crashChildMain(planFile string) int {
	b, err := os.ReadFile(planFile)
	if err != nil {
		return 2
	}
	var p killPlan
	json.Unmarshal(b, &p)
	cs := CaseSpec{Prop: "C11", Tier: "child", Seed: p.Seed, Index: p.Index, Kind: "child"}
	res := newResult(cs)
	os.Setenv("VERIF_WORKDIR", p.Dir)
	nw := NewNetwork(cs, res)
	nw.TmpDir = p.Dir
	opts := defaultOpts()
	opts.Store = "badger"
	opts.CacheSize = 5000
	nw.DefaultOpts = opts
	for i := 0; i < p.N; i++ {
		// fixed database paths so that the parent finds them
	}
	nw.GenesisNodes(p.N, opts, nil)
	nw.CheckSuspendAfterGossip = false
	for _, x := range nw.Nodes {
		f, _ := os.OpenFile(filepath.Join(p.Dir, fmt.Sprintf("applog-%d.jsonl", x.Idx)), os.O_CREATE|os.O_WRONLY|os.O_APPEND, 0o644)
		x.App.Log = f
		cst := newCrashStore(x.Store)
		lf, _ := os.OpenFile(filepath.Join(p.Dir, fmt.Sprintf("evlog-%d.txt", x.Idx)), os.O_CREATE|os.O_WRONLY|os.O_APPEND, 0o644)
		cst.log = lf
		cst.kill = true
		if x.Idx == 0 {
			cst.crashAt = p.K
			cst.after = p.After
		}
		x.Core.Hg().Store = cst
	}
	// paths for the parent
	paths := map[int]string{}
	for _, x := range nw.Nodes {
		paths[x.Idx] = x.DBPath
	}
	pb, _ := json.Marshal(paths)
	os.WriteFile(filepath.Join(p.Dir, "paths.json"), pb, 0o644)
	nw.RunSchedule(ScheduleSpec{Steps: p.Steps, Shape: "uniform", SubmitProb: 0.6, TxKinds: 3})
	// not reached if the crash point fires; otherwise die anyway without closing
	syscall.Kill(os.Getpid(), syscall.SIGKILL)
	time.Sleep(time.Hour)
	return 0
}

func runC11Kill(cs CaseSpec) *CaseResult {
	res := newResult(cs)
	dir := dagWorkDir(cs)
	defer os.RemoveAll(dir)
	plan := killPlan{Seed: cs.Seed, Index: cs.Index, N: int(cs.I("n", 3)), K: int(cs.I("k", 200)), After: cs.I("after", 0) == 1, Dir: dir, Steps: int(cs.I("steps", 300))}
	pb, _ := json.Marshal(plan)
	pf := filepath.Join(dir, "plan.json")
	os.WriteFile(pf, pb, 0o644)
	cmd := exec.Command(os.Args[0], "crashchild", pf)
	if cs.Kind == "syscallkill" {
		// the child never reaches its own crash point; strace kills it on entering
		// one of its write() calls to the victim's Badger value log, i.e. between two
		// database commits (a store call may consist of several)
		if _, err := exec.LookPath("strace"); err != nil {
			res.inconclusive("strace not available")
			return res
		}
		plan.K = 1 << 30
		pb, _ = json.Marshal(plan)
		os.WriteFile(pf, pb, 0o644)
		cmd = exec.Command("strace", "-f", "-qq", "-o", "/dev/null", "-P", filepath.Join(dir, "db-0-0", "000000.vlog"),
			"-e", "trace=write", "-e", fmt.Sprintf("inject=write:signal=SIGKILL:when=%d", cs.I("when", 40)),
			os.Args[0], "crashchild", pf)
	}
	out, _ := os.Create(filepath.Join(dir, "child.out"))
	cmd.Stdout, cmd.Stderr = out, out
	done := make(chan error, 1)
	if err := cmd.Start(); err != nil {
		res.inconclusive(err.Error())
		return res
	}
	go func() { done <- cmd.Wait() }()
	select {
	case <-done:
	case <-time.After(5 * time.Minute):
		cmd.Process.Kill()
		res.inconclusive("watchdog: crash child did not die")
		return res
	}
	out.Close()
	ws, ok := cmd.ProcessState.Sys().(syscall.WaitStatus)
	killedUnderStrace := cs.Kind == "syscallkill" && ok && (ws.Signaled() || ws.ExitStatus() == 137 || ws.ExitStatus() == 128+9)
	if !killedUnderStrace && (!ok || !ws.Signaled() || ws.Signal() != syscall.SIGKILL) {
		ob, _ := os.ReadFile(filepath.Join(dir, "child.out"))
		res.inconclusive("crash child did not end by SIGKILL: " + trunc(string(ob), 600))
		return res
	}
	if cs.Kind == "syscallkill" {
		res.count("sigkill_children_killed_between_database_commits", 1)
	}
	res.count("sigkill_children", 1)
	var paths map[int]string
	pbb, err := os.ReadFile(filepath.Join(dir, "paths.json"))
	if err != nil || json.Unmarshal(pbb, &paths) != nil {
		res.inconclusive("child died before starting")
		return res
	}
	// parent: rebuild every node from its database with bootstrap
	nw := NewNetwork(cs, res)
	defer nw.Close()
	opts := defaultOpts()
	opts.Store = "badger"
	opts.CacheSize = 5000
	opts.Bootstrap = true
	nw.DefaultOpts = opts
	agree := NewMonAgreement()
	agree.Prop = "C11"
	nw.Mons = []Monitor{agree}
	// same identities as the child (same seed/index => same keys)
	ids := []*SimNode{}
	for i := 0; i < plan.N; i++ {
		sn := nw.addIdentity("")
		sn.DBPath = paths[i]
		ids = append(ids, sn)
		nw.Genesis = append(nw.Genesis, sn.peer())
	}
	for _, sn := range ids {
		if err := nw.startNode(sn, opts, clonePeers(nw.Genesis), clonePeers(nw.Genesis)); err != nil {
			nw.violate("C11", "C11:bootstrap-fails", fmt.Sprintf("after SIGKILL node %d cannot bootstrap from its database: %v", sn.Idx, err), nil)
			return res
		}
		if sn.Node.GetState() != _state.Babbling {
			sn.Node.VerifSetBabblingOrCatchingUpState()
		}
		// durable logs
		pre := readAppLog(filepath.Join(dir, fmt.Sprintf("applog-%d.jsonl", sn.Idx)))
		att, comp := readEvLog(filepath.Join(dir, fmt.Sprintf("evlog-%d.txt", sn.Idx)))
		post := sn.App.Delivered
		for i, line := range pre {
			res.count("crash_redelivery_comparisons", 1)
			if i >= len(post) {
				nw.violate("C11", "C11:delivered-block-not-redelivered", fmt.Sprintf("after SIGKILL node %d re-delivered %d blocks but its application had logged %d", sn.Idx, len(post), len(pre)), nil)
				return res
			}
			if line.Body != string(post[i].BodyJSON) || line.State != fmt.Sprintf("%x", post[i].Resp.StateHash) {
				nw.violate("C11", "C11:redelivered-block-differs", fmt.Sprintf("after SIGKILL node %d re-delivered a block %d that differs from what its application logged before the kill", sn.Idx, i),
					map[string]interface{}{"logged": trunc(line.Body, 500), "redelivered": trunc(string(post[i].BodyJSON), 500)})
				return res
			}
		}
		st := sn.Core.Hg().Store
		K := map[string]bool{}
		for pk := range st.RepertoireByPubKey() {
			evs, _ := st.ParticipantEvents(pk, -1)
			for _, h := range evs {
				K[h] = true
			}
		}
		for h := range comp {
			if !K[h] {
				nw.violate("C11", "C11:completed-event-lost", fmt.Sprintf("after SIGKILL node %d lost event %s whose insertion had completed", sn.Idx, h[:12]), nil)
				return res
			}
		}
		for h := range K {
			if !att[h] {
				nw.violate("C11", "C11:unknown-event-after-bootstrap", fmt.Sprintf("after SIGKILL node %d knows event %s that was never written", sn.Idx, h[:12]), nil)
				return res
			}
		}
		res.count("crash_known_event_checks", int64(len(K)))
		res.count("crash_recoveries", 1)
	}
	nw.afterStep()
	if nw.stopped {
		return res
	}
	nw.RunSchedule(ScheduleSpec{Steps: int(cs.I("cont", 100)), Shape: "uniform", SubmitProb: 0.5, TxKinds: 2})
	if !nw.stopped {
		nw.FairCycles(20)
	}
	if !nw.stopped && len(nw.Rec.Forks) > 0 {
		nw.violate("C11", "C11:self-fork-after-restart", "after SIGKILL and bootstrap a node created a second event at a height it had already used: "+nw.Rec.Forks[0], nil)
		return res
	}
	if !nw.stopped && cs.I("second", 0) == 1 {
		// every node stops once more (cleanly this time) after having taken part
		// again: what it held and delivered in its second life must survive too
		for _, sn := range ids {
			pre2 := append([]*Delivered{}, sn.App.Delivered...)
			held := map[string]bool{}
			st := sn.Core.Hg().Store
			for pk := range st.RepertoireByPubKey() {
				evs, _ := st.ParticipantEvents(pk, -1)
				for _, h := range evs {
					held[h] = true
				}
			}
			sn.peersAtCrash = clonePeers(sn.Core.Peers().Peers)
			func() {
				defer func() { recover() }()
				st.Close()
			}()
			sn.Up = false
			sn.StoreClosed = true
			res.count("crash_second_stops_after_a_bootstrap", 1)
			if !verifyRecovery(nw, sn, pre2, held, held, "a second stop, after a SIGKILL and bootstrap") {
				return res
			}
		}
		forks2 := len(nw.Rec.Forks)
		nw.RunSchedule(ScheduleSpec{Steps: 40, Shape: "uniform", SubmitProb: 0.5, TxKinds: 2})
		if !nw.stopped {
			nw.FairCycles(20)
		}
		if !nw.stopped && len(nw.Rec.Forks) > forks2 {
			nw.violate("C11", "C11:self-fork-after-restart", "after its second restart a node created a second event at a height it had already used: "+nw.Rec.Forks[len(nw.Rec.Forks)-1], nil)
			return res
		}
	}
	res.Evaluations = int64(nw.Step) + 1
	res.digest("c11kill", cs.Seed, cs.Index, cs.Kind, plan.K, cs.I("when", 0))
	res.Sample = map[string]interface{}{"kind": "real SIGKILL of an all-Badger network process at a store call", "n": plan.N, "victim_store_call": plan.K, "recovered_nodes": plan.N}
	return res
}

type appLogLine struct {
	Index int
	Body  string
	State string
}

func readAppLog(path string) []appLogLine {
	f, err := os.Open(path)
	if err != nil {
		return nil
	}
	defer f.Close()
	out := []appLogLine{}
	sc := bufio.NewScanner(f)
	sc.Buffer(make([]byte, 1<<20), 1<<28)
	for sc.Scan() {
		var l struct {
			Index int             `json:"index"`
			Body  json.RawMessage `json:"body"`
			State []byte          `json:"state"`
		}
		if json.Unmarshal(sc.Bytes(), &l) != nil {
			break // torn last line
		}
		out = append(out, appLogLine{l.Index, string(l.Body), fmt.Sprintf("%x", l.State)})
	}
	return out
}

func readEvLog(path string) (att, comp map[string]bool) {
	att, comp = map[string]bool{}, map[string]bool{}
	f, err := os.Open(path)
	if err != nil {
		return
	}
	defer f.Close()
	sc := bufio.NewScanner(f)
	for sc.Scan() {
		fs := strings.Fields(sc.Text())
		if len(fs) != 2 {
			continue
		}
		switch fs[0] {
		case "BEGIN":
			att[fs[1]] = true
		case "END":
			comp[fs[1]] = true
		}
	}
	return
}

func init() {
	register(&PropDef{
		ID: "C11", Level: "fault_enumeration", Engine: "nodesim+crash",
		Rule:          "one case = one crash point: (a) in-process: a nodesim network with Badger stores in which the victim's store panics at its k-th write call (SetEvent/SetRound/SetBlock/SetFrame/AddConsensusEvent; before or after the write reaches the database; k spread over the whole history; plus clean shutdowns), the database handle is released, the victim is rebuilt from its database with bootstrap and the run continues; (b) SIGKILL: a child process running an all-Badger network kills itself with SIGKILL at the victim's k-th store call without closing anything; the parent reopens every database, bootstraps and continues. Oracle: blocks re-delivered == blocks the application had durably logged, completed-writes subset of known events subset of attempted writes, head/seq = latest stored own event, no (creator,index) used twice afterwards, agreement with the rest of the network; non-trivial: the crash point was reached and the node recovered; distinct by (history, crash point)",
		Assumptions:   []string{"process kill, not machine crash: data handed to the OS survives (SyncWrites=false is the code's own choice)", "in-process crash points release the Badger handle with Close (same data as a kill; real kills are covered by the SIGKILL tier)", "stores reset by fast-sync are excluded (bootstrap from 0 only)"},
		MinNontrivial: 10,
		Cases: func(tier string, seed int64) []CaseSpec {
			count, kills := 72, 8
			if tier == "thorough" {
				count, kills = 900, 60
			}
			cs := []CaseSpec{}
			for i := 0; i < count; i++ {
				c := CaseSpec{Kind: "crashpoint", P: map[string]int64{"n": int64(2 + i%3), "steps": 400, "after": int64(i % 2), "cont": 100}}
				r := c
				r.Seed, r.Index = seed, i
				rg := r.rng("k")
				// spread k over the life of the history (a step makes ~10-40 store calls)
				c.P["k"] = int64(1 + rg.Intn(40) + (i%12)*rg.Intn(400))
				if i%9 == 4 {
					c.P["joins"] = 1
					c.P["n"] = 3
				}
				if i%18 == 17 {
					c.P["clean"] = 1
				}
				if i%4 == 1 {
					c.P["second"] = 1
				}
				if i%12 == 7 {
					// payloads of tens of kilobytes (bursts of them in one event): what
					// the restart reads back from the database comes in batches of
					// events that weigh megabytes
					c.P["hugetx"] = 1
					c.P["steps"] = 260
					c.P["k"] = int64(2500 + rg.Intn(3000))
					c.P["cont"] = 40
				}
				if i%12 == 3 {
					c.P["fsrestart"] = 1
				}
				if i%3 == 2 {
					// events that the victim refuses are offered to it before the crash
					c.P["refusals"] = 1
				}
				cs = append(cs, c)
			}
			// crash points inside the run of re-writes that one insertion makes
			// (first descendants of the ancestors, one write per ancestor)
			for i := 0; i < count/2; i++ {
				c := CaseSpec{Kind: "crashpoint", P: map[string]int64{"n": int64(3 + i%3), "steps": 400, "after": int64(i % 2), "cont": 140}}
				r := c
				r.Seed, r.Index = seed, len(cs)
				c.P["rwk"] = int64(1 + r.rng("rwk").Intn(25) + (i%8)*r.rng("rwk2").Intn(120))
				cs = append(cs, c)
			}
			for i := 0; i < kills; i++ {
				cs = append(cs, CaseSpec{Kind: "sigkill", P: map[string]int64{"n": int64(2 + i%3), "k": int64(50 + i*211%3000), "after": int64(i % 2), "steps": 300, "cont": 80, "second": int64(i % 2)}})
			}
			// killed by strace between two database commits of the victim
			for i := 0; i < 8*kills; i++ {
				cs = append(cs, CaseSpec{Kind: "syscallkill", P: map[string]int64{"n": int64(2 + i%3), "when": int64(15 + (i*37)%160), "steps": 300, "cont": 60, "second": 1}})
			}
			return cs
		},
		Run:            runC11,
		PerCaseTimeout: 10 * time.Minute,
	})
}

// offerRefusedEvent hands the victim, through its real sync entry point, an
// event of another node that the victim does not know yet and whose parents it
// knows, altered so that it must be refused: a signature that no longer
// verifies (signature, payload or timestamp changed by the relay), a wrong
// index, or an unknown other-parent. Nothing of it may be left behind.
func offerRefusedEvent(nw *Network, v *SimNode, rng *rand.Rand) {
	if v.Node == nil || !v.Up || !v.babbling() {
		return
	}
	others := []*SimNode{}
	for _, o := range nw.babblers() {
		if o != v {
			others = append(others, o)
		}
	}
	if len(others) == 0 {
		return
	}
	o := others[rng.Intn(len(others))]
	diff, err := o.Core.EventDiff(v.Core.KnownEvents())
	if err != nil || len(diff) == 0 {
		return
	}
	wire, err := o.Core.ToWire(diff[:1])
	if err != nil || len(wire) != 1 {
		return
	}
	var we hg.WireEvent
	if wireCopy(&wire[0], &we) != nil {
		return
	}
	class := rng.Intn(5)
	switch class {
	case 0: // signature altered, still well-formed
		b := []byte(we.Signature)
		for i := len(b) - 1; i >= 0; i-- {
			if b[i] >= '0' && b[i] <= '8' {
				b[i]++
				break
			}
			if b[i] == '9' {
				b[i] = '0'
				break
			}
		}
		we.Signature = string(b)
	case 1: // payload altered
		we.Body.Transactions = append(we.Body.Transactions, []byte("added by the relay"))
	case 2: // timestamp altered
		we.Body.Timestamp++
	case 3: // wrong index
		we.Body.Index += 1 + rng.Intn(3)
	case 4: // other-parent unknown to the victim
		we.Body.OtherParentIndex += 1000
	}
	before := v.Core.KnownEvents()
	err = v.Core.Sync(o.ID, []hg.WireEvent{we})
	nw.Res.count(fmt.Sprintf("refusable_events_offered_class_%d", class), 1)
	if err != nil {
		nw.Res.count("refusable_events_refused", 1)
	} else {
		after := v.Core.KnownEvents()
		if fmt.Sprint(before) != fmt.Sprint(after) {
			nw.Res.count("refusable_events_accepted", 1)
		}
	}
}
