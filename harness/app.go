package main

import (
	"bytes"
	"crypto/sha256"
	"encoding/binary"
	"encoding/json"
	"fmt"
	"os"
	"strings"
	"sync"

	hg "github.com/mosaicnetworks/babble/src/hashgraph"
	"github.com/mosaicnetworks/babble/src/node/state"
	"github.com/mosaicnetworks/babble/src/proxy"
)

// Delivered is the harness's own deep copy of a block as it was handed to the
// application, plus the response the application gave.
type Delivered struct {
	Index    int
	Body     hg.BlockBody // deep copy of the body as delivered (before the response is written into it)
	BodyJSON []byte
	Resp     proxy.CommitResponse
	Step     int
	Epoch    int // increments at every Restore (fast-forward) of this application
	// LastRoundAtCommit: the highest round the node had created when it handed
	// this block over (-1 if unknown); filled through App.LastRound
	LastRoundAtCommit int
	// AckLost: the application processed the block but its answer never reached
	// Babble (the commit call returned an error)
	AckLost bool
}

// App is the monitored, deterministic application attached to every simulated
// node through the real InmemProxy (or a socket proxy in the live engine).
type App struct {
	mu        sync.Mutex
	Name      string
	State     []byte
	Delivered []*Delivered
	Snapshots map[int][]byte
	Restores  int
	Epoch     int
	// RestoreLog records every snapshot handed to Restore.
	RestoreLog [][]byte
	// Jitter, if set, delays the commit handler now and then (live engine)
	Jitter *jitter
	// OnEnter, if set (SetOnEnter), is called when the commit handler is entered,
	// before the application's own lock is taken: a slow application, or one
	// that acts on the node from another goroutine while a commit is in progress
	onEnterMu sync.Mutex
	onEnter   func(b *hg.Block)
	// OnCommit, if set, is called inside the commit handler (used to submit
	// follow-up transactions from within the commit callback).
	OnCommit func(b *hg.Block)
	// Log, if set, receives one JSON line per delivered block, synced before
	// the handler returns (durable record for crash tests).
	Log *os.File
	// CurrentStep is set by the simulator.
	CurrentStep int
	// FailCommit, if >0, makes the next FailCommit commits return an error.
	FailCommit int
	// LoseAck, if >0, makes the next LoseAck commits be processed and recorded
	// by the application but answered with an error (the acknowledgement is lost,
	// e.g. a proxy timeout after the application did its work).
	LoseAck  int
	LostAcks int
	States   []state.State
	// LastRound, if set, reads the node's highest created round (diagnostics)
	LastRound func() int
}

func NewApp(name string) *App {
	return &App{Name: name, State: []byte{}, Snapshots: map[int][]byte{}}
}

func deepCopyBody(b hg.BlockBody) (hg.BlockBody, []byte) {
	jb, err := json.Marshal(b)
	if err != nil {
		panic(err)
	}
	var c hg.BlockBody
	if err := json.Unmarshal(jb, &c); err != nil {
		panic(err)
	}
	return c, jb
}

// appPolicyAccept is the deterministic membership policy of the application:
// it refuses peers whose moniker starts with "refuse".
func appPolicyAccept(itx hg.InternalTransaction) bool {
	return !strings.HasPrefix(itx.Body.Peer.Moniker, "refuse")
}

func nextAppState(prev []byte, b *hg.BlockBody) []byte {
	h := sha256.New()
	h.Write(prev)
	var buf [8]byte
	binary.BigEndian.PutUint64(buf[:], uint64(b.Index))
	h.Write(buf[:])
	for _, tx := range b.Transactions {
		binary.BigEndian.PutUint64(buf[:], uint64(len(tx)))
		h.Write(buf[:])
		h.Write(tx)
	}
	for _, itx := range b.InternalTransactions {
		ih, _ := itx.Body.Hash()
		h.Write(ih)
	}
	return h.Sum(nil)
}

// CommitHandler implements proxy.ProxyHandler.
func (a *App) CommitHandler(block hg.Block) (proxy.CommitResponse, error) {
	a.Jitter.nap()
	if f := a.enterHook(); f != nil {
		f(&block)
	}
	a.mu.Lock()
	defer a.mu.Unlock()
	body, jb := deepCopyBody(block.Body)
	if a.FailCommit > 0 {
		a.FailCommit--
		return proxy.CommitResponse{}, fmt.Errorf("injected application failure")
	}
	a.State = nextAppState(a.State, &body)
	receipts := []hg.InternalTransactionReceipt{}
	for _, itx := range block.InternalTransactions() {
		if appPolicyAccept(itx) {
			receipts = append(receipts, itx.AsAccepted())
		} else {
			receipts = append(receipts, itx.AsRefused())
		}
	}
	// what is handed back to Babble; the record keeps exactly the same value
	// (including nil vs empty), because block signatures cover its encoding
	resp := proxy.CommitResponse{StateHash: append([]byte{}, a.State...)}
	resp.InternalTransactionReceipts = append(resp.InternalTransactionReceipts, receipts...)
	d := &Delivered{Index: block.Index(), Body: body, BodyJSON: jb, Resp: resp, Step: a.CurrentStep, Epoch: a.Epoch, LastRoundAtCommit: -1}
	if a.LastRound != nil {
		d.LastRoundAtCommit = a.LastRound()
	}
	a.Delivered = append(a.Delivered, d)
	a.Snapshots[block.Index()] = append([]byte{}, a.State...)
	if a.Log != nil {
		line, _ := json.Marshal(map[string]interface{}{"index": d.Index, "body": json.RawMessage(jb), "state": resp.StateHash})
		a.Log.Write(append(line, '\n'))
		a.Log.Sync()
	}
	if a.OnCommit != nil {
		a.OnCommit(&block)
	}
	if a.LoseAck > 0 {
		a.LoseAck--
		a.LostAcks++
		d.AckLost = true
		return proxy.CommitResponse{}, fmt.Errorf("injected: acknowledgement lost")
	}
	// hand back a copy so that Babble cannot alias our record
	out := proxy.CommitResponse{StateHash: append([]byte{}, resp.StateHash...)}
	out.InternalTransactionReceipts = append(out.InternalTransactionReceipts, receipts...)
	return out, nil
}

// SnapshotHandler implements proxy.ProxyHandler.
func (a *App) SnapshotHandler(blockIndex int) ([]byte, error) {
	a.mu.Lock()
	defer a.mu.Unlock()
	s, ok := a.Snapshots[blockIndex]
	if !ok {
		return nil, fmt.Errorf("no snapshot for block %d", blockIndex)
	}
	return append([]byte{}, s...), nil
}

// RestoreHandler implements proxy.ProxyHandler.
func (a *App) RestoreHandler(snapshot []byte) ([]byte, error) {
	a.mu.Lock()
	defer a.mu.Unlock()
	a.State = append([]byte{}, snapshot...)
	a.Restores++
	a.Epoch++
	a.RestoreLog = append(a.RestoreLog, append([]byte{}, snapshot...))
	return a.State, nil
}

// StateChangeHandler implements proxy.ProxyHandler.
func (a *App) StateChangeHandler(s state.State) error {
	a.mu.Lock()
	defer a.mu.Unlock()
	a.States = append(a.States, s)
	return nil
}

// digest of the application-visible state (used by "refusal leaves everything
// untouched" oracles).
func (a *App) digest() string {
	var b bytes.Buffer
	fmt.Fprintf(&b, "%x|%d|%d|%d", a.State, a.Restores, len(a.Delivered), a.Epoch)
	return b.String()
}

// DeliveredCopy returns a snapshot of the delivered list (for harness threads
// that run concurrently with the node, i.e. the live engine).
func (a *App) DeliveredCopy() []*Delivered {
	a.mu.Lock()
	defer a.mu.Unlock()
	return append([]*Delivered{}, a.Delivered...)
}

func (a *App) SetOnEnter(f func(b *hg.Block)) {
	a.onEnterMu.Lock()
	a.onEnter = f
	a.onEnterMu.Unlock()
}

func (a *App) enterHook() func(b *hg.Block) {
	a.onEnterMu.Lock()
	defer a.onEnterMu.Unlock()
	return a.onEnter
}
