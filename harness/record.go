package main

import (
	"fmt"
	"os"
	"sort"

	hg "github.com/mosaicnetworks/babble/src/hashgraph"
)

// RecEvent is the harness's own record of an event, built from what nodes
// expose at their store boundary the first time the event is seen anywhere.
type RecEvent struct {
	Hash        string
	Creator     string // upper-case hex
	CreatorIdx  int    // index of the identity in the network (-1 unknown)
	Index       int
	SelfParent  string
	OtherParent string
	Txs         [][]byte
	Itxs        []hg.InternalTransaction
	Sigs        []hg.BlockSignature
	Timestamp   int64
	Signature   string
	FirstNode   int
	FirstStep   int
	Honest      bool // created by a real node (not a puppet)
	Seq         int  // global order of first appearance
	CreatorInc  int  // incarnation of the creating node when the event first appeared
}

func (e *RecEvent) loaded() bool { return len(e.Txs) > 0 || len(e.Itxs) > 0 }

// Recorder keeps the network-wide DAG record and per-node insertion orders.
type Recorder struct {
	nw     *Network
	Events map[string]*RecEvent
	Order  []*RecEvent
	// byCreatorIndex detects forks network-wide
	byCI map[string]string
	// submissions per node (in order)
	SubmittedBy map[[2]int][][]byte // (node idx, incarnation) -> submissions in order
	Forks       []string
	// memo for ancestry closure of committed payload (used by C04)
}

func NewRecorder(nw *Network) *Recorder {
	return &Recorder{nw: nw, Events: map[string]*RecEvent{}, byCI: map[string]string{}, SubmittedBy: map[[2]int][][]byte{}}
}

func (r *Recorder) noteSubmission(n *SimNode, tx []byte) {
	k := [2]int{n.Idx, n.Incarnation}
	r.SubmittedBy[k] = append(r.SubmittedBy[k], tx)
}

func (r *Recorder) creatorIdx(pub string) int {
	for _, n := range r.nw.Nodes {
		if n.PubHex == pub {
			return n.Idx
		}
	}
	return -1
}

func (r *Recorder) add(ev *hg.Event, n *SimNode) *RecEvent {
	h := ev.Hex()
	if e, ok := r.Events[h]; ok {
		if e.Signature != ev.Signature && n.Idx == e.CreatorIdx && n.ReusedIndexStep < 0 {
			// the node signed again an event (same body, same hash) that it had
			// already created before it was reset: it re-used one of its indexes
			n.ReusedIndexStep = r.nw.Step
			r.nw.Res.count("reset_nodes_that_signed_again_an_event_they_had_created_before", 1)
		}
		return e
	}
	e := &RecEvent{
		Hash: h, Creator: ev.Creator(), Index: ev.Index(), SelfParent: ev.SelfParent(), OtherParent: ev.OtherParent(),
		Timestamp: ev.Timestamp(), Signature: ev.Signature, FirstNode: n.Idx, FirstStep: r.nw.Step, Seq: len(r.Order),
	}
	for _, tx := range ev.Transactions() {
		e.Txs = append(e.Txs, append([]byte{}, tx...))
	}
	e.Itxs = append(e.Itxs, ev.InternalTransactions()...)
	e.Sigs = append(e.Sigs, ev.BlockSignatures()...)
	e.CreatorIdx = r.creatorIdx(e.Creator)
	if e.CreatorIdx >= 0 {
		e.Honest = !r.nw.Nodes[e.CreatorIdx].Puppet
		e.CreatorInc = r.nw.Nodes[e.CreatorIdx].Incarnation
	}
	r.Events[h] = e
	r.Order = append(r.Order, e)
	ci := fmt.Sprintf("%s/%d", e.Creator, e.Index)
	if other, ok := r.byCI[ci]; ok && other != h {
		r.Forks = append(r.Forks, fmt.Sprintf("creator %s index %d: %s and %s", e.Creator[:10], e.Index, other[:10], h[:10]))
		if e.CreatorIdx >= 0 && r.nw.Nodes[e.CreatorIdx].ReusedIndexStep < 0 {
			r.nw.Nodes[e.CreatorIdx].ReusedIndexStep = r.nw.Step
		}
	} else {
		r.byCI[ci] = h
	}
	return e
}

// observe scans every live node for events it did not have after the previous
// step and records them (per-node insertion order = local topological index).
var traceEvent = os.Getenv("VERIF_TRACE_EVENT")
var traceSteps = os.Getenv("VERIF_TRACE_STEPS")

func (r *Recorder) observe() {
	for _, n := range r.nw.Nodes {
		if n.Node == nil || n.Puppet || n.Store == nil || n.storeClosed() {
			continue
		}
		r.observeNode(n)
	}
}

func (n *SimNode) storeClosed() bool {
	return n.Node == nil || n.StoreClosed
}

func (r *Recorder) observeNode(n *SimNode) {
	known := n.Core.KnownEvents()
	type newEv struct {
		ev   *hg.Event
		topo int
	}
	var fresh []newEv
	rep := n.Store.RepertoireByID()
	for id, last := range known {
		prev, ok := n.known[id]
		if !ok {
			prev = -1
		}
		if last == prev {
			continue
		}
		p := rep[id]
		if p == nil {
			continue
		}
		skip := prev
		if last < prev {
			// store was reset (fast-forward): rescan this participant
			skip = -1
		}
		hashes, err := n.Store.ParticipantEvents(p.PubKeyString(), skip)
		if err != nil {
			// the requested index is no longer available (rolled): take what
			// the store still lists
			hashes, err = n.Store.ParticipantEvents(p.PubKeyString(), last-1)
			if err != nil {
				continue
			}
		}
		for _, h := range hashes {
			if n.has[h] {
				continue
			}
			ev, err := n.Store.GetEvent(h)
			if err != nil {
				continue
			}
			n.has[h] = true
			re := r.add(ev, n)
			if traceSteps != "" && re != nil {
				var lo, hi int
				fmt.Sscanf(traceSteps, "%d-%d", &lo, &hi)
				if r.nw.Step >= lo && r.nw.Step <= hi && re.FirstStep == r.nw.Step && re.FirstNode == n.Idx {
					opc := -2
					if o := r.Events[re.OtherParent]; o != nil {
						opc = o.CreatorIdx
					}
					opi := -1
					if o := r.Events[re.OtherParent]; o != nil {
						opi = o.Index
					}
					fmt.Fprintf(os.Stderr, "TRACESTEP step=%d new event creator %d index %d txs=%d other-parent creator %d index %d (first at node %d)\n", r.nw.Step, re.CreatorIdx, re.Index, len(re.Txs), opc, opi, n.Idx)
				}
			}
			if traceEvent != "" && re != nil && fmt.Sprintf("%d:%d", re.CreatorIdx, re.Index) == traceEvent {
				la := -1
				if r.nw.lastActor != nil {
					la = r.nw.lastActor.Idx
				}
				fmt.Fprintf(os.Stderr, "TRACE step=%d node %d now holds event %s (creator %d index %d, other-parent %s); last actor of the step: node %d; node state %s\n", r.nw.Step, n.Idx, trunc(h, 12), re.CreatorIdx, re.Index, trunc(re.OtherParent, 12), la, n.Node.GetState())
			}
			fresh = append(fresh, newEv{ev, ev.VerifTopologicalIndex()})
		}
		n.known[id] = last
	}
	if len(fresh) > 0 {
		sort.SliceStable(fresh, func(i, j int) bool { return fresh[i].topo < fresh[j].topo })
		for _, f := range fresh {
			n.order = append(n.order, f.ev.Hex())
		}
	}
}

// export returns the last k recorded events in a JSON-friendly form.
func (r *Recorder) export(k int) interface{} {
	start := 0
	if len(r.Order) > k {
		start = len(r.Order) - k
	}
	out := []map[string]interface{}{}
	for _, e := range r.Order[start:] {
		out = append(out, map[string]interface{}{
			"hash": e.Hash, "creator": e.CreatorIdx, "index": e.Index, "self_parent": e.SelfParent, "other_parent": e.OtherParent,
			"txs": len(e.Txs), "itxs": len(e.Itxs), "sigs": len(e.Sigs), "timestamp": e.Timestamp, "first_node": e.FirstNode, "first_step": e.FirstStep,
		})
	}
	return map[string]interface{}{"events_total": len(r.Order), "tail": out}
}

// ancestors returns the set of ancestor hashes of h (inclusive) restricted to
// recorded events; memoised by the caller if needed.
func (r *Recorder) parents(h string) []string {
	e := r.Events[h]
	if e == nil {
		return nil
	}
	res := []string{}
	if e.SelfParent != "" {
		res = append(res, e.SelfParent)
	}
	if e.OtherParent != "" {
		res = append(res, e.OtherParent)
	}
	return res
}
