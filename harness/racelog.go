package main

import (
	"encoding/json"
	"os"
	"path/filepath"
	"regexp"
	"sort"
	"strings"
)

// ---------------------------------------------------------------------------
// Race-detector logs (informational instrumentation, never a verdict)
//
// Workers of cases marked race=1 are built with -race and run with
// GORACE="halt_on_error=0 log_path=...". Data-race freedom is not one of the
// twenty properties and the unchanged tree already races (DESIGN 2.6), so the
// reports are counted, de-duplicated and written to the evidence; the
// verdict of such a case still comes from its behavioural monitors, which the
// race build runs under different timing.
// ---------------------------------------------------------------------------

var raceFrameRe = regexp.MustCompile(`^\s{2}(\S.*)\(\)?\s*$`)
var raceFuncRe = regexp.MustCompile(`^\s{2}([^\s(][^\s]*)\(`)

type raceStack struct {
	frames []string
}

// innermost / outermost frame inside Babble (or, failing that, anywhere)
func (s raceStack) pick(inner bool, pred func(string) bool) string {
	if inner {
		for _, f := range s.frames {
			if pred(f) {
				return f
			}
		}
	} else {
		for i := len(s.frames) - 1; i >= 0; i-- {
			if pred(s.frames[i]) {
				return s.frames[i]
			}
		}
	}
	return ""
}

func isBabbleFrame(f string) bool {
	return strings.Contains(f, "github.com/mosaicnetworks/babble/")
}
func isHarnessFrame(f string) bool { return strings.HasPrefix(f, "main.") }

func shortFunc(f string) string {
	f = strings.TrimPrefix(f, "github.com/mosaicnetworks/babble/src/")
	// strip closure counters so that the same site de-duplicates
	f = regexp.MustCompile(`\.func\d+(\.\d+)*$`).ReplaceAllString(f, ".func")
	return f
}

func parseRaceLog(text string) (reports [][2]raceStack) {
	blocks := strings.Split(text, "WARNING: DATA RACE")
	for _, b := range blocks[1:] {
		if i := strings.Index(b, "=================="); i >= 0 {
			b = b[:i]
		}
		// the first two paragraphs are the two accesses
		paras := strings.Split(strings.TrimSpace(b), "\n\n")
		var st [2]raceStack
		k := 0
		for _, para := range paras {
			lines := strings.Split(para, "\n")
			if len(lines) == 0 {
				continue
			}
			head := strings.TrimSpace(lines[0])
			if !(strings.HasPrefix(head, "Read at") || strings.HasPrefix(head, "Write at") || strings.HasPrefix(head, "Previous read at") || strings.HasPrefix(head, "Previous write at") ||
				strings.HasPrefix(head, "Atomic") || strings.HasPrefix(head, "Previous atomic")) {
				continue
			}
			if k >= 2 {
				break
			}
			for _, ln := range lines[1:] {
				if m := raceFuncRe.FindStringSubmatch(ln); m != nil {
					st[k].frames = append(st[k].frames, m[1])
				}
			}
			k++
		}
		if k == 2 {
			reports = append(reports, st)
		}
	}
	return reports
}

func summariseRaceLogs(workDir string, nCases int) map[string]interface{} {
	if nCases == 0 {
		return nil
	}
	files, _ := filepath.Glob(filepath.Join(workDir, "race-*"))
	total := 0
	innerPairs := map[string]int{}
	entryPairs := map[string]int{}
	harnessPairs := map[string]int{}
	for _, f := range files {
		b, err := os.ReadFile(f)
		if err != nil {
			continue
		}
		for _, rep := range parseRaceLog(string(b)) {
			total++
			a := rep[0].pick(true, isBabbleFrame)
			c := rep[1].pick(true, isBabbleFrame)
			if a == "" && c == "" {
				ha, hc := rep[0].pick(true, isHarnessFrame), rep[1].pick(true, isHarnessFrame)
				p := []string{ha, hc}
				sort.Strings(p)
				harnessPairs[p[0]+" <-> "+p[1]]++
				continue
			}
			if a == "" {
				a = rep[0].pick(true, func(string) bool { return true })
			}
			if c == "" {
				c = rep[1].pick(true, func(string) bool { return true })
			}
			p := []string{shortFunc(a), shortFunc(c)}
			sort.Strings(p)
			innerPairs[p[0]+" <-> "+p[1]]++
			ea := rep[0].pick(false, isBabbleFrame)
			ec := rep[1].pick(false, isBabbleFrame)
			e := []string{shortFunc(ea), shortFunc(ec)}
			sort.Strings(e)
			entryPairs[e[0]+" <-> "+e[1]]++
		}
	}
	top := func(m map[string]int, n int) []string {
		type kv struct {
			k string
			v int
		}
		var l []kv
		for k, v := range m {
			l = append(l, kv{k, v})
		}
		sort.Slice(l, func(i, j int) bool {
			if l[i].v != l[j].v {
				return l[i].v > l[j].v
			}
			return l[i].k < l[j].k
		})
		out := []string{}
		for i := 0; i < len(l) && i < n; i++ {
			out = append(out, l[i].k+" x"+itoa(l[i].v))
		}
		return out
	}
	// pairs that the committed baseline (collected on the unchanged tree,
	// scripts/race_baseline.sh) does not list: still information only, but it
	// tells a reader at once which races a change to Babble added
	notInBaseline := []string{}
	if base := loadRaceBaseline(); base != nil {
		for k := range innerPairs {
			if !base[k] {
				notInBaseline = append(notInBaseline, k)
			}
		}
		sort.Strings(notInBaseline)
	}
	return map[string]interface{}{
		"access_pairs_not_in_committed_baseline": notInBaseline,
		"cases_run_under_race_detector":          nCases,
		"reports_total":                          total,
		"distinct_access_pairs_babble":           len(innerPairs),
		"distinct_entry_point_pairs_babble":      len(entryPairs),
		"distinct_access_pairs_harness_only":     len(harnessPairs),
		"access_pairs_babble":                    top(innerPairs, 40),
		"entry_point_pairs_babble":               top(entryPairs, 25),
		"access_pairs_harness_only":              top(harnessPairs, 10),
		"note":                                   "informational: data-race freedom is not one of the properties and the unchanged tree races; the verdict of a case run under the race detector comes from its behavioural monitors",
	}
}

func itoa(v int) string {
	if v == 0 {
		return "0"
	}
	s := ""
	neg := v < 0
	if neg {
		v = -v
	}
	for v > 0 {
		s = string(rune('0'+v%10)) + s
		v /= 10
	}
	if neg {
		s = "-" + s
	}
	return s
}

var _ = raceFrameRe

func loadRaceBaseline() map[string]bool {
	b, err := os.ReadFile(filepath.Join(verifDir(), "race_baseline.json"))
	if err != nil {
		return nil
	}
	var doc struct {
		Pairs []string `json:"pairs"`
	}
	if json.Unmarshal(b, &doc) != nil {
		return nil
	}
	m := map[string]bool{}
	for _, p := range doc.Pairs {
		m[p] = true
	}
	return m
}
