package main

import (
	"crypto/ecdsa"
	"crypto/sha256"
	"fmt"
	"io"

	bkeys "github.com/mosaicnetworks/babble/src/crypto/keys"
	"github.com/mosaicnetworks/babble/src/peers"
	"github.com/sirupsen/logrus"
)

// detKey derives a private key deterministically from (seed, label, i), so
// that peer ids and the order of peers in a set are a function of the seed.
func detKey(seed int64, label string, i int) *ecdsa.PrivateKey {
	for ctr := 0; ; ctr++ {
		h := sha256.Sum256([]byte(fmt.Sprintf("verif-key|%d|%s|%d|%d", seed, label, i, ctr)))
		k, err := bkeys.ParsePrivateKey(h[:])
		if err == nil {
			return k
		}
	}
}

func pubHex(k *ecdsa.PrivateKey) string { return bkeys.PublicKeyHex(&k.PublicKey) }

func mkPeer(k *ecdsa.PrivateKey, addr, moniker string) *peers.Peer {
	return peers.NewPeer(pubHex(k), addr, moniker)
}

// clonePeers makes fresh Peer objects (every node gets its own copies, as
// happens in production where each process parses its own peers.json).
func clonePeers(ps []*peers.Peer) []*peers.Peer {
	res := make([]*peers.Peer, 0, len(ps))
	for _, p := range ps {
		res = append(res, peers.NewPeer(p.PubKeyHex, p.NetAddr, p.Moniker))
	}
	return res
}

// SimKey wraps a private key.
type SimKey struct{ K *ecdsa.PrivateKey }

// quietLogger returns a logger that drops everything.
func quietLogger() *logrus.Entry {
	l := logrus.New()
	l.Level = logrus.PanicLevel
	l.Out = io.Discard
	return logrus.NewEntry(l)
}
