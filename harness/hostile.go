package main

import (
	"fmt"
	"math"
	"math/rand"
	"strings"

	hg "github.com/mosaicnetworks/babble/src/hashgraph"
	bnet "github.com/mosaicnetworks/babble/src/net"
	"github.com/mosaicnetworks/babble/src/peers"
)

// Hostile value grammar for C08 (and reused by C09/C12 payload generators).

type hostileGen struct {
	rng      *rand.Rand
	validIDs []uint32
	validPub []string
	goodSig  string
	maxIndex int
}

func (g *hostileGen) str() string {
	opts := []string{"", "0", "0X", "0x", "0Xzz", "0X0", "0XABC", "|", "a|", "|a", "!|!", "1|1", "zz|zz|zz", "0X04", " ", "\x00", "null",
		"0X" + strings.Repeat("F", 130), strings.Repeat("A", 5000), "-1|-1", "0|0", "1e9|1"}
	if len(g.validPub) > 0 {
		opts = append(opts, g.validPub[g.rng.Intn(len(g.validPub))], strings.ToLower(g.validPub[g.rng.Intn(len(g.validPub))]))
	}
	if g.goodSig != "" {
		opts = append(opts, g.goodSig)
	}
	return opts[g.rng.Intn(len(opts))]
}

func (g *hostileGen) sig() string {
	opts := []string{"", "|", "a|", "|a", "!|!", "1|1", "0|0", "-1|-1", "zz|zz|zz", "x", "1|", "|1", strings.Repeat("z", 3000) + "|1", "1|1|1"}
	if g.goodSig != "" {
		opts = append(opts, g.goodSig, g.goodSig)
	}
	return opts[g.rng.Intn(len(opts))]
}

func (g *hostileGen) pubhex() string {
	opts := []string{"", "0", "0X", "0Xzz", "0X0", "0X04", "0X" + strings.Repeat("0", 130), "0X04" + strings.Repeat("F", 128), "0X04" + strings.Repeat("0", 128), "zz", "0X02" + strings.Repeat("1", 64)}
	for _, p := range g.validPub {
		opts = append(opts, p)
	}
	return opts[g.rng.Intn(len(opts))]
}

func (g *hostileGen) num() int {
	opts := []int{math.MinInt64, math.MinInt32, -2, -1, 0, 1, 2, 7, math.MaxInt32, math.MaxInt64, math.MaxInt64 - 1}
	if g.maxIndex > 0 {
		opts = append(opts, g.rng.Intn(g.maxIndex+1), g.maxIndex, g.maxIndex+1)
	}
	return opts[g.rng.Intn(len(opts))]
}

func (g *hostileGen) id() uint32 {
	switch g.rng.Intn(4) {
	case 0:
		return 0
	case 1:
		return uint32(g.rng.Int63())
	default:
		if len(g.validIDs) == 0 {
			return 1
		}
		return g.validIDs[g.rng.Intn(len(g.validIDs))]
	}
}

func (g *hostileGen) bytes() []byte {
	switch g.rng.Intn(5) {
	case 0:
		return nil
	case 1:
		return []byte{}
	case 2:
		return []byte{0}
	case 3:
		b := make([]byte, 1+g.rng.Intn(64))
		g.rng.Read(b)
		return b
	default:
		return []byte(strings.Repeat("x", 1+g.rng.Intn(200000)))
	}
}

func (g *hostileGen) txs() [][]byte {
	switch g.rng.Intn(5) {
	case 0:
		return nil
	case 1:
		return [][]byte{}
	case 2:
		return [][]byte{nil}
	default:
		k := 1 + g.rng.Intn(4)
		out := [][]byte{}
		for i := 0; i < k; i++ {
			out = append(out, g.bytes())
		}
		return out
	}
}

func (g *hostileGen) known() map[uint32]int {
	switch g.rng.Intn(5) {
	case 0:
		return nil
	case 1:
		return map[uint32]int{}
	default:
		m := map[uint32]int{}
		for i := 0; i < 1+g.rng.Intn(6); i++ {
			m[g.id()] = g.num()
		}
		return m
	}
}

func (g *hostileGen) peer() peers.Peer {
	return peers.Peer{NetAddr: g.str(), PubKeyHex: g.pubhex(), Moniker: g.str()}
}

func (g *hostileGen) peerPtrs() []*peers.Peer {
	switch g.rng.Intn(6) {
	case 0:
		return nil
	case 1:
		return []*peers.Peer{}
	case 2:
		return []*peers.Peer{nil}
	default:
		out := []*peers.Peer{}
		for i := 0; i < 1+g.rng.Intn(4); i++ {
			if g.rng.Intn(6) == 0 {
				out = append(out, nil)
				continue
			}
			p := g.peer()
			out = append(out, &p)
		}
		return out
	}
}

func (g *hostileGen) itx() hg.InternalTransaction {
	t := hg.InternalTransaction{Body: hg.InternalTransactionBody{Type: hg.TransactionType(g.rng.Intn(4)), Peer: g.peer()}, Signature: g.sig()}
	return t
}

func (g *hostileGen) itxs() []hg.InternalTransaction {
	switch g.rng.Intn(4) {
	case 0:
		return nil
	case 1:
		return []hg.InternalTransaction{}
	default:
		out := []hg.InternalTransaction{}
		for i := 0; i < 1+g.rng.Intn(3); i++ {
			out = append(out, g.itx())
		}
		return out
	}
}

func (g *hostileGen) wireSigs() []hg.WireBlockSignature {
	switch g.rng.Intn(4) {
	case 0:
		return nil
	case 1:
		return []hg.WireBlockSignature{}
	default:
		out := []hg.WireBlockSignature{}
		for i := 0; i < 1+g.rng.Intn(3); i++ {
			out = append(out, hg.WireBlockSignature{Index: g.num(), Signature: g.sig()})
		}
		return out
	}
}

func (g *hostileGen) wireEvent() hg.WireEvent {
	return hg.WireEvent{
		Body: hg.WireBody{
			Transactions: g.txs(), InternalTransactions: g.itxs(), BlockSignatures: g.wireSigs(),
			CreatorID: g.id(), OtherParentCreatorID: g.id(), Index: g.num(), SelfParentIndex: g.num(), OtherParentIndex: g.num(),
			Timestamp: int64(g.num()),
		},
		Signature: g.sig(),
	}
}

func (g *hostileGen) wireEvents() []hg.WireEvent {
	switch g.rng.Intn(6) {
	case 0:
		return nil
	case 1:
		return []hg.WireEvent{}
	default:
		out := []hg.WireEvent{}
		for i := 0; i < 1+g.rng.Intn(4); i++ {
			out = append(out, g.wireEvent())
		}
		return out
	}
}

func (g *hostileGen) frameEvent() *hg.FrameEvent {
	switch g.rng.Intn(6) {
	case 0:
		return nil
	case 1:
		return &hg.FrameEvent{Core: nil, Round: g.num(), LamportTimestamp: g.num(), Witness: true}
	}
	ev := &hg.Event{Body: hg.EventBody{Transactions: g.txs(), InternalTransactions: g.itxs(), Creator: g.bytes(), Index: g.num(), Timestamp: int64(g.num())}, Signature: g.sig()}
	switch g.rng.Intn(4) {
	case 0:
		ev.Body.Parents = nil
	case 1:
		ev.Body.Parents = []string{g.str()}
	default:
		ev.Body.Parents = []string{g.str(), g.str()}
	}
	if len(g.validPub) > 0 && g.rng.Intn(2) == 0 {
		ev.Body.Creator, _ = decodeHex(g.validPub[g.rng.Intn(len(g.validPub))])
	}
	return &hg.FrameEvent{Core: ev, Round: g.num(), LamportTimestamp: g.num(), Witness: g.rng.Intn(2) == 0}
}

func (g *hostileGen) frameEvents() []*hg.FrameEvent {
	switch g.rng.Intn(5) {
	case 0:
		return nil
	case 1:
		return []*hg.FrameEvent{}
	default:
		out := []*hg.FrameEvent{}
		for i := 0; i < 1+g.rng.Intn(4); i++ {
			out = append(out, g.frameEvent())
		}
		return out
	}
}

func (g *hostileGen) roots() map[string]*hg.Root {
	switch g.rng.Intn(5) {
	case 0:
		return nil
	case 1:
		return map[string]*hg.Root{}
	default:
		m := map[string]*hg.Root{}
		for i := 0; i < 1+g.rng.Intn(4); i++ {
			k := g.pubhex()
			if g.rng.Intn(5) == 0 {
				m[k] = nil
			} else {
				m[k] = &hg.Root{Events: g.frameEvents()}
			}
		}
		return m
	}
}

func (g *hostileGen) peerSets() map[int][]*peers.Peer {
	switch g.rng.Intn(5) {
	case 0:
		return nil
	case 1:
		return map[int][]*peers.Peer{}
	default:
		m := map[int][]*peers.Peer{}
		for i := 0; i < 1+g.rng.Intn(3); i++ {
			m[g.num()] = g.peerPtrs()
		}
		return m
	}
}

func (g *hostileGen) frame() hg.Frame {
	return hg.Frame{Round: g.num(), Peers: g.peerPtrs(), Roots: g.roots(), Events: g.frameEvents(), PeerSets: g.peerSets(), Timestamp: int64(g.num())}
}

func (g *hostileGen) block() hg.Block {
	b := hg.Block{Body: hg.BlockBody{Index: g.num(), RoundReceived: g.num(), Timestamp: int64(g.num()), StateHash: g.bytes(), FrameHash: g.bytes(), PeersHash: g.bytes(),
		Transactions: g.txs(), InternalTransactions: g.itxs()}}
	switch g.rng.Intn(4) {
	case 0:
		b.Signatures = nil
	case 1:
		b.Signatures = map[string]string{}
	default:
		b.Signatures = map[string]string{}
		for i := 0; i < 1+g.rng.Intn(4); i++ {
			b.Signatures[g.pubhex()] = g.sig()
		}
	}
	if g.rng.Intn(3) == 0 {
		for i := 0; i < 1+g.rng.Intn(2); i++ {
			it := g.itx()
			b.Body.InternalTransactionReceipts = append(b.Body.InternalTransactionReceipts, hg.InternalTransactionReceipt{InternalTransaction: it, Accepted: g.rng.Intn(2) == 0})
		}
	}
	return b
}

// request builds one hostile request command.
func (g *hostileGen) request() (string, interface{}) {
	switch g.rng.Intn(8) {
	case 0, 1:
		return "SyncRequest", &bnet.SyncRequest{FromID: g.id(), Known: g.known(), SyncLimit: g.num()}
	case 2, 3, 4:
		return "EagerSyncRequest", &bnet.EagerSyncRequest{FromID: g.id(), Events: g.wireEvents()}
	case 5, 6:
		return "JoinRequest", &bnet.JoinRequest{InternalTransaction: g.itx()}
	default:
		return "FastForwardRequest", &bnet.FastForwardRequest{FromID: g.id()}
	}
}

func describeCmd(name string, cmd interface{}) string {
	s := fmt.Sprintf("%s %+v", name, cmd)
	if len(s) > 1500 {
		s = s[:1500] + "..."
	}
	return s
}
