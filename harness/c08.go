package main

import (
	"fmt"
	"math/rand"
	"regexp"
	"runtime/debug"
	"strings"
	"time"

	hg "github.com/mosaicnetworks/babble/src/hashgraph"
	bnet "github.com/mosaicnetworks/babble/src/net"
	_state "github.com/mosaicnetworks/babble/src/node/state"
	"github.com/mosaicnetworks/babble/src/peers"
)

// ---------------------------------------------------------------------------
// C08: hostile network input, in-process tier (synchronous, with attribution)
// ---------------------------------------------------------------------------

var frameRe = regexp.MustCompile(`github\.com/mosaicnetworks/babble/src/([^\s(]+(?:\([^)]*\))?[^\s(]*)\(`)

// panicSite extracts the innermost Babble function from a stack trace.
func panicSite(stack string) string {
	lines := strings.Split(stack, "\n")
	for _, l := range lines {
		if strings.Contains(l, "github.com/mosaicnetworks/babble/src/") && !strings.Contains(l, "verif_hooks") && !strings.HasPrefix(strings.TrimSpace(l), "/") {
			l = strings.TrimSpace(l)
			if i := strings.LastIndex(l, "("); i > 0 {
				l = l[:i]
			}
			l = strings.TrimPrefix(l, "github.com/mosaicnetworks/babble/src/")
			if strings.HasPrefix(l, "node.(*Node).Verif") || strings.HasPrefix(l, "node.(*VerifCore)") {
				continue
			}
			return l
		}
	}
	return "unknown"
}

type guardResult struct {
	panicked bool
	val      interface{}
	stack    string
}

func guard(f func()) (g guardResult) {
	defer func() {
		if r := recover(); r != nil {
			g.panicked = true
			g.val = r
			g.stack = string(debug.Stack())
		}
	}()
	f()
	return
}

type c08ctx struct {
	cs             CaseSpec
	res            *CaseResult
	nw             *Network
	victim         *SimNode
	byz            *SimNode
	gen            *hostileGen
	rng            *rand.Rand
	before         map[int]string
	log            []string
	adoptedForgery bool
}

func (c *c08ctx) note(s string) {
	if len(s) > 700 {
		s = s[:700] + "..."
	}
	c.log = append(c.log, s)
	if len(c.log) > 12 {
		c.log = c.log[len(c.log)-12:]
	}
}

func (c *c08ctx) reportPanic(kind, desc string, g guardResult) {
	site := panicSite(g.stack)
	c.res.violate("C08", "C08:panic@"+site,
		fmt.Sprintf("a %s made the node panic in %s: %v", kind, site, g.val),
		map[string]interface{}{"input": desc, "panic": fmt.Sprint(g.val), "stack": trimStack(g.stack), "recent_inputs": c.log})
}

func (c *c08ctx) snapshotBlocks() map[int]string {
	m := map[int]string{}
	v := c.victim
	for _, d := range v.App.Delivered {
		if b, err := v.Node.GetBlock(d.Index); err == nil {
			m[d.Index] = normBody(b.Body)
		}
	}
	return m
}

// signedHostileEvent builds an event on the Byzantine validator's chain as the
// victim knows it, with hostile payload, properly signed.
func (c *c08ctx) signedHostileEvent() (hg.WireEvent, bool) {
	return c.signedHostileEventOpt(false)
}

// signedHostileEventOpt: with fork set, the event does not extend the
// Byzantine validator's last event but an older one (an equivocation, which
// the victim must refuse without harm) and claims a hostile index.
func (c *c08ctx) signedHostileEventOpt(fork bool) (hg.WireEvent, bool) {
	v := c.victim
	st := v.Core.Hg().Store
	bp := c.byz.peer()
	last, err := st.LastEventFrom(bp.PubKeyString())
	spIdx := -1
	sp := ""
	if err == nil && last != "" {
		if ev, e := st.GetEvent(last); e == nil {
			sp = last
			spIdx = ev.Index()
		}
	}
	claimed := spIdx + 1
	if fork {
		if spIdx < 1 {
			return hg.WireEvent{}, false
		}
		older := c.gen.rng.Intn(spIdx) // an index strictly below the last one
		evs, err := st.ParticipantEvents(bp.PubKeyString(), older-1)
		if err != nil || len(evs) == 0 {
			return hg.WireEvent{}, false
		}
		sp, spIdx = evs[0], older
		claimed = []int{older + 1, 1 << 30, 1<<31 - 1, spIdx + 2, -1, older}[c.gen.rng.Intn(6)]
		c.res.count("hostile_forked_events_of_a_byzantine_validator", 1)
	}
	// other parent: victim's own last event
	op := ""
	opIdx := -1
	var opCreator uint32
	if l, err := st.LastEventFrom(v.PubHex); err == nil && l != "" {
		if ev, e := st.GetEvent(l); e == nil {
			op, opIdx, opCreator = l, ev.Index(), v.ID
		}
	}
	g := c.gen
	var sigs []hg.BlockSignature
	for _, ws := range g.wireSigs() {
		sigs = append(sigs, hg.BlockSignature{Validator: keysPub(c.byz.Key), Index: ws.Index, Signature: ws.Signature})
	}
	var itxs []hg.InternalTransaction
	if g.rng.Intn(3) == 0 {
		// properly signed membership requests with hostile but verifiable content
		k := detKey(c.cs.Seed, "c08join", g.rng.Intn(1000))
		p := peers.NewPeer(pubHex(k), g.str(), "refuse-"+g.str()) // the application vets joiners: these are refused
		itx := hg.NewInternalTransaction(hg.TransactionType(g.rng.Intn(3)), *p)
		itx.Sign(k)
		itxs = append(itxs, itx)
	}
	ev := hg.NewEvent(g.txs(), itxs, sigs, []string{sp, op}, keysPub(c.byz.Key), claimed)
	ev.Body.Timestamp = int64(g.num())
	if err := ev.Sign(c.byz.Key); err != nil {
		return hg.WireEvent{}, false
	}
	w := hg.WireEvent{Signature: ev.Signature}
	w.Body.Transactions = ev.Body.Transactions
	w.Body.InternalTransactions = ev.Body.InternalTransactions
	for _, bs := range sigs {
		w.Body.BlockSignatures = append(w.Body.BlockSignatures, bs.ToWire())
	}
	w.Body.CreatorID = c.byz.ID
	w.Body.Index = claimed
	w.Body.SelfParentIndex = spIdx
	w.Body.OtherParentCreatorID = opCreator
	w.Body.OtherParentIndex = opIdx
	w.Body.Timestamp = ev.Body.Timestamp
	return w, true
}

func (c *c08ctx) sendRequest(name string, cmd interface{}) bool {
	desc := describeCmd(name, cmd)
	c.note(desc)
	c.res.Evaluations++
	c.res.count("hostile_requests", 1)
	c.res.count("hostile_"+name, 1)
	var wired interface{}
	// through the JSON encoding of the transport, like a remote sender
	switch t := cmd.(type) {
	case *bnet.SyncRequest:
		var x bnet.SyncRequest
		if wireCopy(t, &x) != nil {
			return true
		}
		wired = &x
	case *bnet.EagerSyncRequest:
		var x bnet.EagerSyncRequest
		if wireCopy(t, &x) != nil {
			return true
		}
		wired = &x
	case *bnet.JoinRequest:
		var x bnet.JoinRequest
		if wireCopy(t, &x) != nil {
			return true
		}
		wired = &x
	case *bnet.FastForwardRequest:
		var x bnet.FastForwardRequest
		if wireCopy(t, &x) != nil {
			return true
		}
		wired = &x
	default:
		wired = cmd
	}
	ch := make(chan bnet.RPCResponse, 1)
	g := guard(func() { c.victim.Node.VerifProcessRPC(bnet.RPC{Command: wired, RespChan: ch}) })
	if g.panicked {
		c.reportPanic("hostile "+name, desc, g)
		return false
	}
	select {
	case r := <-ch:
		if r.Error != nil {
			c.res.count("hostile_requests_answered_with_error", 1)
		} else {
			c.res.count("hostile_requests_answered_ok", 1)
		}
	default:
		c.res.violate("C08", "C08:request-not-answered", "the node neither answered nor refused a "+name, map[string]interface{}{"input": desc})
		return false
	}
	return true
}

// liveCheck: a valid exchange with an honest companion must still work and
// delivered blocks must be unchanged.
func (c *c08ctx) liveCheck(when string) bool {
	nw := c.nw
	v := c.victim
	var comp *SimNode
	for _, n := range nw.Nodes {
		if n != v && n != c.byz && n.babbling() && !n.Silent {
			comp = n
			break
		}
	}
	if comp == nil {
		return true
	}
	c.res.count("liveness_probes_after_hostile_input", 1)
	if v.Node.GetState() == _state.Babbling {
		var err error
		g := guard(func() { err = nw.Gossip(comp, v.peer(), Fault{}, 0) })
		if g.panicked {
			c.reportPanic("valid exchange after hostile input ("+when+")", "gossip honest->victim", g)
			return false
		}
		if err != nil {
			c.res.violate("C08", "C08:valid-exchange-fails-after-hostile-input",
				fmt.Sprintf("after hostile input (%s) a valid gossip exchange with the node fails: %v", when, err), map[string]interface{}{"recent_inputs": c.log, "direction": "honest pulls from / pushes to victim", "diag": c.diagnose(comp)})
			return false
		}
		g = guard(func() { err = nw.Gossip(v, comp.peer(), Fault{}, 0) })
		if g.panicked {
			c.reportPanic("valid exchange after hostile input ("+when+")", "gossip victim->honest", g)
			return false
		}
		if err != nil {
			c.res.violate("C08", "C08:valid-exchange-fails-after-hostile-input",
				fmt.Sprintf("after hostile input (%s) the node can no longer gossip with an honest peer: %v", when, err), map[string]interface{}{"recent_inputs": c.log})
			return false
		}
	}
	for idx, want := range c.before {
		b, err := v.Node.GetBlock(idx)
		if err != nil || normBody(b.Body) != want {
			c.res.violate("C08", "C08:delivered-block-changed-by-hostile-input",
				fmt.Sprintf("after hostile input (%s) delivered block %d changed or became unreadable", when, idx), map[string]interface{}{"recent_inputs": c.log})
			return false
		}
	}
	return true
}

func runC08(cs CaseSpec) *CaseResult {
	res := newResult(cs)
	rng := cs.rng("c08")
	nw := NewNetwork(cs, res)
	defer nw.Close()
	opts := defaultOpts()
	nw.DefaultOpts = opts
	n := 4
	nw.GenesisNodes(n, opts, nil)
	// the hostile grammar is not about suspension
	nw.CheckSuspendAfterGossip = false
	warm := ScheduleSpec{Steps: int(cs.I("warm", 120)), Shape: "uniform", SubmitProb: 0.5, TxKinds: 2}
	if warm.Steps > 0 {
		nw.RunSchedule(warm)
	}
	if warm.Steps >= 5 {
		nw.FairCycles(10)
	}
	victim := nw.Nodes[0]
	byz := nw.Nodes[n-1]
	// The Byzantine validator's real node is switched off and the harness uses
	// its key. To keep the attack equivocation-free (forks are outside C08's
	// quantifier) the victim first learns every event that node ever created.
	for i := 0; i < 4; i++ {
		nw.Pull(victim, byz.peer(), Fault{}, 0)
		if victim.Core.KnownEvents()[byz.ID] == byz.Core.KnownEvents()[byz.ID] {
			break
		}
	}
	if victim.Core.KnownEvents()[byz.ID] != byz.Core.KnownEvents()[byz.ID] {
		res.inconclusive("victim could not catch up with the Byzantine validator's chain before the attack")
		return res
	}
	byz.Silent = true
	c := &c08ctx{cs: cs, res: res, nw: nw, victim: victim, byz: byz, rng: rng}
	g := &hostileGen{rng: rng}
	for _, x := range nw.Nodes {
		g.validIDs = append(g.validIDs, x.ID)
		g.validPub = append(g.validPub, x.PubHex)
	}
	g.maxIndex = 50
	if len(nw.Rec.Order) > 0 {
		g.goodSig = nw.Rec.Order[len(nw.Rec.Order)-1].Signature
	}
	c.gen = g
	c.before = c.snapshotBlocks()
	res.count("victim_blocks_before_attack", int64(len(c.before)))
	victim.Conf.JoinTimeout = 20 * time.Millisecond

	kind := cs.Str("mode", "requests")
	msgs := int(cs.I("msgs", 300))
	ok := true
	switch kind {
	case "requests":
		if cs.I("suspended", 0) == 1 {
			victim.Node.Suspend()
		}
		for i := 0; i < msgs && ok; i++ {
			var name string
			var cmd interface{}
			switch {
			case i%5 == 4:
				if w, good := c.signedHostileEventOpt(i%15 == 9); good {
					evs := []hg.WireEvent{w}
					if rng.Intn(3) == 0 {
						evs = append(evs, g.wireEvent())
					}
					name, cmd = "EagerSyncRequest(signed by a Byzantine validator)", &bnet.EagerSyncRequest{FromID: byz.ID, Events: evs}
				} else {
					name, cmd = g.request()
				}
			case i%37 == 36:
				name, cmd = "unknown command type", "not a command"
			case i%11 == 7:
				// well-formed, validly signed join requests: by a key that is already a
				// member (replayed join), by a stranger the application will refuse
				var k *SimKey
				moniker := "refuse-again"
				if rng.Intn(2) == 0 {
					k = &SimKey{nw.Nodes[rng.Intn(len(nw.Nodes))].Key}
				} else {
					k = &SimKey{detKey(cs.Seed, "c08validjoin", i)}
				}
				itx := hg.NewInternalTransactionJoin(*peers.NewPeer(pubHex(k.K), "x:1", moniker))
				name = "JoinRequest(validly signed)"
				if rng.Intn(2) == 0 {
					// a request type that does not exist (or a removal sent as a join
					// request), under a perfectly valid signature
					itx.Body.Type = hg.TransactionType([]int{1, 2, 7, 200}[rng.Intn(4)])
					name = fmt.Sprintf("JoinRequest(validly signed, request type %d)", itx.Body.Type)
				}
				itx.Sign(k.K)
				cmd = &bnet.JoinRequest{InternalTransaction: itx}
			default:
				name, cmd = g.request()
			}
			ok = c.sendRequest(name, cmd)
			if ok && i%25 == 24 {
				ok = c.liveCheck(fmt.Sprintf("after %d hostile requests", i+1))
			}
		}
	case "responses":
		ok = c.runResponses(msgs)
	case "fastforward":
		ok = c.runFastForwardResponses(msgs)
	case "join":
		ok = c.runJoinResponses(msgs)
	}
	if ok && !c.adoptedForgery {
		ok = c.liveCheck("end of batch")
	}
	victim = c.victim
	if ok && !c.adoptedForgery && victim.Node.GetState() == _state.Babbling {
		// the node must still be able to commit new transactions with the honest majority
		tx := nw.NewTx(victim.Idx, 0)
		nw.Submit(victim, tx)
		// (idleness is not required: a Byzantine validator's last event that nobody
		// built upon legitimately stays undetermined and keeps nodes "busy")
		gr := guard(func() {
			for k := 0; k < 40 && !committedBy(victim, tx); k++ {
				nw.FairCycles(1)
			}
		})
		if gr.panicked {
			c.reportPanic("valid gossip after hostile input", "fair cycles", gr)
		} else if !committedBy(victim, tx) {
			res.violate("C08", "C08:node-cannot-make-progress-after-hostile-input",
				"after the hostile batch a transaction submitted to the node is not committed within 40 fair cycles with the honest majority", map[string]interface{}{"recent_inputs": c.log, "diag": progressDiag(nw, tx)})
		} else {
			res.count("progress_probes_passed", 1)
		}
	}
	if res.Evaluations >= 20 {
		res.digest("c08", cs.Seed, cs.Index, kind, res.Evaluations)
	}
	res.Sample = map[string]interface{}{"kind": "hostile batch", "mode": kind, "messages": res.Evaluations, "last_inputs": c.log}
	return res
}

func committedBy(n *SimNode, tx []byte) bool {
	for _, d := range n.App.Delivered {
		for _, t := range d.Body.Transactions {
			if string(t) == string(tx) {
				return true
			}
		}
	}
	return false
}

// runResponses: the victim pulls from / pushes to a Byzantine peer that answers
// with hostile responses.
func (c *c08ctx) runResponses(msgs int) bool {
	g := c.gen
	byz := c.byz
	byz.Silent = false
	var next interface{}
	byz.Responder = func(from *SimNode, cmd interface{}) (interface{}, error) {
		switch cmd.(type) {
		case *bnet.SyncRequest, *bnet.EagerSyncRequest:
			r := next
			var err error
			if g.rng.Intn(6) == 0 {
				err = fmt.Errorf("%s", g.str())
			}
			return r, err
		}
		return nil, fmt.Errorf("no")
	}
	defer func() { byz.Responder = nil; byz.Silent = true }()
	for i := 0; i < msgs; i++ {
		c.res.Evaluations++
		if i%3 != 2 {
			evs := g.wireEvents()
			fromID := g.id()
			if i%4 == 1 {
				if w, good := c.signedHostileEventOpt(i%8 == 5); good {
					evs = append([]hg.WireEvent{w}, evs...)
					if i%8 == 5 {
						fromID = byz.ID // the response really comes from the equivocating validator
					}
				}
			}
			resp := &bnet.SyncResponse{FromID: fromID, Events: evs, Known: g.known()}
			next = resp
			desc := describeCmd("SyncResponse", resp)
			c.note(desc)
			c.res.count("hostile_SyncResponse", 1)
			gr := guard(func() { c.victim.Node.VerifGossip(byz.peer()) })
			if gr.panicked {
				c.reportPanic("hostile SyncResponse (victim pulling from a Byzantine peer)", desc, gr)
				return false
			}
		} else {
			known := g.known()
			next = &bnet.EagerSyncResponse{FromID: g.id(), Success: g.rng.Intn(2) == 0}
			desc := fmt.Sprintf("push with the peer's claimed known map %v", known)
			c.note(desc)
			c.res.count("hostile_known_map_for_push", 1)
			gr := guard(func() { c.victim.Node.VerifPush(byz.peer(), known) })
			if gr.panicked {
				c.reportPanic("hostile known-events map (victim pushing to a Byzantine peer)", desc, gr)
				return false
			}
		}
		if i%25 == 24 && !c.liveCheck(fmt.Sprintf("after %d hostile responses", i+1)) {
			return false
		}
	}
	return true
}

// runFastForwardResponses: a catching-up node asks a Byzantine peer.
func (c *c08ctx) runFastForwardResponses(msgs int) bool {
	nw := c.nw
	g := c.gen
	byz := c.byz
	// a validator that lost its data restarts with fast-sync enabled
	cu := nw.Nodes[1]
	o := cu.Opts
	o.FastSync = true
	cur := clonePeers(nw.Nodes[0].Core.Peers().Peers)
	if err := nw.startNode(cu, o, cur, clonePeers(nw.Genesis)); err != nil {
		c.res.inconclusive("cannot restart node: " + err.Error())
		return false
	}
	if cu.Node.GetState() != _state.CatchingUp {
		c.res.inconclusive("node not catching up")
		return false
	}
	c.victim = cu
	c.before = map[int]string{}
	byz.Silent = false
	var next *bnet.FastForwardResponse
	byz.Responder = func(from *SimNode, cmd interface{}) (interface{}, error) {
		if _, ok := cmd.(*bnet.FastForwardRequest); ok {
			return next, nil
		}
		return nil, fmt.Errorf("no")
	}
	nw.FFServe = map[int]bool{byz.Idx: true}
	defer func() { byz.Responder = nil; byz.Silent = true; nw.FFServe = nil }()
	// a valid response to mutate
	var valid *bnet.FastForwardResponse
	if b, f, err := nw.Nodes[0].Core.GetAnchorBlockWithFrame(); err == nil {
		valid = &bnet.FastForwardResponse{FromID: nw.Nodes[0].ID}
		wireCopy(b, &valid.Block)
		wireCopy(f, &valid.Frame)
		valid.Snapshot, _ = nw.Nodes[0].App.SnapshotHandler(b.Index())
	}
	for i := 0; i < msgs; i++ {
		c.res.Evaluations++
		resp := &bnet.FastForwardResponse{FromID: g.id(), Block: g.block(), Frame: g.frame(), Snapshot: g.bytes()}
		if valid != nil && i%2 == 1 {
			// a valid response with one component replaced by a hostile one
			var cp bnet.FastForwardResponse
			wireCopy(valid, &cp)
			switch g.rng.Intn(9) {
			case 0:
				cp.Frame.Peers = g.peerPtrs()
			case 1:
				cp.Frame.Roots = g.roots()
			case 2:
				cp.Frame.Events = g.frameEvents()
			case 3:
				cp.Frame.PeerSets = g.peerSets()
			case 4:
				cp.Block.Signatures = g.block().Signatures
			case 5:
				for k := range cp.Block.Signatures {
					cp.Block.Signatures[k] = g.sig()
				}
			case 6:
				cp.Block.Body.InternalTransactionReceipts = g.block().Body.InternalTransactionReceipts
			case 7:
				if len(cp.Frame.Events) > 0 {
					cp.Frame.Events[g.rng.Intn(len(cp.Frame.Events))] = g.frameEvent()
				}
			case 8:
				if len(cp.Frame.Peers) > 0 {
					cp.Frame.Peers[g.rng.Intn(len(cp.Frame.Peers))] = nil
				}
			}
			resp = &cp
		}
		if i%3 == 2 {
			// a response that passes every check: the Byzantine validator (whom the
			// victim knows) declares a validator set consisting of itself, signs the
			// block itself, and the block commits to whatever hostile frame it ships
			if fr := c.consistentForgery(); fr != nil {
				resp = fr
				c.res.count("hostile_FastForwardResponse_passing_all_checks", 1)
			}
		}
		if resp.Block.Body.Index <= 0 {
			// getBestFastForwardResponse only considers blocks above 0
			resp.Block.Body.Index = 1 + g.rng.Intn(1000)
		}
		next = resp
		desc := describeCmd("FastForwardResponse", resp)
		c.note(desc)
		c.res.count("hostile_FastForwardResponse", 1)
		gr := guard(func() { cu.Node.VerifFastForward() })
		if gr.panicked {
			c.reportPanic("hostile FastForwardResponse (catching-up node asking a Byzantine peer)", desc, gr)
			return false
		}
		if cu.Node.GetState() != _state.CatchingUp {
			// adopted or fell back to babbling: put it back for the next attempt
			if cu.Node.GetLastBlockIndex() >= 0 {
				// A response that satisfies the acceptance rule was adopted (a validator the
				// node knows declared a set made of itself: the documented limit of the C14
				// repair, see DESIGN). From here on the victim runs on a forged state, so
				// "it still makes progress with the honest majority" is no longer a claim
				// C08 makes about it; only crashes are judged for the rest of the batch.
				c.adoptedForgery = true
				c.res.count("victim_adopted_a_rule_satisfying_forgery", 1)
				// what its background loop does next: ask the peer selector for a
				// gossip target, gossip, record the outcome, ask again
				gr := guard(func() {
					for k := 0; k < 3; k++ {
						p := cu.Core.SelectorNext()
						if p == nil {
							cu.Node.VerifMonologue()
							continue
						}
						err := cu.Node.VerifGossip(p)
						cu.Core.SelectorUpdateLast(p.ID(), err == nil)
					}
				})
				c.res.count("gossip_rounds_after_an_adopted_forgery", 1)
				seenP := map[string]bool{}
				for _, p := range resp.Frame.Peers {
					if p != nil && seenP[p.PubKeyString()] {
						c.res.count("gossip_rounds_after_an_adopted_forgery_listing_a_validator_twice", 1)
						break
					}
					if p != nil {
						seenP[p.PubKeyString()] = true
					}
				}
				if gr.panicked {
					c.reportPanic("gossip loop after a hostile FastForwardResponse that passes every check", desc, gr)
					return false
				}
			}
			cu.Node.VerifTransition(_state.CatchingUp)
		}
	}
	return true
}

// runJoinResponses: a joining node gets hostile join responses.
func (c *c08ctx) runJoinResponses(msgs int) bool {
	nw := c.nw
	g := c.gen
	for i := 0; i < msgs; i++ {
		c.res.Evaluations++
		sn := nw.addIdentity(fmt.Sprintf("j%d", i))
		cur := clonePeers(nw.Nodes[0].Core.Peers().Peers)
		if err := nw.startNode(sn, nw.DefaultOpts, cur, clonePeers(nw.Genesis)); err != nil {
			continue
		}
		sn.Up = false
		resp := &bnet.JoinResponse{FromID: g.id(), Accepted: g.rng.Intn(4) != 0, AcceptedRound: g.num(), Peers: g.peerPtrs()}
		if i%4 == 1 {
			// a peer list that names real validators, one of them several times
			a, b := nw.Nodes[0].peer(), nw.Nodes[2].peer()
			resp.Accepted = true
			resp.AcceptedRound = 0
			resp.Peers = [][]*peers.Peer{{a, a}, {a, b, a}, {a, a, a, b}, {b, a, sn.peer(), a}}[g.rng.Intn(4)]
			c.res.count("hostile_JoinResponse_listing_a_peer_twice", 1)
		}
		desc := describeCmd("JoinResponse", resp)
		c.note(desc)
		c.res.count("hostile_JoinResponse", 1)
		nw.joinDirect = func(target string, args *bnet.JoinRequest, out *bnet.JoinResponse) error {
			return wireCopy(resp, out)
		}
		gr := guard(func() { sn.Node.VerifJoin() })
		nw.joinDirect = nil
		if gr.panicked {
			c.reportPanic("hostile JoinResponse", desc, gr)
			return false
		}
		// the joiner then starts babbling / catching up with what it was told
		if sn.Node.GetState() == _state.Babbling {
			gr = guard(func() { sn.Node.VerifGossip(nw.Nodes[0].peer()) })
			if gr.panicked {
				c.reportPanic("gossip after a hostile JoinResponse", desc, gr)
				return false
			}
			// and what its background loop does: ask the real peer selector for
			// a target, gossip, record the outcome, ask again
			gr = guard(func() {
				for k := 0; k < 4; k++ {
					p := sn.Core.SelectorNext()
					c.res.count("peer_selections_after_a_hostile_JoinResponse", 1)
					if p == nil {
						continue
					}
					sn.Core.SelectorUpdateLast(p.ID(), k%2 == 0)
				}
			})
			if gr.panicked {
				c.reportPanic("peer selection after a hostile JoinResponse", desc, gr)
				return false
			}
		}
	}
	return true
}

func init() {
	crashHandlers["C08"] = func(r *CaseResult) *Violation {
		site := "unknown"
		if i := strings.Index(r.Note, "goroutine "); i >= 0 {
			site = panicSite(r.Note[i:])
		} else {
			site = panicSite(r.Note)
		}
		path := writeWitness(r.Case, "C08", "C08:process-died@"+site, "the process hosting the node died while handling hostile input", map[string]interface{}{"output": r.Note})
		return &Violation{Prop: "C08", Sig: "C08:process-died@" + site, Msg: "the process hosting the node died while handling hostile network input (panic outside any recover, fatal error or checkptr): " + firstLine(r.Note), Replay: path}
	}
	register(&PropDef{
		ID: "C08", Level: "exploration", Engine: "hostile",
		Rule:          "one case = one warmed-up 4-validator network (real nodes, ~120 steps of history) attacked with a seeded batch of ~300 hostile messages from a value grammar (strings: empty/short/odd hex/pipes/huge; ints: min,-1,0,1,huge; nil/empty/nil-element slices and maps; unknown ids): all four request types through the JSON wire copy into the real processRPC (babbling and suspended victims, plus events properly signed by a Byzantine validator with hostile block signatures / membership requests), hostile Sync/EagerSync responses and known-maps while the victim pulls/pushes, hostile FastForward responses to a catching-up node, hostile Join responses to a joining node, and raw byte streams on a real TCP transport; after every 25 messages a valid exchange with an honest companion must succeed and delivered blocks be unchanged, at the end a new transaction must still commit; non-trivial: >=20 hostile messages delivered; distinct by (seed,index,mode,count)",
		Assumptions:   []string{"in-process tier: one panic ends the case (the node's lock may be left held); the TCP tier runs real goroutines and a crash kills the worker, which is reported as a violation", "WebRTC transport not exercised"},
		MinNontrivial: 8,
		Cases: func(tier string, seed int64) []CaseSpec {
			count := 32
			msgs := int64(300)
			if tier == "thorough" {
				count, msgs = 320, 600
			}
			modes := []string{"requests", "responses", "requests", "fastforward", "requests", "join", "responses", "tcp"}
			cs := []CaseSpec{}
			for i := 0; i < count; i++ {
				c := CaseSpec{Kind: "hostile", P: map[string]int64{"msgs": msgs, "warm": int64(80 + (i*13)%120)}, S: map[string]string{"mode": modes[i%len(modes)]}}
				if i%8 == 2 || i%8 == 6 {
					c.P["warm"] = int64(i % 3) // victims that have not decided any round yet
				}
				if modes[i%len(modes)] == "requests" && i%6 == 4 {
					c.P["suspended"] = 1
				}
				if c.S["mode"] == "join" {
					c.P["msgs"] = msgs / 4
				}
				cs = append(cs, c)
			}
			// raw streams and hostile messages against real running nodes, in a
			// worker built with the race detector (which also turns on checkptr)
			for i := 0; i < raceSoaks(tier); i++ {
				cs = append(cs, CaseSpec{Kind: "hostile", P: map[string]int64{"msgs": msgs / 2, "warm": int64(80 + (i*13)%120)}, S: map[string]string{"mode": "tcp", "race": "1"}})
			}
			return cs
		},
		Run: func(cs CaseSpec) *CaseResult {
			if cs.Str("mode", "") == "tcp" {
				return runC08TCP(cs)
			}
			return runC08(cs)
		},
		PerCaseTimeout: 10 * time.Minute,
	})
}

// diagnose lists the events the victim holds that the companion lacks, with
// their verification status when rebuilt from the wire form.
func (c *c08ctx) diagnose(comp *SimNode) interface{} {
	out := []map[string]interface{}{}
	diff, err := c.victim.Core.EventDiff(comp.Core.KnownEvents())
	if err != nil {
		return err.Error()
	}
	for _, ev := range diff {
		w := ev.ToWire()
		d := map[string]interface{}{"hash": ev.Hex(), "creator_is_byz": ev.Creator() == c.byz.PubHex, "index": ev.Index(), "wire": fmt.Sprintf("%+v", w)}
		var w2 hg.WireEvent
		wireCopy(w, &w2)
		evs, err := comp.Core.FromWire([]hg.WireEvent{w2})
		if err != nil {
			d["fromwire_err"] = err.Error()
		} else {
			d["rebuilt_hash"] = evs[0].Hex()
			ok, verr := evs[0].Verify()
			d["rebuilt_verifies"] = fmt.Sprint(ok, verr)
			d["body"] = fmt.Sprintf("%+v", ev.Body)
			d["rebuilt_body"] = fmt.Sprintf("%+v", evs[0].Body)
		}
		out = append(out, d)
		if len(out) > 6 {
			break
		}
	}
	return out
}

func progressDiag(nw *Network, tx []byte) interface{} {
	out := []map[string]interface{}{}
	for _, n := range nw.Nodes {
		if n.Node == nil {
			continue
		}
		h := n.Core.Hg()
		d := map[string]interface{}{"idx": n.Idx, "state": n.Node.GetState().String(), "silent": n.Silent, "busy": n.Core.Busy(), "known": fmt.Sprint(n.Core.KnownEvents()),
			"undetermined": len(h.UndeterminedEvents), "pending_rounds": fmt.Sprint(h.VerifPendingRounds()), "last_round": h.Store.LastRound(), "lcr": n.Node.GetLastConsensusRoundIndex(),
			"validators": n.Core.Validators().Len(), "pool": len(n.Core.TransactionPool()), "loaded": h.PendingLoadedEvents, "itxpool": len(n.Core.InternalTransactionPool()), "selfsigs": len(n.Core.SelfBlockSignatures()), "rounds": fmt.Sprint(n.Core.Rounds()), "resets": n.ResetEpochs, "insert_failed_step": n.InsertFailedStep, "last_block": n.Node.GetLastBlockIndex(), "sigpool": h.PendingSignatures.Len()}
		if tx != nil {
			d["trace"] = traceTx(nw, n, tx)
		}
		lu := []string{}
		for _, u := range h.UndeterminedEvents {
			if ev, err := h.Store.GetEvent(u); err == nil && ev.IsLoaded() {
				c := -1
				if sn := nw.nodeByPub(ev.Creator()); sn != nil {
					c = sn.Idx
				}
				r, _ := h.VerifRound(u)
				extra := ""
				if re := nw.Rec.Events[u]; re != nil {
					kids := 0
					for _, o := range nw.Rec.Order {
						if o.SelfParent == u || o.OtherParent == u {
							kids++
						}
					}
					extra = fmt.Sprintf(" first_node=%d first_step=%d children_anywhere=%d", re.FirstNode, re.FirstStep, kids)
				}
				lu = append(lu, fmt.Sprintf("creator=%d index=%d round=%d txs=%d itxs=%d%s", c, ev.Index(), r, len(ev.Transactions()), len(ev.InternalTransactions()), extra))
			}
		}
		d["loaded_undetermined"] = lu
		for _, pr := range h.VerifPendingRounds() {
			if ri, err := h.Store.GetRound(pr[0]); err == nil {
				ws := []string{}
				for _, w := range ri.Witnesses() {
					_, f := ri.VerifFame(w)
					ev, _ := h.Store.GetEvent(w)
					c := -1
					if ev != nil {
						if sn := nw.nodeByPub(ev.Creator()); sn != nil {
							c = sn.Idx
						}
					}
					ws = append(ws, fmt.Sprintf("%d:%s", c, f))
				}
				d[fmt.Sprintf("round_%d_witnesses", pr[0])] = ws
			}
			break
		}
		out = append(out, d)
	}
	return out
}

// consistentForgery builds a fast-forward response whose block is correctly
// signed by the (known) Byzantine validator alone, over a validator set made
// of itself only, and whose frame hash matches a frame with hostile content.
func (c *c08ctx) consistentForgery() *bnet.FastForwardResponse {
	g := c.gen
	byzPeer := c.byz.peer()
	f := g.frame()
	f.Peers = []*peers.Peer{byzPeer}
	switch g.rng.Intn(5) {
	case 1:
		// the same validator listed several times
		f.Peers = []*peers.Peer{byzPeer, byzPeer}
		c.res.count("hostile_FastForwardResponse_listing_a_validator_twice", 1)
	case 2:
		f.Peers = []*peers.Peer{byzPeer, c.victim.peer(), byzPeer}
		c.res.count("hostile_FastForwardResponse_listing_a_validator_twice", 1)
	}
	switch g.rng.Intn(4) {
	case 0:
		f.Round = g.rng.Intn(100)
	case 1:
		f.PeerSets = map[int][]*peers.Peer{0: {byzPeer}}
	}
	var fh []byte
	ok := true
	gr := guard(func() {
		var err error
		fh, err = f.Hash()
		if err != nil {
			ok = false
		}
	})
	if gr.panicked || !ok {
		return nil
	}
	b := hg.NewBlock(1+g.rng.Intn(1000), f.Round, fh, f.Peers, g.txs(), nil, int64(g.num()))
	if b == nil {
		return nil
	}
	if g.rng.Intn(3) == 0 {
		b.Body.InternalTransactionReceipts = g.block().Body.InternalTransactionReceipts
	}
	sig, err := b.Sign(c.byz.Key)
	if err != nil {
		return nil
	}
	b.SetSignature(sig)
	out := &bnet.FastForwardResponse{FromID: c.byz.ID, Snapshot: g.bytes()}
	if wireCopy(b, &out.Block) != nil {
		return nil
	}
	out.Frame = f
	return out
}
