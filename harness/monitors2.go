package main

import (
	"bytes"
	"fmt"
	"sort"

	hg "github.com/mosaicnetworks/babble/src/hashgraph"
	"github.com/mosaicnetworks/babble/src/peers"
)

// ---------------------------------------------------------------------------
// C04 committed order extends causality; events whole and once
// ---------------------------------------------------------------------------

type causState struct {
	processed int
	committed map[string]int // event hash -> commit position
	closed    map[string]bool
	pos       int
	blockOf   map[string]int // event hash -> index of the block that committed it
	epoch     int
}

type MonCausality struct {
	st map[*App]*causState
}

func NewMonCausality() *MonCausality { return &MonCausality{st: map[*App]*causState{}} }
func (m *MonCausality) Name() string { return "causality" }

func (m *MonCausality) AfterStep(nw *Network) {
	for _, n := range nw.Nodes {
		if n.Node == nil || n.Puppet || n.App == nil || n.StoreClosed {
			continue
		}
		app := n.App
		s := m.st[app]
		if s == nil {
			s = &causState{committed: map[string]int{}, closed: map[string]bool{}, blockOf: map[string]int{}}
			m.st[app] = s
		}
		for i := s.processed; i < len(app.Delivered); i++ {
			d := app.Delivered[i]
			if d.Epoch != s.epoch {
				// the application was restored to the snapshot of a fast-sync anchor:
				// what it had received in blocks after the anchor is undone and will be
				// delivered again
				s.epoch = d.Epoch
				if a, ok := n.AnchorAtReset[d.Epoch]; ok {
					for h, b := range s.blockOf {
						if b > a {
							delete(s.committed, h)
							delete(s.blockOf, h)
							delete(s.closed, h)
							nw.Res.count("causality_commitments_undone_by_a_restore", 1)
						}
					}
				}
			}
			if !m.checkBlock(nw, n, s, d) {
				return
			}
		}
		s.processed = len(app.Delivered)
	}
}

func (m *MonCausality) checkBlock(nw *Network, n *SimNode, s *causState, d *Delivered) bool {
	h := n.Core.Hg()
	rr := d.Body.RoundReceived
	frame, err := h.Store.GetFrame(rr)
	if err != nil {
		nw.Res.count("causality_frames_unavailable", 1)
		return true
	}
	nw.Res.count("causality_blocks_checked", 1)
	// (3) block payload == concatenation of the frame events' payloads (from the harness's record)
	var want [][]byte
	var wantItx []hg.InternalTransaction
	inFrame := map[string]bool{}
	for _, fe := range frame.Events {
		hash := fe.Core.Hex()
		inFrame[hash] = true
		re := nw.Rec.Events[hash]
		if re == nil {
			// event the harness never saw in any store: use the frame's copy
			nw.Res.count("causality_frame_events_unrecorded", 1)
			want = append(want, fe.Core.Transactions()...)
			wantItx = append(wantItx, fe.Core.InternalTransactions()...)
			continue
		}
		want = append(want, re.Txs...)
		wantItx = append(wantItx, re.Itxs...)
		// event's own round-received as the node records it
		if ev, err := h.Store.GetEvent(hash); err == nil {
			if er := ev.VerifRoundReceived(); er != nil && *er != rr {
				nw.violate("C04", "C04:frame-event-other-round-received",
					fmt.Sprintf("node %d: block %d (round-received %d) contains event %s whose round-received is %d", n.Idx, d.Index, rr, hash[:12], *er), map[string]interface{}{"node": n.Idx})
				return false
			}
		}
	}
	if !sameTxs(want, d.Body.Transactions) {
		nw.violate("C04", "C04:block-payload-not-concatenation",
			fmt.Sprintf("node %d: transactions of block %d are not the concatenation of the payloads of its frame's events in frame order", n.Idx, d.Index),
			map[string]interface{}{"node": n.Idx, "block": describeDelivered(d), "expected_tx_count": len(want), "frame_events": len(frame.Events)})
		return false
	}
	if len(wantItx) != len(d.Body.InternalTransactions) {
		nw.violate("C04", "C04:block-itx-not-concatenation",
			fmt.Sprintf("node %d: internal transactions of block %d do not match its frame's events", n.Idx, d.Index), map[string]interface{}{"node": n.Idx})
		return false
	}
	// every event the node marks received in rr is in the frame
	if ri, err := h.Store.GetRound(rr); err == nil {
		for _, eh := range ri.ReceivedEvents {
			if !inFrame[eh] {
				nw.violate("C04", "C04:received-event-missing-from-frame",
					fmt.Sprintf("node %d: event %s is marked received in round %d but is not in that round's frame", n.Idx, eh[:12], rr), map[string]interface{}{"node": n.Idx})
				return false
			}
		}
		if len(ri.ReceivedEvents) != len(frame.Events) {
			nw.violate("C04", "C04:frame-size-mismatch",
				fmt.Sprintf("node %d: round %d has %d received events but its frame lists %d", n.Idx, rr, len(ri.ReceivedEvents), len(frame.Events)), map[string]interface{}{"node": n.Idx})
			return false
		}
	}
	// (1)+(2) order: walk the frame in order
	for _, fe := range frame.Events {
		hash := fe.Core.Hex()
		if p, dup := s.committed[hash]; dup {
			nw.violate("C04", "C04:event-committed-twice",
				fmt.Sprintf("node %d: event %s committed at position %d and again in block %d", n.Idx, hash[:12], p, d.Index), map[string]interface{}{"node": n.Idx})
			return false
		}
		s.pos++
		s.committed[hash] = s.pos
		s.blockOf[hash] = d.Index
		re := nw.Rec.Events[hash]
		if re == nil || !re.loaded() {
			continue
		}
		// every payload-carrying ancestor must already be committed
		stack := nw.Rec.parents(hash)
		var visited []string
		for len(stack) > 0 {
			a := stack[len(stack)-1]
			stack = stack[:len(stack)-1]
			if s.closed[a] {
				continue
			}
			s.closed[a] = true
			visited = append(visited, a)
			ra := nw.Rec.Events[a]
			if ra == nil {
				continue // below what the harness recorded (e.g. before a reset)
			}
			nw.Res.count("causality_ancestor_checks", 1)
			if ra.loaded() {
				if _, ok := s.committed[a]; !ok {
					if n.ResetEpochs > 0 {
						// a fast-forwarded node does not deliver what was committed before its anchor
						continue
					}
					nw.violate("C04", "C04:ancestor-committed-later-or-never",
						fmt.Sprintf("node %d: event %s (block %d) was committed before its payload-carrying ancestor %s", n.Idx, hash[:12], d.Index, a[:12]),
						map[string]interface{}{"node": n.Idx, "event": hash, "ancestor": a, "block": describeDelivered(d)})
					return false
				}
			}
			stack = append(stack, nw.Rec.parents(a)...)
		}
		_ = visited
	}
	return true
}

func sameTxs(a, b [][]byte) bool {
	if len(a) != len(b) {
		return false
	}
	for i := range a {
		if !bytes.Equal(a[i], b[i]) {
			return false
		}
	}
	return true
}

func (m *MonCausality) Finish(nw *Network) {}

// ---------------------------------------------------------------------------
// C05 transaction integrity
// ---------------------------------------------------------------------------

type MonTxIntegrity struct {
	processed  map[*App]int
	committed  map[*App]map[string]int
	ownSeen    int
	ownPayload map[[2]int]map[string]int // (node idx, incarnation) -> tx -> count in own events
	ownCount   map[[2]int]int
	// StrictPool enables the per-step conservation equation
	StrictPool bool
	lost       map[int]bool // nodes whose pool was legitimately lost (restart)
}

func NewMonTxIntegrity() *MonTxIntegrity {
	return &MonTxIntegrity{processed: map[*App]int{}, committed: map[*App]map[string]int{}, ownPayload: map[[2]int]map[string]int{}, ownCount: map[[2]int]int{}, StrictPool: true, lost: map[int]bool{}}
}
func (m *MonTxIntegrity) Name() string { return "txintegrity" }

func (m *MonTxIntegrity) AfterStep(nw *Network) {
	// own events' payload per creator, from the recorder
	for ; m.ownSeen < len(nw.Rec.Order); m.ownSeen++ {
		e := nw.Rec.Order[m.ownSeen]
		if e.CreatorIdx < 0 {
			continue
		}
		ck := [2]int{e.CreatorIdx, e.CreatorInc}
		mp := m.ownPayload[ck]
		if mp == nil {
			mp = map[string]int{}
			m.ownPayload[ck] = mp
		}
		for _, tx := range e.Txs {
			mp[string(tx)]++
			m.ownCount[ck]++
		}
	}
	for _, n := range nw.Nodes {
		if n.Node == nil || n.Puppet || n.App == nil {
			continue
		}
		app := n.App
		cm := m.committed[app]
		if cm == nil {
			cm = map[string]int{}
			m.committed[app] = cm
		}
		for i := m.processed[app]; i < len(app.Delivered); i++ {
			d := app.Delivered[i]
			for _, tx := range d.Body.Transactions {
				nw.Res.count("tx_committed_observations", 1)
				k := string(tx)
				st, ok := nw.Submitted[k]
				if !ok {
					nw.violate("C05", "C05:committed-never-submitted",
						fmt.Sprintf("node %d: block %d contains a transaction that no application submitted: %q", n.Idx, d.Index, trunc(k, 60)),
						map[string]interface{}{"node": n.Idx, "block": describeDelivered(d)})
					return
				}
				cm[k]++
				if cm[k] > st.Count {
					nw.violate("C05", "C05:committed-more-than-submitted",
						fmt.Sprintf("node %d: transaction %q submitted %d time(s) but committed %d times (latest in block %d)", n.Idx, trunc(k, 60), st.Count, cm[k], d.Index),
						map[string]interface{}{"node": n.Idx, "block": describeDelivered(d)})
					return
				}
			}
		}
		m.processed[app] = len(app.Delivered)

		// conservation: submitted(X) == pool(X) (+) payload(own events of X)
		if m.StrictPool && n.Up && !m.lost[n.Idx] && !n.StoreClosed && !n.SelfInsertFaulted {
			nk := [2]int{n.Idx, n.Incarnation}
			sub := nw.Rec.SubmittedBy[nk]
			pool := n.Core.TransactionPool()
			nw.Res.count("tx_conservation_checks", 1)
			if len(sub) != len(pool)+m.ownCount[nk] {
				m.reportConservation(nw, n, sub, pool)
				return
			}
			if nw.Step%16 == 0 || len(sub) < 64 {
				cnt := map[string]int{}
				for _, tx := range sub {
					cnt[string(tx)]++
				}
				for _, tx := range pool {
					cnt[string(tx)]--
				}
				for k, c := range m.ownPayload[nk] {
					cnt[k] -= c
				}
				for _, c := range cnt {
					if c != 0 {
						m.reportConservation(nw, n, sub, pool)
						return
					}
				}
			}
		}
	}
}

func trunc(s string, k int) string {
	if len(s) > k {
		return s[:k] + "..."
	}
	return s
}

func (m *MonTxIntegrity) reportConservation(nw *Network, n *SimNode, sub, pool [][]byte) {
	cnt := map[string]int{}
	for _, tx := range sub {
		cnt[string(tx)]++
	}
	for _, tx := range pool {
		cnt[string(tx)]--
	}
	for k, c := range m.ownPayload[[2]int{n.Idx, n.Incarnation}] {
		cnt[k] -= c
	}
	lostTx, extra := []string{}, []string{}
	for k, c := range cnt {
		if c > 0 {
			lostTx = append(lostTx, trunc(k, 40))
		} else if c < 0 {
			extra = append(extra, trunc(k, 40))
		}
	}
	sort.Strings(lostTx)
	sort.Strings(extra)
	sig := "C05:accepted-transaction-dropped"
	msg := fmt.Sprintf("node %d: %d transaction(s) it accepted are neither pending in its pool nor in any of its events", n.Idx, len(lostTx))
	if len(lostTx) == 0 {
		sig = "C05:transaction-in-pool-and-event"
		msg = fmt.Sprintf("node %d: %d transaction(s) are both still pending and already placed in an event (or placed twice)", n.Idx, len(extra))
	}
	nw.violate("C05", sig, msg, map[string]interface{}{"node": n.Idx, "submitted": len(sub), "pool": len(pool), "in_own_events": m.ownCount[[2]int{n.Idx, n.Incarnation}], "lost": lostTx, "duplicated": extra})
}

// Finish: after the fair suffix every transaction accepted by a node that is
// still running must be committed exactly as often as it was submitted, by
// every full-history live node.
func (m *MonTxIntegrity) Finish(nw *Network) {
	if nw.stopped {
		return
	}
	live := []*SimNode{}
	for _, n := range nw.Nodes {
		if n.babbling() && !n.Silent && fullHistory(n) {
			live = append(live, n)
		}
	}
	if len(live) == 0 || !nw.idleAfterFair {
		return
	}
	for _, st := range nw.SubmitOrder {
		// the same bytes may have been submitted several times, at several nodes:
		// the copies accepted by nodes that kept running must all be committed,
		// those accepted by a node that was restarted, left or stopped may be
		mustHave := 0
		for k, c := range st.ByNode {
			sn := nw.Nodes[k[0]]
			if sn.babbling() && !m.lost[sn.Idx] && k[1] == sn.Incarnation && !sn.SelfInsertFaulted {
				mustHave += c
			}
		}
		if mustHave == 0 {
			continue // accepted only by nodes that did not keep running
		}
		for _, n := range live {
			c := m.committed[n.App][string(st.Bytes)]
			nw.Res.count("tx_final_exactly_once_checks", 1)
			if c < mustHave || c > st.Count {
				nw.violate("C05", "C05:not-exactly-once-after-fair-suffix",
					fmt.Sprintf("transaction %q (submitted %d time(s), %d of them accepted by nodes that kept running) is committed %d time(s) at node %d after the fair suffix", trunc(string(st.Bytes), 50), st.Count, mustHave, c, n.Idx),
					map[string]interface{}{"node": n.Idx, "submitted_at_step": st.Step, "by_node": fmt.Sprint(st.ByNode), "trace": traceTx(nw, n, st.Bytes)})
				return
			}
		}
	}
}

// ---------------------------------------------------------------------------
// C10 validator-set history is a replay of the blocks
// ---------------------------------------------------------------------------

type valState struct {
	processed      int
	rounds         []int                   // rounds at which a new set becomes effective (ascending)
	sets           map[int]map[string]bool // effective round -> set
	cur            map[string]bool
	epoch          int
	witnessScanned map[int]int
	base           int // first round this replay is valid for
}

type MonValidators struct {
	st map[*App]*valState
	// IncludeReset extends the check to fast-forwarded nodes (C13)
	IncludeReset bool
	Prop         string
	// Outsiders: for every block a full-history node delivers, a valid
	// signature over the node's own body of that block by every identity of the
	// network that is NOT in the replayed validator set of the block's round
	// (validators that left before, that join later, joiners not yet effective)
	// is put into the node's signature pool: it must never be recorded.
	Outsiders bool
}

func NewMonValidators() *MonValidators {
	return &MonValidators{st: map[*App]*valState{}, Prop: "C10"}
}
func (m *MonValidators) Name() string { return "validators" }

func copySet(s map[string]bool) map[string]bool {
	c := map[string]bool{}
	for k := range s {
		c[k] = true
	}
	return c
}

func (s *valState) at(r int) map[string]bool {
	res := s.sets[s.rounds[0]]
	for _, er := range s.rounds {
		if er <= r {
			res = s.sets[er]
		}
	}
	return res
}

func (m *MonValidators) AfterStep(nw *Network) {
	for _, n := range nw.Nodes {
		if n.Node == nil || n.Puppet || n.App == nil || n.StoreClosed || !n.Up {
			continue
		}
		if n.ResetEpochs > 0 && !m.IncludeReset {
			continue
		}
		if n.unjudgedAfterReset() {
			continue
		}
		app := n.App
		s := m.st[app]
		if s == nil || s.epoch != n.ResetEpochs {
			s = &valState{sets: map[int]map[string]bool{}, witnessScanned: map[int]int{}, epoch: n.ResetEpochs}
			if n.ResetEpochs == 0 {
				s.cur = pubSet(nw.Genesis)
				s.rounds = []int{0}
				s.sets[0] = s.cur
				s.processed = 0
			} else {
				// after a reset the base is the history shipped in the anchor's frame, as
				// recorded by a full-history node for the same rounds (checked separately by C13)
				all, err := n.Node.GetAllValidatorSets()
				if err != nil || len(all) == 0 {
					continue
				}
				rs := []int{}
				for r := range all {
					rs = append(rs, r)
				}
				sort.Ints(rs)
				for _, r := range rs {
					s.sets[r] = pubSet(all[r])
					s.rounds = append(s.rounds, r)
				}
				s.cur = copySet(s.sets[rs[len(rs)-1]])
				s.processed = len(app.Delivered)
				s.base = n.AnchorRRAtReset[app.Epoch]
			}
			m.st[app] = s
		}
		for i := s.processed; i < len(app.Delivered); i++ {
			d := app.Delivered[i]
			changed := false
			next := copySet(s.cur)
			for _, rc := range d.Resp.InternalTransactionReceipts {
				if !rc.Accepted {
					continue
				}
				pk := rc.InternalTransaction.Body.Peer.PubKeyString()
				switch rc.InternalTransaction.Body.Type {
				case hg.PEER_ADD:
					next[pk] = true
					changed = true
				case hg.PEER_REMOVE:
					delete(next, pk)
					changed = true
				}
			}
			if changed {
				er := d.Body.RoundReceived + 6
				if _, dup := s.sets[er]; !dup {
					s.rounds = append(s.rounds, er)
					sort.Ints(s.rounds)
				}
				s.sets[er] = next
				s.cur = next
				nw.Res.count("validator_set_changes_replayed", 1)
			}
			// peers hash of the block = hash of the set effective at its round-received
			ps, err := n.Node.GetValidatorSet(d.Body.RoundReceived)
			if err == nil {
				ph, _ := peers.NewPeerSet(ps).Hash()
				nw.Res.count("validator_peershash_checks", 1)
				if !bytes.Equal(ph, d.Body.PeersHash) {
					nw.violate(m.Prop, m.Prop+":peers-hash-mismatch",
						fmt.Sprintf("node %d: block %d carries a peer-set hash that is not the hash of the validator set the node reports for round %d", n.Idx, d.Index, d.Body.RoundReceived),
						map[string]interface{}{"node": n.Idx, "block": describeDelivered(d)})
					return
				}
			}
			if m.Outsiders && n.ResetEpochs == 0 && n.babbling() {
				if m.offerOutsiderSignatures(nw, n, s, d) {
					return
				}
			}
		}
		s.processed = len(app.Delivered)
		// compare r -> set as a function
		lastRound := n.Core.Hg().Store.LastRound()
		hi := lastRound + 8
		if len(s.rounds) > 0 && s.rounds[len(s.rounds)-1]+1 > hi {
			hi = s.rounds[len(s.rounds)-1] + 1
		}
		lo := s.base
		if nw.Step%10 != 0 && hi-20 > lo {
			lo = hi - 20
		}
		for r := lo; r <= hi; r++ {
			ps, err := n.Node.GetValidatorSet(r)
			if err != nil {
				continue
			}
			got := pubSet(ps)
			want := s.at(r)
			nw.Res.count("validator_set_function_checks", 1)
			if len(got) != len(ps) {
				nw.violate(m.Prop, m.Prop+":duplicate-validator",
					fmt.Sprintf("node %d: validator set for round %d lists a validator twice", n.Idx, r), map[string]interface{}{"node": n.Idx})
				return
			}
			if !sameSet(got, want) {
				nw.violate(m.Prop, m.Prop+":validator-set-differs-from-replay",
					fmt.Sprintf("node %d: validator set for round %d is %v but replaying its delivered blocks gives %v", n.Idx, r, setKeys(got), setKeys(want)),
					map[string]interface{}{"node": n.Idx, "round": r, "resets": n.ResetEpochs, "effective_rounds": s.rounds})
				return
			}
		}
		// witnesses must belong to their round's set
		st := n.Core.Hg().Store
		for r := lastRound; r >= 0 && r > lastRound-8; r-- {
			if r < s.base {
				break
			}
			ri, err := st.GetRound(r)
			if err != nil {
				continue
			}
			ws := ri.Witnesses()
			if s.witnessScanned[r] == len(ws) {
				continue
			}
			s.witnessScanned[r] = len(ws)
			set := s.at(r)
			for _, w := range ws {
				ev, err := st.GetEvent(w)
				if err != nil {
					continue
				}
				nw.Res.count("validator_witness_membership_checks", 1)
				if !set[ev.Creator()] {
					sig := m.Prop + ":witness-outside-round-set"
					if lateSetChangeBefore(n, r) > 0 {
						sig += "-after-late-validator-set-change"
					}
					nw.violate(m.Prop, sig,
						fmt.Sprintf("node %d: event %s is a witness of round %d but its creator is not in that round's validator set", n.Idx, w[:12], r), map[string]interface{}{"node": n.Idx})
					return
				}
			}
		}
	}
}
func (m *MonValidators) Finish(nw *Network) {}

// ---------------------------------------------------------------------------
// C18 block timestamps
// ---------------------------------------------------------------------------

type MonTimestamps struct {
	processed map[*App]int
	// Liars: identities whose clocks are not to be trusted
	Liars map[int]bool
}

func NewMonTimestamps() *MonTimestamps {
	return &MonTimestamps{processed: map[*App]int{}, Liars: map[int]bool{}}
}
func (m *MonTimestamps) Name() string { return "timestamps" }

// checkTimestamp is shared with dagcheck: ts must lie between the two middle
// values of the famous witnesses' claimed times (any reasonable median), and,
// if fewer than a third lie, within the honest range.
func checkTimestamp(ts int64, all []int64, honest []int64, liars, n int) (string, string) {
	if len(all) == 0 {
		return "", ""
	}
	s := append([]int64{}, all...)
	sort.Slice(s, func(i, j int) bool { return s[i] < s[j] })
	lo, hi := s[(len(s)-1)/2], s[len(s)/2]
	if ts < lo || ts > hi {
		return "C18:not-a-median", fmt.Sprintf("timestamp %d is not a median of the famous witnesses' claimed times %v (middle values %d..%d)", ts, s, lo, hi)
	}
	if 3*liars < n && len(honest) > 0 {
		h := append([]int64{}, honest...)
		sort.Slice(h, func(i, j int) bool { return h[i] < h[j] })
		if ts < h[0] || ts > h[len(h)-1] {
			return "C18:outside-honest-range", fmt.Sprintf("timestamp %d lies outside the honest famous witnesses' range [%d,%d] although only %d of %d validators misreport", ts, h[0], h[len(h)-1], liars, n)
		}
	}
	return "", ""
}

func (m *MonTimestamps) AfterStep(nw *Network) {
	for _, n := range nw.Nodes {
		if n.Node == nil || n.Puppet || n.App == nil || n.StoreClosed {
			continue
		}
		app := n.App
		for i := m.processed[app]; i < len(app.Delivered); i++ {
			d := app.Delivered[i]
			st := n.Core.Hg().Store
			ri, err := st.GetRound(d.Body.RoundReceived)
			if err != nil {
				continue
			}
			ps, err := st.GetPeerSet(d.Body.RoundReceived)
			if err != nil {
				continue
			}
			var all, honest []int64
			liars := 0
			for _, p := range ps.Peers {
				if sn := nw.nodeByID(p.ID()); sn != nil && m.Liars[sn.Idx] {
					liars++
				}
			}
			for _, w := range ri.FamousWitnesses() {
				re := nw.Rec.Events[w]
				if re == nil {
					ev, err := st.GetEvent(w)
					if err != nil {
						all = nil
						break
					}
					all = append(all, ev.Timestamp())
					continue
				}
				all = append(all, re.Timestamp)
				if !m.Liars[re.CreatorIdx] {
					honest = append(honest, re.Timestamp)
				}
			}
			nw.Res.count("timestamp_blocks_checked", 1)
			if liars > 0 {
				nw.Res.count("timestamp_blocks_with_lying_validators", 1)
			}
			if sig, msg := checkTimestamp(d.Body.Timestamp, all, honest, liars, ps.Len()); sig != "" {
				nw.violate("C18", sig, fmt.Sprintf("node %d block %d: %s", n.Idx, d.Index, msg), map[string]interface{}{"node": n.Idx, "block": describeDelivered(d)})
				return
			}
		}
		m.processed[app] = len(app.Delivered)
	}
}
func (m *MonTimestamps) Finish(nw *Network) {}

// traceTx explains where a transaction is: which event carries it and what the
// node knows about that event.
func traceTx(nw *Network, n *SimNode, tx []byte) map[string]interface{} {
	out := map[string]interface{}{}
	for _, e := range nw.Rec.Order {
		for _, t := range e.Txs {
			if bytes.Equal(t, tx) {
				out["event"] = e.Hash
				out["creator"] = e.CreatorIdx
				out["index"] = e.Index
				out["first_step"] = e.FirstStep
				h := n.Core.Hg()
				if ev, err := h.Store.GetEvent(e.Hash); err == nil {
					if r := ev.VerifRound(); r != nil {
						out["round"] = *r
					}
					if r := ev.VerifRoundReceived(); r != nil {
						out["round_received"] = *r
					}
				} else {
					out["node_lacks_event"] = err.Error()
				}
				und := false
				for _, u := range h.UndeterminedEvents {
					if u == e.Hash {
						und = true
					}
				}
				out["undetermined_at_node"] = und
				out["node_last_round"] = h.Store.LastRound()
				out["pending_rounds"] = fmt.Sprint(h.VerifPendingRounds())
				all, _ := h.Store.GetAllPeerSets()
				ps := map[int][]string{}
				for r, p := range all {
					ps[r] = setKeys(pubSet(p))
				}
				out["peer_sets"] = ps
				return out
			}
		}
	}
	for _, x := range nw.Nodes {
		if x.Core == nil {
			continue
		}
		for _, t := range x.Core.TransactionPool() {
			if bytes.Equal(t, tx) {
				out["in_pool_of"] = x.Idx
			}
		}
	}
	return out
}

// offerOutsiderSignatures: see MonValidators.Outsiders. Returns true when a
// violation was reported.
func (m *MonValidators) offerOutsiderSignatures(nw *Network, n *SimNode, s *valState, d *Delivered) bool {
	st := n.Core.Hg().Store
	blk, err := st.GetBlock(d.Index)
	if err != nil {
		return false
	}
	members := s.at(d.Body.RoundReceived)
	for _, o := range nw.Nodes {
		if o.Key == nil || members[o.PubHex] {
			continue
		}
		// only identities that are, were or will be validators are interesting:
		// they are in the repertoire, so their events and signatures are not
		// refused for being unknown
		known := false
		for _, set := range s.sets {
			if set[o.PubHex] {
				known = true
			}
		}
		if !known {
			if _, ok := n.Core.Hg().Store.RepertoireByPubKey()[o.PubHex]; !ok {
				continue
			}
		}
		nb := &hg.Block{Body: blk.Body}
		sig, err := nb.Sign(o.Key)
		if err != nil {
			continue
		}
		nw.Res.count("valid_block_signatures_by_non_members_of_the_round_offered", 1)
		if known {
			nw.Res.count("valid_block_signatures_by_former_or_future_validators_offered", 1)
		}
		n.Node.VerifLockCore(func() {
			n.Core.Hg().PendingSignatures.Add(sig)
			n.Core.ProcessSigPool()
			n.Core.Hg().PendingSignatures.Remove(sig.Key())
		})
		after, err := st.GetBlock(d.Index)
		if err != nil {
			continue
		}
		if _, rec := after.Signatures[o.PubHex]; rec {
			nw.violate(m.Prop, m.Prop+":block-signature-recorded-for-non-member-of-round",
				fmt.Sprintf("node %d recorded on block %d (round-received %d) a signature of node %d's key, which is not in the validator set that replaying the node's blocks gives for that round", n.Idx, d.Index, d.Body.RoundReceived, o.Idx),
				map[string]interface{}{"node": n.Idx, "block": describeDelivered(d), "signer": o.Idx, "members": setKeys(members), "effective_rounds": s.rounds})
			return true
		}
	}
	return false
}
