package main

import (
	"crypto/ecdsa"
	"encoding/json"
	"errors"
	"fmt"
	"math/rand"
	"os"
	"path/filepath"
	"sort"
	"strings"
	"time"

	"github.com/mosaicnetworks/babble/src/config"
	hg "github.com/mosaicnetworks/babble/src/hashgraph"
	bnet "github.com/mosaicnetworks/babble/src/net"
	"github.com/mosaicnetworks/babble/src/node"
	_state "github.com/mosaicnetworks/babble/src/node/state"
	"github.com/mosaicnetworks/babble/src/peers"
	"github.com/mosaicnetworks/babble/src/proxy"
	"github.com/mosaicnetworks/babble/src/proxy/inmem"
	aproxy "github.com/mosaicnetworks/babble/src/proxy/socket/app"
	bproxy "github.com/mosaicnetworks/babble/src/proxy/socket/babble"
	gonet "net"
)

// ---------------------------------------------------------------------------
// Simulated node
// ---------------------------------------------------------------------------

type NodeOpts struct {
	Store        string // "inmem" | "badger"
	CacheSize    int
	SyncLimit    int
	FastSync     bool
	SuspendLimit int
	Bootstrap    bool
	Maintenance  bool
}

func defaultOpts() NodeOpts {
	return NodeOpts{Store: "inmem", CacheSize: 50000, SyncLimit: 1000, SuspendLimit: 100}
}

type SimNode struct {
	Idx      int
	Name     string
	Addr     string
	Key      *ecdsa.PrivateKey
	PubHex   string
	ID       uint32
	Opts     NodeOpts
	Conf     *config.Config
	Node     *node.Node
	Core     *node.VerifCore
	App      *App
	Proxy    *inmem.InmemProxy
	AppRelay *forwarder // set when the application sits behind the socket proxy
	Store    hg.Store
	DBPath   string
	trans    *simTransport
	nw       *Network

	Up           bool // a Node object exists and is reachable
	Silent       bool // does not initiate and does not answer
	Left         bool // left the network for good
	Puppet       bool // no Node object: events are made by the harness
	ResetEpochs  int  // number of fast-forward resets
	StoreClosed  bool
	peersAtCrash []*peers.Peer
	// InsertFailedStep is the first step at which this incarnation failed to
	// insert events it received (-1: never). Used for reset nodes: C13 holds
	// "for as long as it can insert the events it receives".
	InsertFailedStep int
	// SelfInsertFaulted: an injected storage fault cut short the consensus pass
	// that followed the insertion of this node's own event (C05 selffault)
	SelfInsertFaulted bool
	// ReusedIndexStep is the first step at which this node was seen creating an
	// event at an index it had already used (after a reset it no longer knows
	// the events it created beyond the anchor): the same thing as equivocation
	// from the point of view of every property, so the node is not judged further
	ReusedIndexStep int
	LostData        bool // this incarnation started without the data of the previous one
	traceSeq        int
	AnchorAtReset   map[int]int // app epoch -> anchor block index the node reset to
	AnchorRRAtReset map[int]int
	Incarnation     int
	JoinedAtStep    int

	// Responder, if set, answers RPCs in place of a real node (Byzantine peer).
	Responder func(from *SimNode, cmd interface{}) (interface{}, error)

	// recorder state
	known map[uint32]int
	has   map[string]bool
	order []string

	// monitor scratch (per-incarnation state lives in monitors keyed by node)
}

func (n *SimNode) state() _state.State { return n.Node.GetState() }

func (n *SimNode) babbling() bool {
	return n.Up && !n.Puppet && n.Node != nil && n.Node.GetState() == _state.Babbling
}

// ---------------------------------------------------------------------------
// Transport
// ---------------------------------------------------------------------------

var errUnreachable = errors.New("sim: peer unreachable (timeout)")

// Fault describes what the network does to the RPCs of the current step.
type Fault struct {
	DropSyncReq   bool
	DropSyncResp  bool
	DropEagerReq  bool
	DropEagerResp bool
	StaleSync     bool // deliver the previous SyncResponse of this pair instead
	TruncateSync  int  // >0: cut the sync response to that many events (emulates a smaller limit)
	DropFFResp    bool
}

type simTransport struct {
	nw   *Network
	self *SimNode
	ch   chan bnet.RPC
}

func (t *simTransport) Listen()                   {}
func (t *simTransport) Consumer() <-chan bnet.RPC { return t.ch }
func (t *simTransport) LocalAddr() string         { return t.self.Addr }
func (t *simTransport) AdvertiseAddr() string     { return t.self.Addr }
func (t *simTransport) Close() error              { return nil }

// wireCopy emulates the JSON encoding of the real transport.
func wireCopy(in interface{}, out interface{}) error {
	b, err := json.Marshal(in)
	if err != nil {
		return err
	}
	return json.Unmarshal(b, out)
}

func (t *simTransport) deliver(target string, cmd interface{}, out interface{}) error {
	nw := t.nw
	tn := nw.byAddr[target]
	if tn == nil || !tn.Up || tn.Silent || t.self.Silent || tn.Left {
		nw.Res.count("rpc_unreachable", 1)
		return errUnreachable
	}
	if nw.Partition != nil && nw.Partition[t.self.Idx] != nw.Partition[tn.Idx] {
		nw.Res.count("rpc_partitioned", 1)
		return errUnreachable
	}
	var resp interface{}
	var rerr error
	if tn.Responder != nil {
		resp, rerr = tn.Responder(t.self, cmd)
	} else {
		ch := make(chan bnet.RPCResponse, 1)
		tn.Node.VerifProcessRPC(bnet.RPC{Command: cmd, RespChan: ch})
		r := <-ch
		resp, rerr = r.Response, r.Error
	}
	if resp != nil {
		if err := wireCopy(resp, out); err != nil {
			return err
		}
	}
	if rerr != nil {
		return errors.New(rerr.Error())
	}
	return nil
}

func (t *simTransport) Sync(target string, args *bnet.SyncRequest, resp *bnet.SyncResponse) error {
	nw := t.nw
	nw.Res.count("rpc_sync", 1)
	f := nw.fault
	if f.DropSyncReq {
		nw.Res.count("fault_drop_sync_req", 1)
		return errUnreachable
	}
	var req bnet.SyncRequest
	if err := wireCopy(args, &req); err != nil {
		return err
	}
	tn := nw.byAddr[target]
	key := [2]int{t.self.Idx, -1}
	if tn != nil {
		key[1] = tn.Idx
	}
	if f.StaleSync {
		if old, ok := nw.stale[key]; ok {
			nw.Res.count("fault_stale_sync", 1)
			return wireCopy(old, resp)
		}
	}
	err := t.deliver(target, &req, resp)
	if err != nil {
		return err
	}
	if f.TruncateSync > 0 && len(resp.Events) > f.TruncateSync {
		resp.Events = resp.Events[:f.TruncateSync]
		nw.Res.count("fault_truncated_sync", 1)
	}
	if len(resp.Events) > 0 {
		var keep bnet.SyncResponse
		wireCopy(resp, &keep)
		nw.stale[key] = &keep
	}
	if f.DropSyncResp {
		nw.Res.count("fault_drop_sync_resp", 1)
		*resp = bnet.SyncResponse{}
		return errUnreachable
	}
	if tn != nil && len(resp.Events) >= req.SyncLimit && req.SyncLimit > 0 {
		nw.Res.count("sync_hit_limit", 1)
	}
	nw.Res.max("sync_max_events_in_one_response", int64(len(resp.Events)))
	if len(resp.Events) >= 500 {
		nw.Res.count("sync_responses_with_500_or_more_events", 1)
	}
	return nil
}

func (t *simTransport) EagerSync(target string, args *bnet.EagerSyncRequest, resp *bnet.EagerSyncResponse) error {
	nw := t.nw
	nw.Res.count("rpc_eager", 1)
	f := nw.fault
	if f.DropEagerReq {
		nw.Res.count("fault_drop_eager_req", 1)
		return errUnreachable
	}
	var req bnet.EagerSyncRequest
	if err := wireCopy(args, &req); err != nil {
		return err
	}
	err := t.deliver(target, &req, resp)
	if tn := nw.byAddr[target]; tn != nil && (err != nil && err != errUnreachable || err == nil && !resp.Success) {
		if tn.InsertFailedStep < 0 {
			tn.InsertFailedStep = nw.Step
		}
		nw.Res.count("eager_sync_insert_failures", 1)
		nw.lastEagerFailed = true
	}
	if f.DropEagerResp {
		nw.Res.count("fault_drop_eager_resp", 1)
		return errUnreachable
	}
	return err
}

func (t *simTransport) FastForward(target string, args *bnet.FastForwardRequest, resp *bnet.FastForwardResponse) error {
	nw := t.nw
	nw.Res.count("rpc_fastforward", 1)
	var req bnet.FastForwardRequest
	if err := wireCopy(args, &req); err != nil {
		return err
	}
	if nw.FFServe != nil {
		tn := nw.byAddr[target]
		if tn == nil || !nw.FFServe[tn.Idx] {
			return errUnreachable
		}
	}
	err := t.deliver(target, &req, resp)
	if nw.fault.DropFFResp {
		return errUnreachable
	}
	if err == nil && nw.FFTamper != nil {
		nw.FFTamper(resp)
	}
	if err == nil {
		nw.ffOffers = append(nw.ffOffers, [2]int{resp.Block.Index(), resp.Block.RoundReceived()})
		pending := 0
		for r := range resp.Frame.PeerSets {
			if r > resp.Frame.Round {
				pending++
			}
		}
		nw.Res.count(fmt.Sprintf("ff_offers_with_%d_pending_validator_sets", pending), 1)
	}
	return err
}

// Join runs the target's real join handler in its own goroutine (it blocks on
// the promise until the request went through consensus) and rendezvous with
// the simulator thread, so that the simulation stays deterministic.
func (t *simTransport) Join(target string, args *bnet.JoinRequest, resp *bnet.JoinResponse) error {
	nw := t.nw
	if nw.joinDirect != nil {
		return nw.joinDirect(target, args, resp)
	}
	pj := nw.joinOf[t.self.Idx]
	if pj == nil {
		return fmt.Errorf("sim: unexpected Join call")
	}
	tn := nw.byAddr[target]
	if nw.wantHost != nil && tn != nw.wantHost {
		// steer the joiner's (random) peer selection to the scheduled host
		return errUnreachable
	}
	pj.reached = true
	if tn == nil || !tn.Up || tn.Silent || tn.Left || tn.Responder != nil {
		pj.dispatched <- struct{}{}
		return errUnreachable
	}
	var req bnet.JoinRequest
	if err := wireCopy(args, &req); err != nil {
		pj.dispatched <- struct{}{}
		return err
	}
	pj.host = tn
	pj.hostInc = tn.Incarnation
	pj.itx = req.InternalTransaction
	ch := make(chan bnet.RPCResponse, 1)
	handlerDone := make(chan struct{})
	go func() {
		tn.Node.VerifProcessRPC(bnet.RPC{Command: &req, RespChan: ch})
		close(handlerDone)
	}()
	// wait until the handler either answered or registered its promise
	signalled := false
	for {
		select {
		case r := <-ch:
			if !signalled {
				pj.immediate = true
				pj.dispatched <- struct{}{}
			}
			<-handlerDone
			if r.Response != nil {
				if err := wireCopy(r.Response, resp); err != nil {
					return err
				}
			}
			if r.Error != nil {
				return errors.New(r.Error.Error())
			}
			return nil
		default:
		}
		if !signalled {
			has := false
			tn.Node.VerifLockCore(func() { has = tn.Core.HasPromise(req.InternalTransaction) })
			if has {
				signalled = true
				pj.dispatched <- struct{}{}
			}
		}
		time.Sleep(50 * time.Microsecond)
	}
}

// ---------------------------------------------------------------------------
// Network
// ---------------------------------------------------------------------------

type pendingJoin struct {
	joiner     *SimNode
	host       *SimNode
	itx        hg.InternalTransaction
	dispatched chan struct{}
	done       chan error
	immediate  bool
	reached    bool
	hostInc    int
	startStep  int
}

type Network struct {
	Seed    int64
	Rng     *rand.Rand
	Nodes   []*SimNode
	byAddr  map[string]*SimNode
	Genesis []*peers.Peer
	Step    int
	Res     *CaseResult
	TmpDir  string
	fault   Fault
	stale   map[[2]int]*bnet.SyncResponse
	// Partition maps node idx -> group id (nil = no partition)
	Partition map[int]int
	// FFServe restricts which nodes answer fast-forward requests (nil = all)
	FFServe map[int]bool
	// FFTamper, when set, lets the relay alter a fast-forward response on its
	// way to the requester (it must work on copies: the response may share maps
	// with the serving node's cached block)
	FFTamper    func(resp *bnet.FastForwardResponse)
	Rec         *Recorder
	Mons        []Monitor
	joinOf      map[int]*pendingJoin
	joins       []*pendingJoin
	txSeq       int
	Submitted   map[string]*SubmittedTx // by tx id string(bytes)
	SubmitOrder []*SubmittedTx
	stopped     bool
	wantHost    *SimNode
	leaving     map[int]*ItxRecord
	joinDirect  func(target string, args *bnet.JoinRequest, resp *bnet.JoinResponse) error
	inHook      bool
	// PinnedSilent nodes stay silent across schedule phases
	PinnedSilent     map[int]bool
	lastActor        *SimNode
	lastActorChecked bool
	puppets          map[int]*Puppet
	// KeyOverride gives chosen identities (by index) a fixed key instead of the derived one
	KeyOverride map[int]*ecdsa.PrivateKey
	// SubmitViaProxy: submissions go through InmemProxy.SubmitTx from a reused buffer
	SubmitViaProxy bool
	scratch        []byte
	// HugeTx: NewTx returns transactions of 40-70 KB (C11 hugetx cases)
	HugeTx bool
	// SocketApp: nodes (by index) whose application sits behind the socket proxy
	SocketApp map[int]bool
	// AfterStepHook, if set, runs after every step before the monitors
	AfterStepHook   func(nw *Network)
	lastEagerFailed bool
	ffJunkOffered   bool     // the relay added signature entries to a response during the current fast-forward
	ffOffers        [][2]int // (block index, round received) of the fast-forward responses seen during the current step
	idleAfterFair   bool
	lostPool        map[int]bool // nodes that were restarted (their pending pool is legitimately gone)
	// KeyLabel distinguishes key families
	keyLabel string
	// options for new nodes
	DefaultOpts NodeOpts
	// ItxLog records membership requests made through the harness
	Itxs []*ItxRecord
	// CheckSuspendAfterGossip mirrors the babble loop (checkSuspend after every heartbeat)
	CheckSuspendAfterGossip bool
}

type SubmittedTx struct {
	Bytes []byte
	Node  int
	Step  int
	Count int // how many times these exact bytes were submitted (duplicate content)
	Inc   int // incarnation of the node that accepted it
	// ByNode: how many of the Count submissions each (node, incarnation) accepted
	ByNode map[[2]int]int
}

type ItxRecord struct {
	Itx           hg.InternalTransaction
	Host          int
	Subject       int
	Step          int
	Poll          func() (bool, bool, int, []*peers.Peer)
	Answered      bool
	Accepted      bool
	AcceptedRound int
	HostInc       int // incarnation of the host when it accepted the request
}

// Monitor observes the network after every step.
type Monitor interface {
	Name() string
	AfterStep(nw *Network)
	Finish(nw *Network)
}

func NewNetwork(cs CaseSpec, res *CaseResult) *Network {
	tmp := os.Getenv("VERIF_WORKDIR")
	if tmp == "" {
		tmp = filepath.Join(verifDir(), ".work")
	}
	os.MkdirAll(tmp, 0o755)
	dir, err := os.MkdirTemp(tmp, fmt.Sprintf("net-%d-", cs.Index))
	if err != nil {
		panic(err)
	}
	nw := &Network{
		Seed:                    pinSeed(cs),
		Rng:                     cs.rng("net"),
		byAddr:                  map[string]*SimNode{},
		Res:                     res,
		TmpDir:                  dir,
		stale:                   map[[2]int]*bnet.SyncResponse{},
		joinOf:                  map[int]*pendingJoin{},
		Submitted:               map[string]*SubmittedTx{},
		keyLabel:                "n",
		DefaultOpts:             defaultOpts(),
		CheckSuspendAfterGossip: true,
	}
	nw.Rec = NewRecorder(nw)
	return nw
}

func (nw *Network) Close() {
	for _, n := range nw.Nodes {
		if n.Store != nil && n.Opts.Store == "badger" && n.Up {
			func() {
				defer func() { recover() }()
				n.Store.Close()
			}()
		}
	}
	for _, n := range nw.Nodes {
		if n.AppRelay != nil {
			n.AppRelay.down()
		}
	}
	os.RemoveAll(nw.TmpDir)
}

// addIdentity creates a new identity (key, address) without a Node object.
func (nw *Network) addIdentity(moniker string) *SimNode {
	idx := len(nw.Nodes)
	k := detKey(nw.Seed, nw.keyLabel, idx)
	if ko, ok := nw.KeyOverride[idx]; ok {
		k = ko
	}
	if moniker == "" {
		moniker = fmt.Sprintf("node%d", idx)
	}
	n := &SimNode{ReusedIndexStep: -1, Idx: idx, Name: moniker, Addr: fmt.Sprintf("sim:%d", idx), Key: k, PubHex: pubHex(k), nw: nw,
		known: map[uint32]int{}, has: map[string]bool{}}
	p := mkPeer(k, n.Addr, moniker)
	n.ID = p.ID()
	nw.Nodes = append(nw.Nodes, n)
	nw.byAddr[n.Addr] = n
	return n
}

func (n *SimNode) peer() *peers.Peer { return mkPeer(n.Key, n.Addr, n.Name) }

// Genesis creates n identities forming the genesis validator set and starts a
// real node for each (except those flagged puppet).
func (nw *Network) GenesisNodes(n int, opts NodeOpts, puppets map[int]bool) {
	ids := []*SimNode{}
	ps := []*peers.Peer{}
	for i := 0; i < n; i++ {
		sn := nw.addIdentity("")
		ids = append(ids, sn)
		ps = append(ps, sn.peer())
	}
	nw.Genesis = ps
	for i, sn := range ids {
		if puppets != nil && puppets[i] {
			nw.makePuppet(sn)
			continue
		}
		nw.startNode(sn, opts, clonePeers(ps), clonePeers(ps))
	}
}

// startNode builds a real node.Node for the identity, with the real InmemProxy
// and the monitored application, and calls the real Init().
func (nw *Network) startNode(sn *SimNode, opts NodeOpts, current, genesis []*peers.Peer) error {
	conf := config.NewDefaultConfig()
	conf.LogLevel = "panic"
	conf.CacheSize = opts.CacheSize
	conf.SyncLimit = opts.SyncLimit
	conf.EnableFastSync = opts.FastSync
	conf.SuspendLimit = opts.SuspendLimit
	conf.JoinTimeout = time.Hour
	conf.Bootstrap = opts.Bootstrap
	conf.MaintenanceMode = opts.Maintenance
	conf.Moniker = sn.Name
	conf.BindAddr = sn.Addr
	var store hg.Store
	switch opts.Store {
	case "badger":
		if sn.Store != nil && !sn.StoreClosed && sn.Opts.Store == "badger" {
			// the previous incarnation's process is gone: release its database handle
			func() {
				defer func() { recover() }()
				sn.Store.Close()
			}()
		}
		if sn.DBPath == "" || (!opts.Bootstrap && sn.Incarnation > 0) {
			// a restart without bootstrap is a node that lost its data
			sn.DBPath = filepath.Join(nw.TmpDir, fmt.Sprintf("db-%d-%d", sn.Idx, sn.Incarnation))
		}
		conf.Store = true
		conf.DatabaseDir = sn.DBPath
		bs, err := hg.NewBadgerStore(opts.CacheSize, sn.DBPath, opts.Maintenance, nil)
		if err != nil {
			return err
		}
		store = bs
	default:
		store = hg.NewInmemStore(opts.CacheSize)
	}
	app := NewApp(sn.Name)
	var px proxy.AppProxy
	if nw.SocketApp[sn.Idx] {
		// out-of-process application: the node talks to it through the socket
		// proxy pair, over a relay that can make the application unreachable
		l1, err := gonet.Listen("tcp", "127.0.0.1:0")
		if err != nil {
			return err
		}
		appBind := l1.Addr().String()
		l1.Close()
		l2, err := gonet.Listen("tcp", "127.0.0.1:0")
		if err != nil {
			return err
		}
		nodeBind := l2.Addr().String()
		l2.Close()
		if _, err := bproxy.NewSocketBabbleProxy(nodeBind, appBind, app, 2*time.Second, quietLogger()); err != nil {
			return err
		}
		fw, err := newForwarder(appBind)
		if err != nil {
			return err
		}
		ap, err := aproxy.NewSocketAppProxy(fw.addr(), nodeBind, 2*time.Second, quietLogger())
		if err != nil {
			return err
		}
		sn.AppRelay = fw
		px = ap
	} else {
		ip := inmem.NewInmemProxy(app, conf.Logger())
		sn.Proxy = ip
		px = ip
	}
	tr := &simTransport{nw: nw, self: sn, ch: make(chan bnet.RPC)}
	nd := node.NewNode(conf, node.NewValidator(sn.Key, sn.Name), peers.NewPeerSet(current), peers.NewPeerSet(genesis), store, tr, px)
	app.LastRound = func() int { return store.LastRound() }
	sn.Opts = opts
	sn.Conf = conf
	sn.Node = nd
	sn.Core = nd.VerifCore()
	sn.App = app
	sn.Store = store
	sn.trans = tr
	sn.Incarnation++
	sn.StoreClosed = false
	sn.InsertFailedStep = -1
	sn.ReusedIndexStep = -1
	sn.LostData = sn.Incarnation > 1 && !opts.Bootstrap
	sn.known = map[uint32]int{}
	sn.has = map[string]bool{}
	sn.order = nil
	if err := nd.Init(); err != nil {
		return err
	}
	sn.Up = true
	sn.JoinedAtStep = nw.Step
	return nil
}

// ---------------------------------------------------------------------------
// Steps
// ---------------------------------------------------------------------------

// selectable returns the peers node i may gossip with according to its own
// peer selector (never itself).
func (nw *Network) selectable(n *SimNode) []*peers.Peer {
	res := []*peers.Peer{}
	for _, p := range n.Core.SelectorPeers().Peers {
		if p.ID() != n.ID {
			res = append(res, p)
		}
	}
	return res
}

func (nw *Network) nodeByPub(pub string) *SimNode {
	for _, n := range nw.Nodes {
		if n.PubHex == pub {
			return n
		}
	}
	return nil
}

func (nw *Network) nodeByID(id uint32) *SimNode {
	for _, n := range nw.Nodes {
		if n.ID == id {
			return n
		}
	}
	return nil
}

// Gossip runs the real gossip routine of node a with peer b (pull then push).
func (nw *Network) Gossip(a *SimNode, b *peers.Peer, f Fault, syncLimit int) error {
	nw.fault = f
	if syncLimit > 0 {
		a.Conf.SyncLimit = syncLimit
	} else {
		a.Conf.SyncLimit = a.Opts.SyncLimit
	}
	err := a.Node.VerifGossip(b)
	a.Conf.SyncLimit = a.Opts.SyncLimit
	nw.fault = Fault{}
	nw.Res.count("step_gossip", 1)
	if err != nil {
		nw.Res.count("step_gossip_err", 1)
		if err.Error() != errUnreachable.Error() && !strings.Contains(err.Error(), "Not in Babbling state") {
			// the pull could not insert what it received, or the push was refused
			nw.Res.count("step_gossip_insert_err", 1)
			if nw.lastEagerFailed == false && a.InsertFailedStep < 0 {
				a.InsertFailedStep = nw.Step
			}
		}
	}
	nw.lastEagerFailed = false
	if nw.CheckSuspendAfterGossip {
		a.Node.VerifCheckSuspend()
		nw.lastActor, nw.lastActorChecked = a, true
	}
	nw.afterStep()
	return err
}

// Pull runs only the pull half.
func (nw *Network) Pull(a *SimNode, b *peers.Peer, f Fault, syncLimit int) error {
	nw.fault = f
	if syncLimit > 0 {
		a.Conf.SyncLimit = syncLimit
	}
	_, err := a.Node.VerifPull(b)
	a.Conf.SyncLimit = a.Opts.SyncLimit
	nw.fault = Fault{}
	nw.Res.count("step_pull", 1)
	if nw.CheckSuspendAfterGossip {
		a.Node.VerifCheckSuspend()
	}
	nw.afterStep()
	return err
}

func (nw *Network) Monologue(a *SimNode) error {
	err := a.Node.VerifMonologue()
	nw.Res.count("step_monologue", 1)
	nw.afterStep()
	return err
}

// NewTx builds a transaction with a unique id. kind selects the content class.
func (nw *Network) NewTx(node int, kind int) []byte {
	nw.txSeq++
	id := fmt.Sprintf("tx|%d|%d|", node, nw.txSeq)
	if nw.HugeTx {
		// tens of kilobytes per transaction: a hundred consecutive events then
		// weigh several megabytes in the database
		b := []byte(id)
		for i, k := 0, 40000+nw.Rng.Intn(30000); i < k; i++ {
			b = append(b, byte('A'+i%26))
		}
		return b
	}
	switch kind % 6 {
	case 0:
		return []byte(id)
	case 1: // binary payload, not UTF-8
		b := []byte(id)
		for i := 0; i < 1+nw.Rng.Intn(40); i++ {
			b = append(b, byte(nw.Rng.Intn(256)))
		}
		return b
	case 2: // large
		b := []byte(id)
		for i := 0; i < 2000+nw.Rng.Intn(3000); i++ {
			b = append(b, byte('a'+i%26))
		}
		return b
	case 3: // contains JSON-ish and control characters
		return []byte(id + "{\"k\":[1,2,null]}\x00\n\"\\")
	default:
		return []byte(id + fmt.Sprint(nw.Rng.Int63()))
	}
}

// Submit hands a transaction to node a the way the proxy's submit channel does.
func (nw *Network) Submit(a *SimNode, tx []byte) {
	cp := append([]byte{}, tx...)
	key := string(tx)
	if st, ok := nw.Submitted[key]; ok {
		st.Count++
		st.ByNode[[2]int{a.Idx, a.Incarnation}]++
	} else {
		st := &SubmittedTx{Bytes: cp, Node: a.Idx, Step: nw.Step, Count: 1, Inc: a.Incarnation, ByNode: map[[2]int]int{{a.Idx, a.Incarnation}: 1}}
		nw.Submitted[key] = st
		nw.SubmitOrder = append(nw.SubmitOrder, st)
	}
	nw.Rec.noteSubmission(a, cp)
	if nw.SubmitViaProxy && a.Proxy != nil {
		// the application hands the transaction over through the real in-memory
		// proxy from a scratch buffer that it overwrites as soon as SubmitTx has
		// returned; the simulator thread plays the node's background loop
		// (receive from the submit channel, add to the pool)
		if cap(nw.scratch) < len(tx) {
			nw.scratch = make([]byte, 0, 2*len(tx)+64)
		}
		buf := append(nw.scratch[:0], tx...)
		done := make(chan struct{})
		go func() {
			a.Proxy.SubmitTx(buf)
			close(done)
		}()
		t := <-a.Proxy.SubmitCh()
		a.Node.VerifAddTransaction(t)
		<-done
		for i := range buf {
			buf[i] = 0xEE
		}
		nw.Res.count("submissions_through_the_proxy_from_a_reused_buffer", 1)
	} else {
		a.Node.VerifAddTransaction(tx)
	}
	nw.Res.count("step_submit", 1)
}

func (nw *Network) afterStep() {
	nw.Step++
	for _, n := range nw.Nodes {
		if n.App != nil {
			n.App.CurrentStep = nw.Step
		}
	}
	nw.resolveJoins()
	nw.pollItxs()
	nw.Rec.observe()
	if th := os.Getenv("VERIF_TRACE_HEAD"); th != "" {
		var idx int
		fmt.Sscanf(th, "%d", &idx)
		if idx < len(nw.Nodes) && nw.Nodes[idx].Node != nil {
			n := nw.Nodes[idx]
			_, seq := n.Core.Head()
			if seq != n.traceSeq {
				la := -1
				if nw.lastActor != nil {
					la = nw.lastActor.Idx
				}
				fmt.Fprintf(os.Stderr, "TRACEHEAD step=%d node %d seq %d -> %d state=%s last actor %d known_own=%d\n", nw.Step, idx, n.traceSeq, seq, n.Node.GetState(), la, n.Core.KnownEvents()[n.ID])
				n.traceSeq = seq
			}
		}
	}
	if nw.AfterStepHook != nil && !nw.inHook {
		nw.inHook = true
		nw.AfterStepHook(nw)
		nw.inHook = false
	}
	for _, m := range nw.Mons {
		if nw.stopped {
			break
		}
		m.AfterStep(nw)
	}
}

func (nw *Network) finish() {
	for _, m := range nw.Mons {
		m.Finish(nw)
	}
}

// violated lets monitors stop the run at the first violation.
func (nw *Network) violate(prop, sig, msg string, extra map[string]interface{}) {
	w := map[string]interface{}{"step": nw.Step, "network": nw.describe()}
	for k, v := range extra {
		w[k] = v
	}
	if nw.Rec != nil {
		w["history"] = nw.Rec.export(400)
	}
	nw.Res.violate(prop, sig, msg, w)
	nw.stopped = true
}

func (nw *Network) describe() map[string]interface{} {
	nodes := []map[string]interface{}{}
	for _, n := range nw.Nodes {
		d := map[string]interface{}{"idx": n.Idx, "name": n.Name, "up": n.Up, "silent": n.Silent, "left": n.Left, "puppet": n.Puppet, "resets": n.ResetEpochs}
		if n.Node != nil {
			d["state"] = n.Node.GetState().String()
			d["last_block"] = n.Node.GetLastBlockIndex()
			d["last_round"] = n.Node.GetLastConsensusRoundIndex()
			d["known"] = fmt.Sprint(n.Core.KnownEvents())
		}
		nodes = append(nodes, d)
	}
	return map[string]interface{}{"nodes": nodes, "seed": nw.Seed}
}

// ---------------------------------------------------------------------------
// Membership
// ---------------------------------------------------------------------------

// StartJoin creates a new identity and runs the real Node.join() against the
// given host. The new node takes part in the schedule once the host answered.
func (nw *Network) StartJoin(host *SimNode, moniker string, opts NodeOpts) *SimNode {
	sn := nw.addIdentity(moniker)
	return nw.StartJoinOf(sn, host, opts)
}

// StartJoinOf (re)joins an existing identity (used for re-join after leave).
func (nw *Network) StartJoinOf(sn *SimNode, host *SimNode, opts NodeOpts) *SimNode {
	// the joiner is configured with the host's current peers and the genesis set
	cur := clonePeers(host.Core.Peers().Peers)
	if err := nw.startNode(sn, opts, cur, clonePeers(nw.Genesis)); err != nil {
		panic(err)
	}
	sn.Left = false
	if sn.Node.GetState() != _state.Joining {
		// already in the peer list it was given: nothing to do
		return sn
	}
	sn.Up = false // not schedulable until joined
	pj := &pendingJoin{joiner: sn, dispatched: make(chan struct{}, 1), done: make(chan error, 1), startStep: nw.Step}
	nw.joinOf[sn.Idx] = pj
	nw.joins = append(nw.joins, pj)
	// force the joiner's peer selector to pick the host: Node.join() asks
	// peerSelector.next(); we steer it by making the host the only reachable
	// candidate through a retry loop below.
	nw.wantHost = host
	go func() {
		for tries := 0; tries < 2000; tries++ {
			err := sn.Node.VerifJoin()
			if pj.reached {
				pj.done <- err
				return
			}
		}
		pj.immediate = true
		pj.dispatched <- struct{}{}
		pj.done <- fmt.Errorf("sim: could not reach join host")
	}()
	<-pj.dispatched
	nw.wantHost = nil
	nw.Res.count("join_requests", 1)
	if pj.immediate {
		nw.finishJoin(pj)
	}
	return sn
}

func (nw *Network) finishJoin(pj *pendingJoin) {
	select {
	case err := <-pj.done:
		delete(nw.joinOf, pj.joiner.Idx)
		if err != nil {
			nw.Res.count("join_errors", 1)
			return
		}
		st := pj.joiner.Node.GetState()
		if st == _state.Babbling || st == _state.CatchingUp {
			pj.joiner.Up = true
			pj.joiner.JoinedAtStep = nw.Step
			nw.Res.count("join_completed", 1)
		} else {
			nw.Res.count("join_refused", 1)
		}
	case <-time.After(60 * time.Second):
		nw.Res.inconclusive("watchdog: join goroutine did not finish")
		nw.stopped = true
	}
}

func (nw *Network) resolveJoins() {
	for _, pj := range nw.joins {
		if nw.joinOf[pj.joiner.Idx] != pj || pj.host == nil {
			continue
		}
		if pj.host.Incarnation != pj.hostInc {
			// the host lost its data and restarted: the pending request is gone
			// (the joiner's call would time out)
			delete(nw.joinOf, pj.joiner.Idx)
			nw.Res.count("join_lost_host_restarted", 1)
			continue
		}
		has := pj.host.Core.HasPromise(pj.itx)
		if !has {
			nw.finishJoin(pj)
		}
	}
}

// RequestLeave submits a PEER_REMOVE request for node a exactly as core.leave
// builds it (the blocking wait of core.leave is not executed).
func (nw *Network) RequestLeave(a *SimNode) *ItxRecord {
	p := a.Core.Validators().ByID[a.ID]
	if p == nil {
		return nil
	}
	itx := hg.NewInternalTransaction(hg.PEER_REMOVE, *p)
	itx.Sign(a.Key)
	rec := &ItxRecord{Itx: itx, Host: a.Idx, Subject: a.Idx, Step: nw.Step, HostInc: a.Incarnation}
	a.Node.VerifLockCore(func() { rec.Poll = a.Core.AddInternalTransaction(itx) })
	nw.Itxs = append(nw.Itxs, rec)
	nw.Res.count("leave_requests", 1)
	return rec
}

func (nw *Network) pollItxs() {
	for _, r := range nw.Itxs {
		if r.Answered || r.Poll == nil {
			continue
		}
		if ok, acc, ar, _ := r.Poll(); ok {
			r.Answered, r.Accepted, r.AcceptedRound = true, acc, ar
		}
	}
}

// ---------------------------------------------------------------------------
// State digest (used by "refusal changes nothing" oracles)
// ---------------------------------------------------------------------------

func digestNode(n *SimNode) string {
	parts := digestLines(n)
	return shortHash(fmt.Sprint(parts)) + fmt.Sprintf("/%d", len(parts))
}

// digestDiff names the parts of the state that differ between two digests.
func digestDiff(a, b []string) []string {
	out := []string{}
	m := map[string]bool{}
	for _, l := range a {
		m[l] = true
	}
	for _, l := range b {
		if !m[l] {
			out = append(out, "now: "+trunc(l, 160))
		}
		delete(m, l)
	}
	for l := range m {
		out = append(out, "was: "+trunc(l, 160))
	}
	sort.Strings(out)
	if len(out) > 12 {
		out = out[:12]
	}
	return out
}

func digestLines(n *SimNode) []string {
	c := n.Core
	h := c.Hg()
	st := h.Store
	parts := []string{}
	add := func(f string, a ...interface{}) { parts = append(parts, fmt.Sprintf(f, a...)) }
	known := c.KnownEvents()
	ids := []int{}
	for id := range known {
		ids = append(ids, int(id))
	}
	sort.Ints(ids)
	for _, id := range ids {
		add("known %d=%d", id, known[uint32(id)])
	}
	rep := st.RepertoireByPubKey()
	pks := []string{}
	for pk := range rep {
		pks = append(pks, pk)
	}
	sort.Strings(pks)
	for _, pk := range pks {
		evs, err := st.ParticipantEvents(pk, -1)
		last, lerr := st.LastEventFrom(pk)
		add("pe %s %v %v last=%s %v", pk[:10], evs, err != nil, last, lerr != nil)
	}
	add("undet %v", h.UndeterminedEvents)
	add("pending %v", h.VerifPendingRounds())
	sk := []string{}
	for k := range h.PendingSignatures.Items() {
		sk = append(sk, k)
	}
	sort.Strings(sk)
	add("sigpool %v", sk)
	add("topo %d loaded %d ctx %d", h.VerifTopologicalIndex(), h.PendingLoadedEvents, h.ConsensusTransactions)
	lcr, anchor, lb := -1, -1, -1
	if h.LastConsensusRound != nil {
		lcr = *h.LastConsensusRound
	}
	if h.AnchorBlock != nil {
		anchor = *h.AnchorBlock
	}
	if h.VerifRoundLowerBound() != nil {
		lb = *h.VerifRoundLowerBound()
	}
	add("lcr %d anchor %d lower %d lastround %d lastblock %d", lcr, anchor, lb, st.LastRound(), st.LastBlockIndex())
	for i := 0; i <= st.LastBlockIndex(); i++ {
		b, err := st.GetBlock(i)
		if err != nil {
			add("block %d err", i)
			continue
		}
		bh, _ := b.Body.Hash()
		sigs := []string{}
		for k, v := range b.Signatures {
			sigs = append(sigs, k[:10]+":"+v)
		}
		sort.Strings(sigs)
		add("block %d %x %v", i, bh, sigs)
	}
	all, _ := st.GetAllPeerSets()
	rs := []int{}
	for r := range all {
		rs = append(rs, r)
	}
	sort.Ints(rs)
	for _, r := range rs {
		add("ps %d %s", r, peerKeys(all[r]))
	}
	head, seq := c.Head()
	add("head %s %d", head, seq)
	add("validators %s peers %s sel %s", peerKeys(c.Validators().Peers), peerKeys(c.Peers().Peers), peerKeys(c.SelectorPeers().Peers))
	ar, rr, tr, lp := c.Rounds()
	add("rounds %d %d %d %d", ar, rr, tr, lp)
	add("pools %d %d %d heads %v", len(c.TransactionPool()), len(c.InternalTransactionPool()), len(c.SelfBlockSignatures()), c.Heads())
	add("state %s", n.Node.GetState())
	add("app %s", n.App.digest())
	return parts
}

// digestNodeParts is like digestNode but returns the individual lines, so that
// a witness can show what changed.
func peerKeys(ps []*peers.Peer) string {
	s := []string{}
	for _, p := range ps {
		if p == nil {
			s = append(s, "<nil>")
			continue
		}
		k := p.PubKeyString()
		if len(k) > 10 {
			k = k[:10]
		}
		s = append(s, k)
	}
	return fmt.Sprint(s)
}

func pinSeed(cs CaseSpec) int64 {
	_, seed, index := cs.pinned()
	return seed*1000003 + int64(index)
}

// unjudgedAfterReset: a node reset by fast-sync that could not insert what it
// received (parents below its frame) or that re-used one of its own indexes.
func (n *SimNode) unjudgedAfterReset() bool {
	// LostData: restarted without its data and without a successful fast-forward
	// (it started again from nothing, although the others hold events it created
	// in its previous life): when it then re-uses one of its indexes it has forked
	// itself, which every property excludes
	return (n.ResetEpochs > 0 && (n.InsertFailedStep >= 0 || n.ReusedIndexStep >= 0)) || (n.LostData && n.ReusedIndexStep >= 0)
}
