package main

import (
	"fmt"
	"time"

	hg "github.com/mosaicnetworks/babble/src/hashgraph"
	bnet "github.com/mosaicnetworks/babble/src/net"
)

// Histories with Byzantine *content* (never equivocation): C09 (hostile block
// signatures) and C18 (lying clocks).

func byzCases(tier string, seed int64, quick, thorough int) []CaseSpec {
	count := quick
	if tier == "thorough" {
		count = thorough
	}
	ns := []int64{4, 5, 7, 4, 6, 7, 4, 5}
	res := []CaseSpec{}
	for i := 0; i < count; i++ {
		cs := CaseSpec{Kind: "byz-history", P: map[string]int64{}, S: map[string]string{}, Seed: seed, Index: i}
		r := cs.rng("gen")
		n := ns[i%len(ns)]
		cs.P["n"] = n
		cs.P["puppets"] = (n - 1) / 3
		if cs.P["puppets"] > 2 {
			cs.P["puppets"] = 2
		}
		cs.S["shape"] = []string{"uniform", "lag", "uniform", "partition"}[i%4]
		cs.P["steps"] = int64(300 + r.Intn(500))
		if n >= 7 {
			cs.P["steps"] = int64(250 + r.Intn(250))
		}
		if i%3 == 1 {
			cs.P["joins"] = 1
			cs.P["leaves"] = int64(i % 2)
		}
		res = append(res, cs)
	}
	return res
}

func runByzHistory(cs CaseSpec, setup func(nw *Network, puppets []*Puppet) []Monitor) *CaseResult {
	res := newResult(cs)
	nw := NewNetwork(cs, res)
	defer nw.Close()
	opts := optsFromCase(cs)
	nw.DefaultOpts = opts
	n := int(cs.I("n", 4))
	np := int(cs.I("puppets", 1))
	pm := map[int]bool{}
	for i := 0; i < np; i++ {
		pm[n-1-i] = true
	}
	nw.GenesisNodes(n, opts, pm)
	ps := []*Puppet{}
	for i := 0; i < np; i++ {
		ps = append(ps, nw.puppets[n-1-i])
	}
	nw.Mons = setup(nw, ps)
	sp := specFromCase(cs)
	sp.PuppetProb = 0.2
	nw.RunSchedule(sp)
	if !nw.stopped {
		nw.FairCycles(20)
	}
	if !nw.stopped {
		nw.finish()
	}
	res.Evaluations = int64(nw.Step)
	res.count("steps", int64(nw.Step))
	res.count("events_recorded", int64(len(nw.Rec.Order)))
	blocks := 0
	for _, x := range nw.Nodes {
		if x.App != nil && len(x.App.Delivered) > blocks {
			blocks = len(x.App.Delivered)
		}
	}
	res.count("blocks_on_longest_chain", int64(blocks))
	res.count("histories", 1)
	if blocks >= 3 && res.Counters["puppet_events_created"] >= 5 {
		res.digest("byz", cs.Seed, cs.Index, len(nw.Rec.Order), blocks)
	}
	res.Sample = map[string]interface{}{"kind": "nodesim history with puppet validators", "n": n, "puppets": np, "shape": sp.Shape, "steps": nw.Step, "blocks": blocks, "puppet_events": res.Counters["puppet_events_created"]}
	return res
}

// hostileSigPolicy returns the block signatures a puppet puts in its events.
func hostileSigPolicy(nw *Network) func(p *Puppet) []hg.BlockSignature {
	return func(p *Puppet) []hg.BlockSignature {
		rng := nw.Rng
		out := []hg.BlockSignature{}
		me := keysPub(p.sn.Key)
		st := p.core.Hg().Store
		last := st.LastBlockIndex()
		add := func(idx int, sig string) {
			out = append(out, hg.BlockSignature{Validator: me, Index: idx, Signature: sig})
			nw.Res.count("hostile_block_signatures_gossiped", 1)
		}
		// honest ones as well, so that the puppet's seat counts
		for _, bs := range p.core.SelfBlockSignatures() {
			if rng.Intn(2) == 0 {
				out = append(out, bs)
			}
		}
		for k := 0; k < 1+rng.Intn(3); k++ {
			switch rng.Intn(8) {
			case 0: // replay of another validator's signature (the wire form carries no validator)
				for tries := 0; tries < 10 && len(nw.Rec.Order) > 0; tries++ {
					e := nw.Rec.Order[rng.Intn(len(nw.Rec.Order))]
					if len(e.Sigs) > 0 && e.CreatorIdx != p.sn.Idx {
						s := e.Sigs[rng.Intn(len(e.Sigs))]
						add(s.Index, s.Signature)
						break
					}
				}
			case 1: // signature over the body without the state hash
				if last >= 0 {
					i := rng.Intn(last + 1)
					if b, err := st.GetBlock(i); err == nil {
						body := b.Body
						body.StateHash = []byte{}
						body.InternalTransactionReceipts = nil
						nb := &hg.Block{Body: body}
						if s, err := nb.Sign(p.sn.Key); err == nil {
							add(i, s.Signature)
						}
					}
				}
			case 2: // signature of another block's body under this index
				if last >= 1 {
					i, j := rng.Intn(last+1), rng.Intn(last+1)
					if b, err := st.GetBlock(j); err == nil && i != j {
						if s, err := b.Sign(p.sn.Key); err == nil {
							add(i, s.Signature)
						}
					}
				}
			case 3: // unknown / future index
				if b, err := st.GetBlock(maxInt(last, 0)); err == nil {
					if s, err := b.Sign(p.sn.Key); err == nil {
						add(last+1+rng.Intn(50), s.Signature)
					}
				}
			case 4: // negative index
				add(-1-rng.Intn(5), "1|1")
			case 5: // malformed encodings
				add(rng.Intn(maxInt(last, 0)+1), []string{"", "|", "x", "1|", "zz|zz|zz", "!|!", "-1|-1", "0|0"}[rng.Intn(8)])
			case 6: // duplicate of an own valid signature
				for _, bs := range p.core.SelfBlockSignatures() {
					out = append(out, bs, bs)
					break
				}
			case 7: // random well-formed numbers
				add(rng.Intn(maxInt(last, 0)+1), fmt.Sprintf("%x|%x", rng.Int63(), rng.Int63()))
			}
		}
		return out
	}
}

func maxInt(a, b int) int {
	if a > b {
		return a
	}
	return b
}

// injectForeignSignatures puts into honest nodes' signature pools valid
// signatures (over the node's own body of the block) made by keys of every
// kind: current members, strangers, removed and not-yet-effective validators.
func injectForeignSignatures(nw *Network, stranger *SimKey) {
	rng := nw.Rng
	if rng.Intn(4) != 0 {
		return
	}
	b := nw.babblers()
	if len(b) == 0 {
		return
	}
	x := b[rng.Intn(len(b))]
	st := x.Core.Hg().Store
	last := st.LastBlockIndex()
	if last < 0 {
		return
	}
	i := rng.Intn(last + 1)
	blk, err := st.GetBlock(i)
	if err != nil {
		return
	}
	var key *SimKey
	kind := "identity"
	if rng.Intn(5) == 0 {
		key, kind = stranger, "stranger"
	} else {
		key = &SimKey{nw.Nodes[rng.Intn(len(nw.Nodes))].Key}
	}
	body := blk.Body
	nb := &hg.Block{Body: body}
	sig, err := nb.Sign(key.K)
	if err != nil {
		return
	}
	ps, err := st.GetPeerSet(blk.RoundReceived())
	if err != nil {
		return
	}
	if _, member := ps.ByPubKey[pubHex(key.K)]; !member {
		nw.Res.count("injected_valid_signatures_by_non_members_of_block_round", 1)
		if kind == "identity" {
			nw.Res.count("injected_signatures_by_removed_or_not_yet_effective_validators", 1)
		}
	} else {
		nw.Res.count("injected_valid_signatures_by_members", 1)
	}
	x.Node.VerifLockCore(func() {
		x.Core.Hg().PendingSignatures.Add(sig)
		x.Core.ProcessSigPool()
	})
}

// junkSignatureRelay returns a relay action that adds entries to the signature
// map of a fast-forward response's block (never touching the entries that are
// there, so a response that satisfied the acceptance rule still does): valid
// signatures by a stranger and by identities outside the block's validator set,
// well-formed and malformed junk under stranger keys, under lax spellings of a
// member's key and under the keys of members that have not signed.
func junkSignatureRelay(nw *Network, stranger *SimKey) func(resp *bnet.FastForwardResponse) {
	return func(resp *bnet.FastForwardResponse) {
		rng := nw.Rng
		sigs := map[string]string{}
		for k, v := range resp.Block.Signatures {
			sigs[k] = v
		}
		members := map[string]bool{}
		for _, p := range resp.Frame.Peers {
			if p != nil {
				members[p.PubKeyString()] = true
			}
		}
		body := resp.Block.Body
		nb := &hg.Block{Body: body}
		added := 0
		add := func(k, v string) {
			if _, there := sigs[k]; !there {
				sigs[k] = v
				added++
			}
		}
		for _, kind := range rng.Perm(6)[:1+rng.Intn(3)] {
			switch kind {
			case 0: // a valid signature by a stranger
				if bs, err := nb.Sign(stranger.K); err == nil {
					add(pubHex(stranger.K), bs.Signature)
				}
			case 1: // a valid signature by an identity of the network that is not in the block's set
				for _, x := range nw.Nodes {
					if !members[x.PubHex] {
						if bs, err := nb.Sign(x.Key); err == nil {
							add(x.PubHex, bs.Signature)
						}
						break
					}
				}
			case 2: // junk under a stranger's key
				add(pubHex(stranger.K), []string{"1|1", "zz|zz", "", "|"}[rng.Intn(4)])
			case 3: // junk under a lax spelling of a member's key
				for k := range members {
					add(k+"ZZ", "zz|zz")
					break
				}
			case 4: // junk under the key of a member that has not signed
				for k := range members {
					if _, signed := sigs[k]; !signed {
						add(k, fmt.Sprintf("%x|%x", rng.Int63(), rng.Int63()))
						break
					}
				}
			case 5: // not a key at all
				add("0X04DEADBEEF", "1|1")
			}
		}
		if added > 0 {
			resp.Block.Signatures = sigs
			nw.Res.count("ff_responses_with_added_signature_entries", 1)
			nw.Res.count("ff_signature_entries_added_by_the_relay", int64(added))
			nw.ffJunkOffered = true
		}
	}
}

func init() {
	register(&PropDef{
		ID: "C09", Level: "exploration", Engine: "nodesim+puppet",
		Rule:          "one case = one seeded nodesim history (n=4..7, joins/leaves) in which fewer than a third of the validators are puppets whose (validly signed, non-equivocating) events carry hostile block signatures (replays of other validators' signatures, signatures over the body without state hash or over another block, unknown/future/negative indexes, malformed encodings, duplicates), and in which valid signatures by strangers, removed and not-yet-effective validators are injected into honest nodes' signature pools; after every step every signature recorded on every stored block must verify against the node's own body and belong to a member of the block's round, the offered anchor must carry > n/3 valid distinct validator signatures and never move backwards, and every signature an honest node gossips must be for a block it delivered, over the final body; non-trivial: >=3 blocks and >=5 puppet events",
		Assumptions:   []string{"puppets never equivocate", "membership is judged against the node's own validator set for the block's round (whose correctness is C10)"},
		MinNontrivial: 8,
		Cases: func(tier string, seed int64) []CaseSpec {
			cs := byzCases(tier, seed+1299709, 40, 500)
			k := 8
			if tier == "thorough" {
				k = 80
			}
			for j := 0; j < k; j++ {
				// a network that starts with one or two validators and grows through
				// several joins: every validator set is derived from the previous one
				cs = append(cs, CaseSpec{Kind: "growth", P: map[string]int64{"n": int64(1 + j%2), "joins": int64(3 + j%3), "steps": int64(500 + 60*(j%4))}, S: map[string]string{"shape": "uniform"}})
			}
			for j := 0; j < k; j++ {
				// a validator whose application sits behind the socket proxy and is
				// unreachable for a while, twice
				cs = append(cs, CaseSpec{Kind: "sockapp", P: map[string]int64{"n": int64(1 + j%4), "steps": int64(260 + 40*(j%4))}, S: map[string]string{"shape": "uniform"}})
			}
			for j := 0; j < k; j++ {
				// validators that lose their data and reset from a peer's anchor while
				// the relay adds entries to the signature map of the (sufficiently
				// signed, otherwise untouched) anchor block: what the node then records
				// for that block is still bound by C09
				cs = append(cs, CaseSpec{Kind: "ffjunk", P: map[string]int64{"n": int64(4 + j%3), "steps": int64(380 + 40*(j%4)), "ffresets": int64(2 + j%2), "ffsingle": int64(j % 2), "badger": int64((j / 2) % 2), "cache": 3000, "joins": int64(j % 2)}, S: map[string]string{"shape": []string{"uniform", "lag"}[j%2]}})
			}
			return cs
		},
		Run: func(cs CaseSpec) *CaseResult {
			if cs.Kind == "sockapp" {
				return runSockApp(cs)
			}
			if cs.Kind == "ffjunk" {
				res := runHistory(cs, func(nw *Network) []Monitor {
					nw.FFTamper = junkSignatureRelay(nw, &SimKey{detKey(cs.Seed, "ffjunk-stranger", cs.Index)})
					return []Monitor{NewMonSignatures()}
				}, nil)
				if res.Counters["ff_responses_with_added_signature_entries_adopted"] < 1 {
					res.Digests = nil
				}
				return res
			}
			if cs.Kind == "growth" {
				res := runHistory(cs, func(nw *Network) []Monitor { return []Monitor{NewMonSignatures()} }, nil)
				if res.Counters["join_completed"] < 2 {
					res.Digests = nil
				}
				return res
			}
			return runByzHistory(cs, func(nw *Network, ps []*Puppet) []Monitor {
				for _, p := range ps {
					p.Sigs = hostileSigPolicy(nw)
				}
				stranger := &SimKey{detKey(cs.Seed, "sigstranger", cs.Index)}
				nw.AfterStepHook = func(nw *Network) { injectForeignSignatures(nw, stranger) }
				return []Monitor{NewMonSignatures()}
			})
		},
		PerCaseTimeout: 15 * time.Minute,
	})
	register(&PropDef{
		ID: "C18", Level: "exploration", Engine: "nodesim+puppet / dagcheck",
		Rule:          "two kinds of cases: (a) seeded nodesim histories in which fewer than a third of the validators are puppets claiming arbitrary creation times (min/max int64, negative, zero, random); (b) seeded synthetic DAGs with skewed honest clocks and up to (n-1)/3 lying creators, executed by a real Hashgraph; for every delivered block: timestamp must lie between the two middle values of the famous witnesses' claimed times of its round-received (famous witnesses read from the node's round info, times from the harness's own record) and inside the honest famous witnesses' range; non-trivial: >=3 blocks checked with at least one lying validator in the round's set",
		Assumptions:   []string{"any value between the two middle elements is accepted as 'the median' for an even number of famous witnesses"},
		MinNontrivial: 8,
		Cases: func(tier string, seed int64) []CaseSpec {
			cs := byzCases(tier, seed+2750159, 24, 300)
			for i := range cs {
				if i%4 == 1 {
					// six validators: one keeps lying, two leave and go on creating events
					cs[i].P["n"] = 6
					cs[i].P["puppets"] = 3
					cs[i].P["departing"] = 1
					cs[i].P["joins"], cs[i].P["leaves"] = 0, 0
					cs[i].P["steps"] = 500
				}
			}
			dc := dagCases(tier, seed+15487469, 40, 600)
			for i := range dc {
				dc[i].Kind = "dag-ts"
				if dc[i].P["n"] < 4 {
					dc[i].P["n"] = 4 + int64(i%4)
				}
				dc[i].P["liars"] = (dc[i].P["n"] - 1) / 3
				if i%5 == 0 {
					dc[i].P["liars"] = 0
				}
				// honest clocks ahead of the clock of the machine that computes the
				// median (all of them / half of them): the median is over what the
				// famous witnesses claim, not over what the local clock allows
				dc[i].P["fastclocks"] = int64(i % 3)
			}
			return append(cs, dc...)
		},
		Run: func(cs CaseSpec) *CaseResult {
			if cs.Kind == "dag-ts" {
				return runC18Dag(cs)
			}
			return runByzHistory(cs, func(nw *Network, ps []*Puppet) []Monitor {
				m := NewMonTimestamps()
				lie := func() int64 {
					if nw.Rng.Intn(3) == 0 {
						return nw.Rng.Int63() - nw.Rng.Int63()
					}
					return lyingTimes[nw.Rng.Intn(len(lyingTimes))]
				}
				for i, p := range ps {
					p := p
					m.Liars[p.sn.Idx] = true
					if cs.I("departing", 0) > 0 && i > 0 {
						// these validators report honest times while they are validators, ask
						// to leave, and - unlike an honest leaver - keep creating events, now
						// with absurd times, after their removal took effect
						p.LeaveAtEvent = 6 + 3*i
						p.Timestamp = func() int64 {
							if p.Departed() {
								nw.Res.count("puppet_events_with_absurd_time_after_departure", 1)
								return lie()
							}
							return time.Now().Unix()
						}
						continue
					}
					p.Timestamp = lie
				}
				return []Monitor{m}
			})
		},
		PerCaseTimeout: 15 * time.Minute,
	})
}

// runC18Dag: synthetic DAG with skewed clocks and liars through a real Hashgraph.
func runC18Dag(cs CaseSpec) *CaseResult {
	res := newResult(cs)
	rng := cs.rng("c18")
	sp := dagSpecFromCase(cs)
	sp.ClockSkew = int64(1+rng.Intn(5)) * 1000
	sp.Private = 0
	d := genDag(rng, cs.Seed*31337+int64(cs.Index), sp)
	x := execDagWithBlocks(d, d.Events)
	defer x.close()
	if x.Err != nil {
		res.inconclusive("execution failed: " + x.Err.Error())
		return res
	}
	checked := 0
	for _, b := range x.RawBlocks {
		ri, err := x.Store.GetRound(b.RoundReceived())
		if err != nil {
			continue
		}
		var all, honest []int64
		for _, w := range ri.FamousWitnesses() {
			de := d.ByHash[w]
			if de == nil {
				all = nil
				break
			}
			all = append(all, de.Body.Timestamp)
			if de.Honest {
				honest = append(honest, de.Body.Timestamp)
			}
		}
		res.Evaluations++
		res.count("timestamp_blocks_checked", 1)
		if len(d.Liars) > 0 {
			res.count("timestamp_blocks_with_lying_validators", 1)
		}
		if sig, msg := checkTimestamp(b.Timestamp(), all, honest, len(d.Liars), d.N); sig != "" {
			res.violate("C18", sig, fmt.Sprintf("block %d (round-received %d): %s", b.Index(), b.RoundReceived(), msg),
				map[string]interface{}{"n": d.N, "liars": len(d.Liars), "famous_witness_times": all, "honest_times": honest, "block_timestamp": b.Timestamp()})
			return res
		}
		checked++
	}
	if checked >= 3 && len(d.Liars) > 0 {
		res.digest("c18dag", cs.Seed, cs.Index, checked)
	}
	res.Sample = map[string]interface{}{"kind": "synthetic DAG with lying clocks", "n": d.N, "liars": len(d.Liars), "events": len(d.Events), "blocks_checked": checked}
	return res
}

// runSockApp: an honest network in which node 0 talks to its application
// through the real socket proxy pair; the application becomes unreachable for
// two stretches of steps (connection refused, established connections closed).
// Whatever the node signs and gossips must be for blocks its application
// received, over the body with the state hash the application returned.
func runSockApp(cs CaseSpec) *CaseResult {
	res := newResult(cs)
	nw := NewNetwork(cs, res)
	defer nw.Close()
	opts := optsFromCase(cs)
	opts.SuspendLimit = 1000000
	nw.DefaultOpts = opts
	nw.SocketApp = map[int]bool{0: true}
	nw.GenesisNodes(int(cs.I("n", 3)), opts, nil)
	x := nw.Nodes[0]
	if x.AppRelay == nil {
		res.inconclusive("socket proxy pair could not be set up")
		return res
	}
	nw.Mons = []Monitor{NewMonSignatures()}
	rng := cs.rng("sockapp")
	steps := int(cs.I("steps", 300))
	type span struct{ from, to int }
	spans := []span{}
	a := steps/8 + rng.Intn(steps/6)
	spans = append(spans, span{a, a + 30 + rng.Intn(60)})
	b := spans[0].to + 20 + rng.Intn(40)
	spans = append(spans, span{b, b + 30 + rng.Intn(60)})
	down := false
	commitsAtDown := 0
	nw.AfterStepHook = func(nw *Network) {
		want := false
		for _, sp := range spans {
			if nw.Step >= sp.from && nw.Step < sp.to {
				want = true
			}
		}
		if want && !down {
			x.AppRelay.down()
			down = true
			commitsAtDown = x.Node.GetLastBlockIndex() + 1
			nw.Res.count("app_outages", 1)
		} else if !want && down {
			if err := x.AppRelay.up(); err != nil {
				nw.Res.count("app_relay_could_not_listen_again", 1)
			}
			down = false
			nw.Res.count("blocks_decided_while_app_unreachable", int64(x.Node.GetLastBlockIndex()+1-commitsAtDown))
		}
	}
	sp := specFromCase(cs)
	sp.SubmitProb = 0.6
	nw.RunSchedule(sp)
	if down {
		x.AppRelay.up()
		down = false
	}
	if !nw.stopped {
		nw.FairCycles(20)
	}
	if !nw.stopped {
		nw.finish()
	}
	res.Evaluations = int64(nw.Step)
	res.count("steps", int64(nw.Step))
	res.count("events_recorded", int64(len(nw.Rec.Order)))
	res.count("histories_with_socket_application", 1)
	blocks := len(x.App.DeliveredCopy())
	if res.Counters["sig_own_event_signatures_checked"] > 0 && res.Counters["app_outages"] >= 2 && blocks >= 3 {
		res.digest("sockapp", cs.Seed, cs.Index, len(nw.Rec.Order), blocks)
	}
	res.Sample = map[string]interface{}{"kind": "nodesim history, node 0's application behind the socket proxy with two outages", "n": cs.I("n", 3), "steps": nw.Step,
		"blocks_delivered_to_node0_app": blocks, "node0_last_block": x.Node.GetLastBlockIndex(), "blocks_decided_while_app_unreachable": res.Counters["blocks_decided_while_app_unreachable"]}
	return res
}
