package main

import (
	"fmt"
	"math/rand"
	"os"
	"strconv"
	"strings"
	"sync"
)

// genElectionSchedule draws a 4-creator gossip schedule after the template
// "ordinary gossip, then slow and uneven gossip for a few rounds, then one
// creator is not heard (it still listens) while the others carry on, then
// everybody gossips in a ring". Entries are {creator, index of other-parent}.
func genElectionSchedule(rng *rand.Rand) [][2]int {
	n := 4
	sched := [][2]int{}
	own := make([][]int, n) // indexes of each creator's events
	add := func(c, other int) {
		sched = append(sched, [2]int{c, other})
		own[c] = append(own[c], len(sched)-1)
	}
	for c := 0; c < n; c++ {
		add(c, -1)
	}
	pick := func(o int, stale float64) int {
		k := len(own[o]) - 1
		if rng.Float64() < stale && k > 0 {
			k -= 1 + rng.Intn(min(3, k))
		}
		return own[o][k]
	}
	otherThan := func(c int, among []int) int {
		for {
			o := among[rng.Intn(len(among))]
			if o != c {
				return o
			}
		}
	}
	all := []int{0, 1, 2, 3}
	// A: ordinary gossip
	for i := 0; i < 8+rng.Intn(10); i++ {
		c := rng.Intn(n)
		add(c, pick(otherThan(c, all), 0.1))
	}
	// B: slow, uneven gossip (stale other-parents, uneven activity)
	w := []int{0, 0, 1, 1, 1, 2, 2, 2, 3, 3}
	rng.Shuffle(len(w), func(i, j int) { w[i], w[j] = w[j], w[i] })
	for i := 0; i < 20+rng.Intn(16); i++ {
		c := w[rng.Intn(len(w))]
		add(c, pick(otherThan(c, all), 0.5+0.3*rng.Float64()))
	}
	// C: creator 3 is not heard; it keeps listening
	three := []int{0, 1, 2}
	for i := 0; i < 12+rng.Intn(12); i++ {
		if rng.Intn(4) == 0 {
			add(3, pick(three[rng.Intn(3)], 0.3))
		} else {
			c := rng.Intn(3)
			// the others only reference events of 0..2, and of 3 only what existed before this phase
			add(c, pick(otherThan(c, three), 0.3))
		}
	}
	// D: ring gossip
	ring := []int{2, 3, 0, 1}
	last := len(sched) - 1
	for i := 0; i < 28+rng.Intn(8); i++ {
		c := ring[(i+1)%4]
		add(c, last)
		last = len(sched) - 1
	}
	return sched
}

// genElectionSchedule2 builds the schedule in two stages: gossip until the real
// code shows an election in which exactly one witness decides "not famous"
// right before the coin round; from then on that witness's creator is not
// heard (it still listens) for a few rounds; then ring gossip.
func genElectionSchedule2(rng *rand.Rand, seed int64) [][2]int {
	n := 4
	sched := [][2]int{}
	own := make([][]int, n)
	add := func(c, other int) {
		sched = append(sched, [2]int{c, other})
		own[c] = append(own[c], len(sched)-1)
	}
	for c := 0; c < n; c++ {
		add(c, -1)
	}
	pick := func(o int, stale float64) int {
		k := len(own[o]) - 1
		if rng.Float64() < stale && k > 0 {
			k -= 1 + rng.Intn(min(3, k))
		}
		return own[o][k]
	}
	otherThan := func(c int, among []int) int {
		for {
			o := among[rng.Intn(len(among))]
			if o != c {
				return o
			}
		}
	}
	all := []int{0, 1, 2, 3}
	for i := 0; i < 8+rng.Intn(10); i++ {
		c := rng.Intn(n)
		add(c, pick(otherThan(c, all), 0.1))
	}
	w := []int{0, 0, 1, 1, 1, 2, 2, 2, 3, 3}
	rng.Shuffle(len(w), func(i, j int) { w[i], w[j] = w[j], w[i] })
	stale := 0.4 + 0.4*rng.Float64()
	D := -1
	ident := []int{0, 1, 2, 3}
	I := rng.Intn(n) // a creator that is not heard during the second half of this stage
	restI := []int{}
	for c := 0; c < n; c++ {
		if c != I {
			restI = append(restI, c)
		}
	}
	for it := 0; it < 45 && D < 0; it++ {
		for k := 0; k < 2; k++ {
			if it < 12 {
				c := w[rng.Intn(len(w))]
				add(c, pick(otherThan(c, all), stale))
			} else if rng.Intn(4) == 0 {
				add(I, pick(restI[rng.Intn(3)], 0.2))
			} else {
				c := restI[rng.Intn(3)]
				add(c, pick(otherThan(c, restI), 0.3))
			}
		}
		if len(sched) < 30 {
			continue
		}
		d := genDagFromShapePerm(rand.New(rand.NewSource(seed)), seed, sched, 4, ident)
		probe := execDag(d, d.Events, ExecOpts{Store: "inmem", Cache: len(d.Events)*2 + 200, Batch: 1, ReadValues: true})
		if probe.Err == nil {
			_, _, _, ps := electionProfileFull(probe)
			for _, p := range ps {
				if len(p.Deciders) == 1 && p.Total >= 2 {
					D = d.ByHash[p.Deciders[0]].Creator
				}
			}
		}
		probe.close()
	}
	if D < 0 {
		return nil
	}
	rest := []int{}
	for c := 0; c < n; c++ {
		if c != D {
			rest = append(rest, c)
		}
	}
	for i := 0; i < 14+rng.Intn(14); i++ {
		if rng.Intn(4) == 0 {
			add(D, pick(rest[rng.Intn(3)], 0.2))
		} else {
			c := rest[rng.Intn(3)]
			add(c, pick(otherThan(c, rest), 0.2))
		}
	}
	ring := []int{2, 3, 0, 1}
	last := len(sched) - 1
	for i := 0; i < 28+rng.Intn(8); i++ {
		c := ring[(i+1)%4]
		if sched[last][0] == c {
			continue
		}
		add(c, last)
		last = len(sched) - 1
	}
	return sched
}

func min(a, b int) int {
	if a < b {
		return a
	}
	return b
}

func shapeLiteral(s [][2]int) string {
	var b strings.Builder
	b.WriteString("[][2]int{")
	for i, p := range s {
		if i%12 == 0 {
			b.WriteString("\n\t")
		}
		fmt.Fprintf(&b, "{%d, %d}, ", p[0], p[1])
	}
	b.WriteString("\n}")
	return b.String()
}

// findShapeMain searches for schedules in which an election is decided by some
// witnesses right before its coin round while a later witness does not descend
// from them, and reports whether the real code computes the same result from
// the creation order and from that witness's view first. Workload search only.
func findShapeMain(args []string) int {
	start, _ := strconv.ParseInt(args[0], 10, 64)
	tries, _ := strconv.Atoi(args[1])
	var mu sync.Mutex
	var wg sync.WaitGroup
	dbg := map[string]int{}
	var dmu sync.Mutex
	profileDebug = func(m string) {
		dmu.Lock()
		dbg[m[strings.Index(m, "diff="):]]++
		dmu.Unlock()
	}
	defer func() { fmt.Fprintf(os.Stderr, "elections not fully decided at diff 3: %v\n", dbg) }()
	found := 0
	hist := map[int]int{}
	for wk := 0; wk < 16; wk++ {
		wg.Add(1)
		go func(wk int) {
			defer wg.Done()
			for t := wk; t < tries; t += 16 {
				seed := start + int64(t)
				rng := rand.New(rand.NewSource(seed))
				var shape [][2]int
				var d *Dag
				if len(args) > 2 && args[2] == "corpus" {
					shape = shapeCorpus["long-election"]
				} else if len(args) > 2 && args[2] == "layered" {
					var failedAt string
					shape, failedAt = layeredElectionSchedule(rng, seed)
					mu.Lock()
					hist[map[string]int{"": -10, "L1": -11, "L2": -12, "L3": -13, "L4": -14}[failedAt]]++
					mu.Unlock()
					if shape == nil {
						continue
					}
				} else if len(args) > 2 && args[2] == "two" {
					shape = genElectionSchedule2(rng, seed)
					if shape == nil {
						continue
					}
					mu.Lock()
					hist[-1]++
					mu.Unlock()
				} else {
					shape = genElectionSchedule(rng)
				}
				d = genDagFromShape(rng, seed, shape, 4)
				probe := execDag(d, d.Events, ExecOpts{Store: "inmem", Cache: len(d.Events)*2 + 200, Batch: 1, ReadValues: true})
				if probe.Err != nil {
					probe.close()
					continue
				}
				partial, maxDiff, free := electionProfileZ(probe)
				if len(args) > 2 && args[2] == "layered" {
					if r1, err := probe.Store.GetRound(1); err == nil {
						for _, w := range r1.Witnesses() {
							m := subjectVotes(probe, d, w, 1)
							line := fmt.Sprintf("seed=%d subject creator %d:", seed, d.ByHash[w].Creator)
							for j := 2; j <= 7; j++ {
								line += fmt.Sprintf(" r%d[", j)
								for _, v := range m[j] {
									c := "n"
									if v.Vote {
										c = "y"
									}
									if v.Decides {
										c = strings.ToUpper(c)
									}
									line += fmt.Sprintf("%d%s%d ", v.Creator, c, v.T)
								}
								line += "]"
							}
							fmt.Fprintln(os.Stderr, line)
						}
					}
				}
				mu.Lock()
				hist[maxDiff]++
				hist[100+probe.MaxPendingSpan]++
				mu.Unlock()
				idx := map[string]int{}
				for i, e := range d.Events {
					idx[e.Hash] = i
				}
				if len(args) > 2 && args[2] == "brute" {
					// every later event's view
					free = nil
					for z := len(d.Events) / 2; z < len(d.Events)-8; z += 2 {
						free = append(free, d.Events[z].Hash)
					}
				} else if partial == 0 {
					probe.close()
					continue
				}
				differs := 0
				for _, zh := range free {
					x := execDag(d, d.ancestryFirst(idx[zh]), ExecOpts{Store: "inmem", Cache: len(d.Events)*2 + 200, Batch: 1, ReadValues: true})
					if x.Err == nil && compareExec(probe, x, false) != "" {
						differs++
					}
					x.close()
				}
				probe.close()
				if len(args) > 2 && args[2] == "brute" && differs == 0 {
					continue
				}
				mu.Lock()
				found++
				fmt.Printf("CANDIDATE seed=%d events=%d partial=%d free=%d orders_that_differ=%d\n", seed, len(shape), partial, len(free), differs)
				if differs > 0 || os.Getenv("FINDSHAPE_PRINT") != "" {
					fmt.Println(shapeLiteral(shape))
				}
				mu.Unlock()
			}
		}(wk)
	}
	wg.Wait()
	fmt.Fprintf(os.Stderr, "histogram (maxDiff; 100+pending span): %v\n", hist)
	fmt.Fprintf(os.Stderr, "candidates with a partial decision before a coin round: %d of %d\n", found, tries)
	return 0
}

// voteInfo is what one witness contributes to the election of a subject.
type voteInfo struct {
	Hash    string
	Creator int
	Vote    bool
	T       int
	Decides bool
}

// subjectVotes replays the virtual voting on witness w (of round r) with the
// real see / strongly-see predicates: per later round, every witness's vote.
func subjectVotes(x *DagExec, d *Dag, w string, r int) map[int][]voteInfo {
	h, st := x.H, x.Store
	out := map[int][]voteInfo{}
	votes := map[string]bool{}
	for j := r + 1; j <= st.LastRound(); j++ {
		rj, err := st.GetRound(j)
		if err != nil {
			break
		}
		psj, err := st.GetPeerSet(j)
		if err != nil {
			break
		}
		diff := j - r
		for _, y := range rj.Witnesses() {
			vi := voteInfo{Hash: y, Creator: d.ByHash[y].Creator}
			if diff == 1 {
				s, _ := h.VerifAncestor(y, w)
				vi.Vote = s
			} else {
				prev, err := st.GetRound(j - 1)
				if err != nil {
					continue
				}
				psp, _ := st.GetPeerSet(j - 1)
				yays, nays := 0, 0
				for _, z := range prev.Witnesses() {
					if ss, _ := h.VerifStronglySee(y, z, psp); ss {
						if votes[z] {
							yays++
						} else {
							nays++
						}
					}
				}
				vi.Vote, vi.T = false, nays
				if yays >= nays {
					vi.Vote, vi.T = true, yays
				}
				if diff%4 != 0 {
					vi.Decides = vi.T >= psj.SuperMajority()
				} else if vi.T < psj.SuperMajority() {
					vi.Vote = middleBitOf(y)
				}
			}
			votes[y] = vi.Vote
			out[j] = append(out[j], vi)
		}
	}
	return out
}

// layeredElectionSchedule builds a 4-creator schedule layer by layer, drawing
// each gossip segment again until the real code shows the wanted votes for the
// subject (a round-1 witness): round 2 split two/two, round 3 one yes three no,
// round 4 exactly one witness deciding "not famous" that nobody else descends
// from; then the decider's creator is not heard while the others go through the
// coin round and one more round; then ring gossip.
func layeredElectionSchedule(rng *rand.Rand, seed int64) ([][2]int, string) {
	n := 4
	ident := []int{0, 1, 2, 3}
	type state struct {
		sched [][2]int
		own   [][]int
	}
	clone := func(s state) state {
		c := state{sched: append([][2]int{}, s.sched...), own: make([][]int, n)}
		for i := range s.own {
			c.own[i] = append([]int{}, s.own[i]...)
		}
		return c
	}
	cur := state{own: make([][]int, n)}
	add := func(s *state, c, other int) {
		s.sched = append(s.sched, [2]int{c, other})
		s.own[c] = append(s.own[c], len(s.sched)-1)
	}
	for c := 0; c < n; c++ {
		add(&cur, c, -1)
	}
	segment := func(s *state, k int, among []int, listenOnly int, stale float64) {
		wts := []int{}
		for _, c := range among {
			for q := 0; q < 1+rng.Intn(3); q++ {
				wts = append(wts, c)
			}
		}
		for i := 0; i < k; i++ {
			if listenOnly >= 0 && rng.Intn(4) == 0 {
				o := among[rng.Intn(len(among))]
				add(s, listenOnly, s.own[o][len(s.own[o])-1])
				continue
			}
			c := wts[rng.Intn(len(wts))]
			var o int
			for {
				o = among[rng.Intn(len(among))]
				if o != c {
					break
				}
			}
			kk := len(s.own[o]) - 1
			if rng.Float64() < stale && kk > 0 {
				kk -= 1 + rng.Intn(min(3, kk))
			}
			add(s, c, s.own[o][kk])
		}
	}
	type probeRes struct {
		d      *Dag
		x      *DagExec
		votes  map[string]map[int][]voteInfo // subject -> round -> votes
		rounds map[string]int                // subject -> its round
	}
	probe := func(s state) *probeRes {
		d := genDagFromShapePerm(rand.New(rand.NewSource(seed)), seed, s.sched, 4, ident)
		x := execDag(d, d.Events, ExecOpts{Store: "inmem", Cache: len(d.Events)*2 + 200, Batch: 1, ReadValues: true})
		if x.Err != nil {
			x.close()
			return nil
		}
		pr := &probeRes{d: d, x: x, votes: map[string]map[int][]voteInfo{}, rounds: map[string]int{}}
		last := x.Store.LastRound()
		for r := last - 6; r <= last; r++ {
			if r < 1 {
				continue
			}
			if ri, err := x.Store.GetRound(r); err == nil {
				for _, w := range ri.Witnesses() {
					pr.votes[w] = subjectVotes(x, d, w, r)
					pr.rounds[w] = r
				}
			}
		}
		return pr
	}
	all := []int{0, 1, 2, 3}
	count := func(vs []voteInfo) (y, nn, dec int) {
		for _, v := range vs {
			if v.Vote {
				y++
			} else {
				nn++
			}
			if v.Decides {
				dec++
			}
		}
		return
	}
	// layer predicates on a chosen subject
	subject := ""
	try := func(layer string, maxTries int, gen func(s *state), ok func(pr *probeRes) bool) bool {
		for t := 0; t < maxTries; t++ {
			cand := clone(cur)
			gen(&cand)
			pr := probe(cand)
			if pr == nil {
				continue
			}
			good := ok(pr)
			pr.x.close()
			if good {
				cur = cand
				return true
			}
		}
		return false
	}
	// L1: grow the history event by event until some witness (of round R) has the
	// next round's four witnesses split two/two on it and nothing beyond
	R := 0
	stale1 := 0.3 + 0.4*rng.Float64()
	for it := 0; it < 90 && subject == ""; it++ {
		segment(&cur, 1, all, -1, stale1)
		if len(cur.sched) < 12 {
			continue
		}
		pr := probe(cur)
		if pr == nil {
			continue
		}
		for w, m := range pr.votes {
			r := pr.rounds[w]
			if len(m[r+1]) == 4 && len(m[r+2]) == 0 {
				if y, nn, _ := count(m[r+1]); y == 2 && nn == 2 {
					subject, R = w, r
				}
			}
		}
		pr.x.close()
	}
	if subject == "" {
		return nil, "L1"
	}
	subjIdx := -1
	// the subject is identified by its position in the schedule (hashes change with keys)
	{
		pr := probe(cur)
		for i, e := range pr.d.Events {
			if e.Hash == subject {
				subjIdx = i
			}
		}
		pr.x.close()
	}
	votesOf := func(pr *probeRes) map[int][]voteInfo {
		h := pr.d.Events[subjIdx].Hash
		if m, ok := pr.votes[h]; ok {
			return m
		}
		return subjectVotes(pr.x, pr.d, h, R)
	}
	// L2: round-3 witnesses of all four: one yes, three no
	if !try("L2", 600, func(s *state) { segment(s, 6+rng.Intn(12), all, -1, 0.3+0.5*rng.Float64()) }, func(pr *probeRes) bool {
		m := votesOf(pr)
		if len(m[R+2]) == 4 && len(m[R+3]) == 0 {
			y, nn, _ := count(m[R+2])
			return y == 1 && nn == 3
		}
		return false
	}) {
		return nil, "L2"
	}
	// L3: round-4 witnesses of all four; exactly one decides (no), nobody else descends from it
	D := -1
	if !try("L3", 1500, func(s *state) { segment(s, 6+rng.Intn(12), all, -1, 0.3+0.5*rng.Float64()) }, func(pr *probeRes) bool {
		m := votesOf(pr)
		if len(m[R+3]) != 4 || len(m[R+4]) != 0 {
			return false
		}
		_, nn, dec := count(m[R+3])
		if dec != 1 || nn != 4 {
			return false
		}
		var y0 voteInfo
		for _, v := range m[R+3] {
			if v.Decides {
				y0 = v
			}
		}
		for _, e := range pr.d.Events {
			if e.Creator != y0.Creator {
				if a, _ := pr.x.H.VerifAncestor(e.Hash, y0.Hash); a {
					return false
				}
			}
		}
		D = y0.Creator
		return true
	}) {
		return nil, "L3"
	}
	rest := []int{}
	for c := 0; c < n; c++ {
		if c != D {
			rest = append(rest, c)
		}
	}
	// L4: the others reach round 6 without the decider's creator being heard
	if !try("L4", 300, func(s *state) { segment(s, 16+rng.Intn(14), rest, D, 0.15) }, func(pr *probeRes) bool {
		m := votesOf(pr)
		for _, v := range m[R+5] {
			if v.Creator != D {
				return true
			}
		}
		return false
	}) {
		return nil, "L4"
	}
	// ring gossip
	ring := []int{2, 3, 0, 1}
	last := len(cur.sched) - 1
	for i := 0; i < 30; i++ {
		c := ring[(i+1)%4]
		if cur.sched[last][0] == c {
			continue
		}
		add(&cur, c, last)
		last = len(cur.sched) - 1
	}
	return cur.sched, ""
}

// findCollisionsMain prints pairs (i, j) such that detKey(0,"collide",i) and
// detKey(0,"collide",j) have the same 32-bit peer id (birthday search).
func findCollisionsMain(args []string) int {
	want, _ := strconv.Atoi(args[0])
	seen := map[uint32]int{}
	found := 0
	for i := 0; found < want && i < 2000000; i++ {
		k := detKey(0, "collide", i)
		id := mkPeer(k, "x", "x").ID()
		if j, ok := seen[id]; ok {
			fmt.Printf("{%d, %d}, // id %d\n", j, i, id)
			found++
			continue
		}
		seen[id] = i
	}
	return 0
}
