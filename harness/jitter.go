package main

import (
	"math/rand"
	"sync"
	"time"

	hg "github.com/mosaicnetworks/babble/src/hashgraph"
	bnet "github.com/mosaicnetworks/babble/src/net"
)

// ---------------------------------------------------------------------------
// Injected delays for the live engine. No failpoint is compiled into Babble:
// the delays sit at the interfaces a node is given anyway (its store, its
// transport, its application), i.e. at existing suspension points - inside a
// store call the node holds its core lock, between the two halves of a gossip
// exchange it does not, inside the application's commit callback it is in the
// middle of turning a decided round into a block. They only widen the windows
// between goroutines that a loaded machine would also open; verdicts still
// come from the recorded deliveries.
// ---------------------------------------------------------------------------

type jitter struct {
	mu  sync.Mutex
	rng *rand.Rand
	// one call in Every sleeps for up to Max
	Every int
	Max   time.Duration
	Naps  int64
}

func newJitter(seed int64, every int, max time.Duration) *jitter {
	return &jitter{rng: rand.New(rand.NewSource(seed)), Every: every, Max: max}
}

func (j *jitter) nap() {
	if j == nil || j.Every <= 0 {
		return
	}
	j.mu.Lock()
	hit := j.rng.Intn(j.Every) == 0
	d := time.Duration(j.rng.Int63n(int64(j.Max) + 1))
	if hit {
		j.Naps++
	}
	j.mu.Unlock()
	if hit {
		time.Sleep(d)
	}
}

// jitterStore delays the writes a node makes while it holds its core lock.
type jitterStore struct {
	hg.Store
	j *jitter
}

func (s *jitterStore) SetEvent(e *hg.Event) error        { s.j.nap(); return s.Store.SetEvent(e) }
func (s *jitterStore) SetBlock(b *hg.Block) error        { s.j.nap(); return s.Store.SetBlock(b) }
func (s *jitterStore) SetFrame(f *hg.Frame) error        { s.j.nap(); return s.Store.SetFrame(f) }
func (s *jitterStore) GetBlock(i int) (*hg.Block, error) { return s.Store.GetBlock(i) }

// jitterTransport delays outgoing requests before they are sent and after the
// answer came back (between pull and push, before a response is processed).
type jitterTransport struct {
	bnet.Transport
	j *jitter
}

func (t *jitterTransport) Sync(target string, args *bnet.SyncRequest, resp *bnet.SyncResponse) error {
	t.j.nap()
	err := t.Transport.Sync(target, args, resp)
	t.j.nap()
	return err
}

func (t *jitterTransport) EagerSync(target string, args *bnet.EagerSyncRequest, resp *bnet.EagerSyncResponse) error {
	t.j.nap()
	err := t.Transport.EagerSync(target, args, resp)
	t.j.nap()
	return err
}
