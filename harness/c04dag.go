package main

import (
	"fmt"
	"os"
	"time"
)

// ---------------------------------------------------------------------------
// C04 on a persistent store whose cache is smaller than the number of events
// in flight: events are evicted from the cache and read back from the
// database between the passes of one consensus run (what is read back has lost
// the fields the database does not keep). The simulator's nodes are too slow
// in that regime (their memo caches thrash), so this runs one synthetic DAG
// through one real Hashgraph on Badger, a consensus pass per insertion, and
// judges the delivered blocks with C04's own oracle against the harness's
// record of the DAG: ancestors' payload first, every event once, whole and in
// the creator's order. (Prompted by seeded change C04e.)
// ---------------------------------------------------------------------------

func runC04SmallCache(cs CaseSpec) *CaseResult {
	res := newResult(cs)
	rng := cs.rng("c04dag")
	sp := dagSpecFromCase(cs)
	sp.N = int(cs.I("n", 4))
	sp.Events = int(cs.I("events", 320))
	sp.TxProb = 0.9
	d := genDag(rng, cs.Seed*32452843+int64(cs.Index), sp)
	dir := dagWorkDir(cs)
	defer os.RemoveAll(dir)
	cache := int(cs.I("cache", 40))

	type out struct{ x *DagExec }
	ch := make(chan out, 1)
	go func() {
		ch <- out{execDag(d, d.Events, ExecOpts{Store: "badger", Cache: cache, Batch: 1, Dir: dir, RemoveCreator: -1})}
	}()
	var x *DagExec
	select {
	case o := <-ch:
		x = o.x
	case <-time.After(time.Duration(cs.I("watchdog_s", 240)) * time.Second):
		res.inconclusive(fmt.Sprintf("watchdog: the execution with cache %d did not finish", cache))
		return res
	}
	if x.Store != nil {
		defer x.Store.Close()
	}
	res.count("smallcache_dag_events_inserted", int64(x.Inserted))
	res.max("smallcache_max_undetermined_events", int64(x.MaxUndet))
	if x.Err != nil {
		res.count("smallcache_executions_ending_in_a_store_error_outside_the_supported_range", 1)
	}

	// tx -> event (unique ids; ambiguous contents are left out)
	owner := map[string]string{}
	ambiguous := map[string]bool{}
	for _, de := range d.Events {
		for _, tx := range de.Body.Transactions {
			k := string(tx)
			if _, ok := owner[k]; ok {
				ambiguous[k] = true
			}
			owner[k] = de.Hash
		}
	}
	type pos struct{ block, at int }
	first := map[string]pos{}   // event -> position of its first transaction
	seenTx := map[string]bool{} // committed transactions
	done := map[string]bool{}   // events fully committed
	order := []string{}         // events in commit order
	for bi, b := range x.RawBlocks {
		txs := b.Transactions()
		for i := 0; i < len(txs); {
			k := string(txs[i])
			if ambiguous[k] {
				i++
				continue
			}
			eh, ok := owner[k]
			if !ok {
				res.violate("C04", "C04:block-payload-not-concatenation", fmt.Sprintf("block %d carries a transaction that no event of the DAG carries", bi), map[string]interface{}{"cache": cache, "n": d.N})
				return res
			}
			if done[eh] {
				res.violate("C04", "C04:event-committed-twice", fmt.Sprintf("transactions of event %s appear again in block %d", trunc(eh, 12), bi), map[string]interface{}{"cache": cache, "n": d.N})
				return res
			}
			want := d.ByHash[eh].Body.Transactions
			for j := range want {
				if i+j >= len(txs) || string(txs[i+j]) != string(want[j]) {
					res.violate("C04", "C04:event-payload-split-or-reordered", fmt.Sprintf("block %d: the transactions of event %s are not contiguous in the creator's order", bi, trunc(eh, 12)), map[string]interface{}{"cache": cache, "n": d.N})
					return res
				}
				seenTx[string(want[j])] = true
			}
			first[eh] = pos{bi, i}
			done[eh] = true
			order = append(order, eh)
			i += len(want)
		}
	}
	// ancestors' payload first
	anc := map[string]map[string]bool{} // event -> payload-carrying ancestors (memoised, DAG is small)
	var ancestors func(h string) map[string]bool
	ancestors = func(h string) map[string]bool {
		if a, ok := anc[h]; ok {
			return a
		}
		a := map[string]bool{}
		anc[h] = a
		de := d.ByHash[h]
		if de == nil {
			return a
		}
		for _, p := range de.Body.Parents {
			if p == "" || d.ByHash[p] == nil {
				continue
			}
			if len(d.ByHash[p].Body.Transactions) > 0 {
				a[p] = true
			}
			for q := range ancestors(p) {
				a[q] = true
			}
		}
		return a
	}
	for _, eh := range order {
		me := first[eh]
		for a := range ancestors(eh) {
			unamb := false
			for _, tx := range d.ByHash[a].Body.Transactions {
				if !ambiguous[string(tx)] {
					unamb = true
				}
			}
			if !unamb {
				continue
			}
			res.Evaluations++
			pa, ok := first[a]
			if !ok || pa.block > me.block || (pa.block == me.block && pa.at > me.at) {
				where := "never"
				if ok {
					where = fmt.Sprintf("block %d position %d", pa.block, pa.at)
				}
				res.violate("C04", "C04:ancestor-committed-later-or-never",
					fmt.Sprintf("event %s is committed (block %d position %d) before its ancestor %s (%s); Badger store with cache %d, at most %d undetermined events", trunc(eh, 12), me.block, me.at, trunc(a, 12), where, cache, x.MaxUndet),
					map[string]interface{}{"cache": cache, "n": d.N, "max_undetermined": x.MaxUndet})
				return res
			}
		}
	}
	res.count("smallcache_blocks_checked", int64(len(x.RawBlocks)))
	res.count("smallcache_events_committed", int64(len(order)))
	if len(x.RawBlocks) >= 3 && x.MaxUndet > cache {
		res.digest("c04dag", cs.Seed, cs.Index, cache, len(order), d.Events[len(d.Events)-1].Hash)
	}
	res.Sample = map[string]interface{}{"kind": "one DAG through a Hashgraph on Badger with a cache below the events in flight", "n": d.N, "events": len(d.Events), "cache": cache, "max_undetermined": x.MaxUndet, "blocks": len(x.RawBlocks), "error": fmt.Sprint(x.Err)}
	return res
}
