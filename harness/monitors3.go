package main

import (
	"fmt"
	"os"
	"sort"

	hg "github.com/mosaicnetworks/babble/src/hashgraph"
)

// ---------------------------------------------------------------------------
// C09 block signatures and the anchor
// ---------------------------------------------------------------------------

type sigState struct {
	anchor      int
	epoch       int
	checkedSigs map[int]int // block index -> number of signatures when last verified
}

type MonSignatures struct {
	st      map[*SimNode]*sigState
	ownSeen int
}

func NewMonSignatures() *MonSignatures { return &MonSignatures{st: map[*SimNode]*sigState{}} }
func (m *MonSignatures) Name() string  { return "signatures" }

// finalBody returns the node's delivered body of block idx with the
// application's response written in (what a block signature must cover).
func finalBody(n *SimNode, idx int) *hg.BlockBody {
	if n.App == nil {
		return nil
	}
	for i := len(n.App.Delivered) - 1; i >= 0; i-- {
		d := n.App.Delivered[i]
		if d.Index == idx {
			b := d.Body
			b.StateHash = d.Resp.StateHash
			b.InternalTransactionReceipts = d.Resp.InternalTransactionReceipts
			return &b
		}
	}
	return nil
}

func (m *MonSignatures) AfterStep(nw *Network) {
	// (c) block signatures inside events
	for ; m.ownSeen < len(nw.Rec.Order); m.ownSeen++ {
		e := nw.Rec.Order[m.ownSeen]
		for _, bs := range e.Sigs {
			// attribution: a signature gossiped in an event belongs to the event's creator
			if bs.ValidatorHex() != e.Creator {
				nw.violate("C09", "C09:signature-attributed-to-other-than-creator",
					fmt.Sprintf("event %s by %s carries a block signature attributed to %s", e.Hash[:12], e.Creator[:12], trunc(bs.ValidatorHex(), 12)), nil)
				return
			}
		}
		if e.CreatorIdx < 0 || !e.Honest {
			continue
		}
		x := nw.Nodes[e.CreatorIdx]
		for _, bs := range e.Sigs {
			nw.Res.count("sig_own_event_signatures_checked", 1)
			fb := finalBody(x, bs.Index)
			if fb == nil {
				nw.violate("C09", "C09:signed-undelivered-block",
					fmt.Sprintf("node %d put a signature for block %d into its event %s although it has not delivered that block to its application", x.Idx, bs.Index, e.Hash[:12]),
					map[string]interface{}{"node": x.Idx})
				return
			}
			if !verifySig(x.PubHex, fb, bs.Signature) {
				nw.violate("C09", "C09:own-signature-not-over-final-body",
					fmt.Sprintf("node %d's signature for block %d (event %s) does not verify against the delivered body including the returned state hash", x.Idx, bs.Index, e.Hash[:12]),
					map[string]interface{}{"node": x.Idx})
				return
			}
		}
	}
	for _, n := range nw.Nodes {
		if n.Node == nil || n.Puppet || !n.Up || n.StoreClosed {
			continue
		}
		s := m.st[n]
		if s == nil || s.epoch != n.ResetEpochs+1000*n.Incarnation {
			s = &sigState{anchor: -1, epoch: n.ResetEpochs + 1000*n.Incarnation, checkedSigs: map[int]int{}}
			m.st[n] = s
		}
		st := n.Core.Hg().Store
		last := st.LastBlockIndex()
		lo := last - 10
		if nw.Step%40 == 0 {
			lo = -1
		}
		// (a) every recorded signature is by a member of the block's round set and verifies
		for i := last; i > lo && i >= 0; i-- {
			b, err := st.GetBlock(i)
			if err != nil {
				continue
			}
			if s.checkedSigs[i] == len(b.Signatures) && nw.Step%40 != 0 {
				continue
			}
			ps, err := st.GetPeerSet(b.RoundReceived())
			if err != nil {
				continue
			}
			body := b.Body
			for val, sig := range b.Signatures {
				nw.Res.count("sig_stored_signatures_verified", 1)
				if _, ok := ps.ByPubKey[val]; !ok {
					nw.violate("C09", "C09:stored-signature-by-non-member",
						fmt.Sprintf("node %d recorded on block %d a signature under key %s which is not in the validator set of round %d", n.Idx, i, trunc(val, 14), b.RoundReceived()),
						map[string]interface{}{"node": n.Idx, "resets": n.ResetEpochs})
					return
				}
				if !verifySig(val, &body, sig) {
					nw.violate("C09", "C09:stored-signature-invalid",
						fmt.Sprintf("node %d recorded on block %d a signature of %s that does not verify against its own body of that block", n.Idx, i, trunc(val, 14)),
						map[string]interface{}{"node": n.Idx, "resets": n.ResetEpochs})
					return
				}
			}
			s.checkedSigs[i] = len(b.Signatures)
		}
		// (b) the anchor
		ab, _, err := n.Core.GetAnchorBlockWithFrame()
		if err == nil && ab != nil {
			nw.Res.count("sig_anchor_checks", 1)
			ps, err := st.GetPeerSet(ab.RoundReceived())
			if err == nil {
				valid := map[string]bool{}
				body := ab.Body
				for val, sig := range ab.Signatures {
					if p, ok := ps.ByPubKey[val]; ok && verifySig(val, &body, sig) {
						valid[p.PubKeyString()] = true
					}
				}
				nv := ps.Len()
				ok := 3*len(valid) > nv
				if nv == 1 {
					ok = len(valid) >= 1
				}
				if !ok {
					nw.violate("C09", "C09:anchor-undersigned",
						fmt.Sprintf("node %d offers block %d as fast-sync anchor with %d valid distinct validator signatures out of %d validators", n.Idx, ab.Index(), len(valid), nv),
						map[string]interface{}{"node": n.Idx})
					return
				}
			}
			if ab.Index() < s.anchor {
				nw.violate("C09", "C09:anchor-moved-backwards",
					fmt.Sprintf("node %d: anchor block index went from %d to %d without a reset", n.Idx, s.anchor, ab.Index()), map[string]interface{}{"node": n.Idx})
				return
			}
			if ab.Index() > s.anchor {
				nw.Res.count("sig_anchor_advances", 1)
			}
			s.anchor = ab.Index()
		}
	}
}
func (m *MonSignatures) Finish(nw *Network) {}

// ---------------------------------------------------------------------------
// C06 bounded liveness: judged after the fair suffix
// ---------------------------------------------------------------------------

func checkLiveness(nw *Network, res *CaseResult, cycles int, idle bool, bound int) {
	res.count("liveness_histories_judged", 1)
	res.max("liveness_max_fair_cycles_needed", int64(cycles))
	res.count(fmt.Sprintf("liveness_cycles_hist_%02d", minInt(cycles, 20)), 1)
	live := []*SimNode{}
	for _, n := range nw.Nodes {
		if n.babbling() && !n.Silent {
			if n.unjudgedAfterReset() {
				// a fast-forwarded node that had to refuse events it received (parents below
				// its frame: documented limitation) cannot follow any more; it is not part of
				// the live set whose progress is judged
				res.count("liveness_reset_nodes_that_cannot_insert_excluded", 1)
				continue
			}
			live = append(live, n)
		}
	}
	// premise of C06: more than two thirds of the current validators keep
	// exchanging syncs. Nodes that suspended themselves during the prefix (no
	// quorum for too long: designed behaviour, C17), that left, or that cannot
	// follow any more do not; if the rest is not a supermajority the property
	// says nothing about this history.
	if len(live) > 0 {
		// the current validator set according to the harness: genesis modified by the
		// accepted receipts of the longest delivered chain (not what a node claims)
		vals := pubSet(nw.Genesis)
		var longest *SimNode
		for _, n := range nw.Nodes {
			if n.App != nil && fullHistory(n) && (longest == nil || len(n.App.Delivered) > len(longest.App.Delivered)) {
				longest = n
			}
		}
		if longest != nil {
			for _, d := range longest.App.Delivered {
				for _, rc := range d.Resp.InternalTransactionReceipts {
					if !rc.Accepted {
						continue
					}
					pk := rc.InternalTransaction.Body.Peer.PubKeyString()
					if rc.InternalTransaction.Body.Type == hg.PEER_ADD {
						vals[pk] = true
					} else if rc.InternalTransaction.Body.Type == hg.PEER_REMOVE {
						delete(vals, pk)
					}
				}
			}
		}
		lv := 0
		for _, n := range live {
			if vals[n.PubHex] {
				lv++
			}
		}
		if 3*lv <= 2*len(vals) {
			res.count("liveness_premise_not_met_live_validators_not_a_supermajority", 1)
			res.Digests = nil
			return
		}
	} else {
		res.count("liveness_premise_not_met_live_validators_not_a_supermajority", 1)
		res.Digests = nil
		return
	}
	pendingJoins := 0
	for _, pj := range nw.joinOf {
		if pj.host == nil {
			continue
		}
		for _, n := range live {
			if n == pj.host {
				pendingJoins++
			}
		}
	}
	if !idle {
		busy := []int{}
		for _, n := range live {
			if n.Core.Busy() {
				busy = append(busy, n.Idx)
			}
		}
		if len(busy) == 0 && pendingJoins == 0 {
			stuckOnly := true
			for _, n := range nw.upReal() {
				st := n.Node.GetState().String()
				if (st == "CatchingUp" || st == "Joining") && !n.Silent {
					stuckOnly = false
				}
			}
			if stuckOnly {
				idle = true
			}
		}
	}
	if !idle {
		busy := []int{}
		for _, n := range live {
			if n.Core.Busy() {
				busy = append(busy, n.Idx)
			}
		}
		probe := map[string]string{}
		if os.Getenv("VERIF_PROBE_SELF_EVENT") != "" {
			for _, n := range live {
				if n.Core.Busy() {
					before := len(n.Core.Hg().UndeterminedEvents)
					err := n.Core.AddSelfEvent("")
					_, seq := n.Core.Head()
					probe[fmt.Sprint(n.Idx)] = fmt.Sprintf("AddSelfEvent: err=%v undetermined %d->%d seq=%d lastRound=%d", err, before, len(n.Core.Hg().UndeterminedEvents), seq, n.Core.Hg().Store.LastRound())
				}
			}
			fmt.Fprintf(os.Stderr, "PROBE %v\n", probe)
		}
		sig := "C06:not-idle-within-bound"
		msg := fmt.Sprintf("after %d fair all-pairs cycles among the live validators, nodes %v are still busy (or a join / fast-forward is still pending)", bound, busy)
		if desc := onlyChildlessEventsOfDeparted(nw, live, pendingJoins); desc != "" {
			// a specific, recorded way of never becoming idle (see known_findings.json)
			sig = "C06:busy-forever-on-childless-event-of-departed-validator"
			msg += "; the only thing keeping them busy: " + desc
		}
		nw.violate("C06", sig, msg,
			map[string]interface{}{"busy": busy, "pending_joins_at_live_hosts": pendingJoins, "diag": progressDiag(nw, nil)})
		return
	}
	if len(live) == 0 {
		return
	}
	// every payload-carrying event held by a live node is committed by all full-history live nodes
	maxLen := -1
	lens := map[int]int{}
	for _, n := range live {
		if !fullHistory(n) {
			continue
		}
		l := n.Node.GetLastBlockIndex()
		lens[n.Idx] = l
		if l > maxLen {
			maxLen = l
		}
	}
	for idx, l := range lens {
		if l != maxLen {
			nw.violate("C06", "C06:chains-differ-in-length-when-idle",
				fmt.Sprintf("all live nodes are idle but node %d has %d blocks while another has %d", idx, l+1, maxLen+1), map[string]interface{}{"lengths": fmt.Sprint(lens)})
			return
		}
	}
	for _, n := range live {
		if !fullHistory(n) {
			continue
		}
		committed := map[string]bool{}
		h := n.Core.Hg()
		for _, d := range n.App.Delivered {
			fr, err := h.Store.GetFrame(d.Body.RoundReceived)
			if err != nil {
				continue
			}
			for _, fe := range fr.Events {
				committed[fe.Core.Hex()] = true
			}
		}
		leftoverEmpty := 0
		for _, hash := range n.order {
			re := nw.Rec.Events[hash]
			if re == nil {
				continue
			}
			if committed[hash] {
				continue
			}
			if !re.loaded() {
				leftoverEmpty++
				continue
			}
			res.count("liveness_payload_event_checks", 1)
			nw.violate("C06", "C06:payload-event-not-committed",
				fmt.Sprintf("live node %d holds payload-carrying event %s (creator %d index %d) that is not committed after the fair suffix", n.Idx, hash[:12], re.CreatorIdx, re.Index),
				map[string]interface{}{"node": n.Idx, "event": hash})
			return
		}
		res.count("liveness_leftover_empty_events", int64(leftoverEmpty))
		res.count("liveness_nodes_checked", 1)
		// pools must be empty (nothing accepted is still pending)
		if len(n.Core.TransactionPool()) > 0 || len(n.Core.InternalTransactionPool()) > 0 {
			nw.violate("C06", "C06:pool-not-empty-when-idle", fmt.Sprintf("node %d is reported idle with a non-empty pool", n.Idx), nil)
			return
		}
	}
	// every membership request submitted through the harness to a live node got an answer
	for _, r := range nw.Itxs {
		if h := nw.Nodes[r.Host]; h.babbling() && !r.Answered {
			if h.Incarnation != r.HostInc || nw.lostPool[r.Host] {
				// the host lost its data and was restarted after accepting the request: its
				// pending pool is legitimately gone (the property speaks of nodes that keep running)
				res.count("liveness_membership_requests_lost_with_a_restarted_host", 1)
				continue
			}
			nw.violate("C06", "C06:membership-request-unanswered",
				fmt.Sprintf("leave request of node %d accepted at step %d was never committed", r.Subject, r.Step), nil)
			return
		}
	}
	// every transaction accepted by a live node is committed by all full-history live nodes
	for _, n := range live {
		if !fullHistory(n) {
			continue
		}
		have := map[string]bool{}
		for _, d := range n.App.Delivered {
			for _, tx := range d.Body.Transactions {
				have[string(tx)] = true
			}
		}
		for _, st := range nw.SubmitOrder {
			if sn := nw.Nodes[st.Node]; !sn.babbling() || sn.Silent || nw.lostPool[st.Node] || st.Inc != sn.Incarnation || sn.unjudgedAfterReset() {
				continue
			}
			res.count("liveness_tx_checks", 1)
			if !have[string(st.Bytes)] {
				nw.violate("C06", "C06:transaction-not-committed",
					fmt.Sprintf("transaction %q accepted by live node %d at step %d is not committed by node %d after the fair suffix", trunc(string(st.Bytes), 40), st.Node, st.Step, n.Idx), nil)
				return
			}
		}
	}
}

func minInt(a, b int) int {
	if a < b {
		return a
	}
	return b
}

// ---------------------------------------------------------------------------
// C13: frames computed independently for the same round are identical
// ---------------------------------------------------------------------------

type MonFrames struct {
	frames map[int]*hg.Frame
	canon  map[int]string
	from   map[int]int
	seen   map[[2]int]bool
}

func NewMonFrames() *MonFrames {
	return &MonFrames{frames: map[int]*hg.Frame{}, canon: map[int]string{}, from: map[int]int{}, seen: map[[2]int]bool{}}
}
func (m *MonFrames) Name() string { return "frames" }
func (m *MonFrames) AfterStep(nw *Network) {
	for _, n := range nw.Nodes {
		if n.Node == nil || n.Puppet || !n.Up || n.StoreClosed || n.unjudgedAfterReset() {
			continue
		}
		lcr := n.Node.GetLastConsensusRoundIndex()
		for r := lcr; r >= 0 && r > lcr-4; r-- {
			k := [2]int{n.Idx*1000 + n.Incarnation, r}
			if m.seen[k] {
				continue
			}
			f, err := n.Core.Hg().Store.GetFrame(r)
			if err != nil {
				continue
			}
			m.seen[k] = true
			fh, err := f.Hash()
			if err != nil {
				continue
			}
			hs := fmt.Sprintf("%x", fh)
			nw.Res.count("frame_hash_comparisons", 1)
			if c, ok := m.canon[r]; ok {
				if c != hs {
					sig := "C13:frames-differ-between-honest-nodes"
					if resetNodeAssignsLowerRounds(nw.Nodes[m.from[r]], m.frames[r], n, f) {
						sig = "C13:reset-node-assigns-lower-round-to-late-event"
					}
					nw.violate("C13", sig,
						fmt.Sprintf("nodes %d and %d computed different frames for round %d", m.from[r], n.Idx, r),
						map[string]interface{}{"round": r, "node_a": m.from[r], "node_b": n.Idx, "node_b_resets": n.ResetEpochs, "node_a_resets": nw.Nodes[m.from[r]].ResetEpochs, "diff": frameDiff(m.frames[r], f), "first_rounds": firstRoundsOf(nw, nw.Nodes[m.from[r]], n), "peersets_a": psRounds(m.frames[r]), "peersets_b": psRounds(f)})
					return
				}
			} else {
				m.canon[r] = hs
				m.from[r] = n.Idx
				m.frames[r] = f
			}
		}
	}
}
func (m *MonFrames) Finish(nw *Network) {}

func frameDiff(a, b *hg.Frame) []string {
	out := []string{}
	if a == nil || b == nil {
		return out
	}
	if a.Round != b.Round {
		out = append(out, fmt.Sprintf("round %d vs %d", a.Round, b.Round))
	}
	if a.Timestamp != b.Timestamp {
		out = append(out, fmt.Sprintf("timestamp %d vs %d", a.Timestamp, b.Timestamp))
	}
	if peerKeys(a.Peers) != peerKeys(b.Peers) {
		out = append(out, fmt.Sprintf("peers %s vs %s", peerKeys(a.Peers), peerKeys(b.Peers)))
	}
	if len(a.Events) != len(b.Events) {
		out = append(out, fmt.Sprintf("events %d vs %d", len(a.Events), len(b.Events)))
	} else {
		for i := range a.Events {
			x, y := a.Events[i], b.Events[i]
			if x.Core.Hex() != y.Core.Hex() || x.Round != y.Round || x.LamportTimestamp != y.LamportTimestamp || x.Witness != y.Witness {
				out = append(out, fmt.Sprintf("event %d: %s r%d l%d w%v vs %s r%d l%d w%v", i, x.Core.Hex()[:10], x.Round, x.LamportTimestamp, x.Witness, y.Core.Hex()[:10], y.Round, y.LamportTimestamp, y.Witness))
			}
		}
	}
	for k, ra := range a.Roots {
		rb, ok := b.Roots[k]
		if !ok {
			out = append(out, "root missing in b: "+k[:12])
			continue
		}
		if len(ra.Events) != len(rb.Events) {
			out = append(out, fmt.Sprintf("root %s: %d vs %d events", k[:12], len(ra.Events), len(rb.Events)))
			continue
		}
		for i := range ra.Events {
			x, y := ra.Events[i], rb.Events[i]
			if x.Core.Hex() != y.Core.Hex() || x.Round != y.Round || x.LamportTimestamp != y.LamportTimestamp || x.Witness != y.Witness {
				out = append(out, fmt.Sprintf("root %s event %d: %s r%d l%d w%v vs %s r%d l%d w%v", k[:12], i, x.Core.Hex()[:10], x.Round, x.LamportTimestamp, x.Witness, y.Core.Hex()[:10], y.Round, y.LamportTimestamp, y.Witness))
			}
		}
	}
	for k := range b.Roots {
		if _, ok := a.Roots[k]; !ok {
			out = append(out, "root missing in a: "+k[:12])
		}
	}
	ra, rb := []int{}, []int{}
	for r := range a.PeerSets {
		ra = append(ra, r)
	}
	for r := range b.PeerSets {
		rb = append(rb, r)
	}
	sort.Ints(ra)
	sort.Ints(rb)
	if fmt.Sprint(ra) != fmt.Sprint(rb) {
		out = append(out, fmt.Sprintf("peer-set rounds %v vs %v", ra, rb))
	} else {
		for _, r := range ra {
			if peerKeys(a.PeerSets[r]) != peerKeys(b.PeerSets[r]) {
				out = append(out, fmt.Sprintf("peer-set %d: %s vs %s", r, peerKeys(a.PeerSets[r]), peerKeys(b.PeerSets[r])))
			}
		}
	}
	if len(out) > 15 {
		out = out[:15]
	}
	return out
}

func psRounds(f *hg.Frame) map[int]string {
	out := map[int]string{}
	for r, ps := range f.PeerSets {
		out[r] = peerKeys(ps)
	}
	return out
}

func firstRoundsOf(nw *Network, a, b *SimNode) []string {
	out := []string{}
	for _, x := range nw.Nodes {
		fa, oka := a.Core.Hg().Store.FirstRound(x.ID)
		fb, okb := b.Core.Hg().Store.FirstRound(x.ID)
		out = append(out, fmt.Sprintf("identity %d (%s): first round at node %d = %d/%v, at node %d = %d/%v", x.Idx, x.PubHex[:12], a.Idx, fa, oka, b.Idx, fb, okb))
	}
	return out
}

// onlyChildlessEventsOfDeparted tells whether the one and only reason why the
// live nodes are still busy is that each of them holds payload-carrying events,
// still undetermined, that nobody ever built upon (no event anywhere has them
// as a parent) and whose creator is no longer taking part (it left, suspended
// itself, is down or silent): such an event can never be received by a round.
// Returns a description, or "" when anything else keeps a node busy.
func onlyChildlessEventsOfDeparted(nw *Network, live []*SimNode, pendingJoins int) string {
	if pendingJoins > 0 {
		return ""
	}
	isLive := map[int]bool{}
	for _, n := range live {
		isLive[n.Idx] = true
	}
	// hasChild[h]: h has a descendant created by a validator that still takes
	// part (or by an unknown creator). An event of a departed validator whose
	// only descendants are later events of departed validators is as unreachable
	// for the rounds of the remaining ones as a childless one (thorough seed 1
	// case 395: the last two events of the leaver, the second built on the first).
	hasChild := map[string]bool{}
	for i := len(nw.Rec.Order) - 1; i >= 0; i-- {
		o := nw.Rec.Order[i]
		if o.CreatorIdx < 0 || isLive[o.CreatorIdx] || hasChild[o.Hash] {
			hasChild[o.SelfParent] = true
			hasChild[o.OtherParent] = true
		}
	}
	culprits := map[string]bool{}
	for _, n := range live {
		if !n.Core.Busy() {
			continue
		}
		h := n.Core.Hg()
		_, _, target, _ := n.Core.Rounds()
		if len(n.Core.TransactionPool()) > 0 || len(n.Core.InternalTransactionPool()) > 0 || len(n.Core.SelfBlockSignatures()) > 0 ||
			n.Node.GetLastConsensusRoundIndex() < target {
			return ""
		}
		loaded := 0
		for _, u := range h.UndeterminedEvents {
			ev, err := h.Store.GetEvent(u)
			if err != nil || !ev.IsLoaded() {
				continue
			}
			loaded++
			re := nw.Rec.Events[u]
			if re == nil || hasChild[u] || (re.CreatorIdx >= 0 && isLive[re.CreatorIdx]) {
				return ""
			}
			culprits[fmt.Sprintf("event %d of departed validator %d (%d transaction(s), first seen at step %d)", re.Index, re.CreatorIdx, len(re.Txs), re.FirstStep)] = true
		}
		if loaded == 0 || loaded != h.PendingLoadedEvents {
			return ""
		}
	}
	if len(culprits) == 0 {
		return ""
	}
	out := []string{}
	for c := range culprits {
		out = append(out, c)
	}
	sort.Strings(out)
	return fmt.Sprint(out)
}
