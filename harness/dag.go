package main

import (
	"crypto/ecdsa"
	"encoding/json"
	"fmt"
	"math/rand"
	"os"
	"path/filepath"
	"sort"

	"github.com/mosaicnetworks/babble/src/common"
	hg "github.com/mosaicnetworks/babble/src/hashgraph"
	"github.com/mosaicnetworks/babble/src/peers"
)

// ---------------------------------------------------------------------------
// Synthetic fork-free DAGs
// ---------------------------------------------------------------------------

type DagEvent struct {
	Body      hg.EventBody
	Signature string
	Hash      string
	Creator   int
	Parents   [2]string
	Honest    bool
}

type Dag struct {
	N      int
	Keys   []*ecdsa.PrivateKey
	Peers  []*peers.Peer
	Events []*DagEvent // generation order (a topological order)
	ByHash map[string]*DagEvent
	Liars  map[int]bool
}

type DagSpec struct {
	N            int
	Events       int
	TxProb       float64
	Private      float64 // probability a creator extends its own chain without other-parent
	NoOtherFirst float64 // probability a creator's first event has no other-parent
	Repeat       float64 // probability of re-using the previous other-parent (equal lamport ties)
	ClockSkew    int64   // honest clocks differ by up to this many seconds
	// FastClocks: 0 = every creator's clock is in the past of the machine that
	// executes the DAG (2023); 1 = every creator's clock is decades ahead of it
	// (2100); 2 = about half of the creators are ahead. Nothing in the consensus
	// output may depend on the executing machine's clock (C03), and a block's
	// time is the median of what the famous witnesses claim (C18) whatever the
	// local time is.
	FastClocks int
	Liars      int // number of creators with arbitrary timestamps
	ItxProb    float64
	// Hidden: one creator's head is not used as other-parent by the creators in
	// HiddenFrom during [HideFrom, HideTo) (fractions of the DAG): produces
	// split votes and long fame elections
	Hidden     bool
	HideFrom   float64
	HideTo     float64
	HiddenHalf int // how many other creators do NOT see the hidden creator
	Dense      bool
	// Mute: one more creator creates no event and is not pulled from during
	// [MuteFrom, MuteTo): its last events stay unknown to most for a while
	Mute     bool
	MuteFrom float64
	MuteTo   float64
	// Skew: creators are not equally active (some create several times more events)
	Skew bool
	// LateStart: one creator records nothing before LateFrom (fraction of the DAG)
	// and its first event then has neither self-parent nor other-parent
	LateStart bool
	LateFrom  float64
}

func (e *DagEvent) fresh() *hg.Event {
	// deep copy of the public part only: private fields start from scratch
	b, _ := json.Marshal(struct {
		Body      hg.EventBody
		Signature string
	}{e.Body, e.Signature})
	ev := new(hg.Event)
	json.Unmarshal(b, ev)
	return ev
}

var lyingTimes = []int64{-9223372036854775808, 9223372036854775807, -1, 0, 1, -1234567890123, 4102444800, 9223372036854775806}

func genDag(rng *rand.Rand, seed int64, sp DagSpec) *Dag {
	d := &Dag{N: sp.N, ByHash: map[string]*DagEvent{}, Liars: map[int]bool{}}
	for i := 0; i < sp.N; i++ {
		k := detKey(seed, "dag", i)
		d.Keys = append(d.Keys, k)
		d.Peers = append(d.Peers, mkPeer(k, fmt.Sprintf("dag:%d", i), fmt.Sprintf("c%d", i)))
	}
	for _, i := range rng.Perm(sp.N)[:sp.Liars] {
		d.Liars[i] = true
	}
	heads := make([]string, sp.N)
	seqs := make([]int, sp.N)
	lastOther := make([]string, sp.N)
	for i := range seqs {
		seqs[i] = -1
	}
	baseTime := int64(1700000000)
	skews := make([]int64, sp.N)
	for i := range skews {
		if sp.ClockSkew > 0 {
			skews[i] = rng.Int63n(2*sp.ClockSkew+1) - sp.ClockSkew
		}
	}
	if sp.FastClocks > 0 {
		// no draw from rng here: the DAG's structure is the same in every clock mode
		for i := range skews {
			if sp.FastClocks == 1 || i%2 == 0 {
				skews[i] += 4102444800 - baseTime // 2100-01-01
			}
		}
	}
	txc := 0
	hiddenCreator := -1
	blind := map[int]bool{}
	if sp.Hidden && sp.N >= 3 {
		hiddenCreator = rng.Intn(sp.N)
		for _, i := range rng.Perm(sp.N) {
			if i != hiddenCreator && len(blind) < sp.HiddenHalf {
				blind[i] = true
			}
		}
	}
	muted := -1
	if sp.Mute && sp.N >= 4 {
		for _, i := range rng.Perm(sp.N) {
			if i != hiddenCreator {
				muted = i
				break
			}
		}
	}
	weights := make([]int, sp.N)
	totalW := 0
	for i := range weights {
		weights[i] = 1
		if sp.Skew {
			weights[i] = []int{1, 1, 2, 4, 8}[rng.Intn(5)]
		}
		totalW += weights[i]
	}
	pick := func() int {
		x := rng.Intn(totalW)
		for i, w := range weights {
			if x < w {
				return i
			}
			x -= w
		}
		return sp.N - 1
	}
	late := -1
	if sp.LateStart && sp.N >= 4 {
		late = rng.Intn(sp.N)
	}
	for len(d.Events) < sp.Events {
		a := pick()
		if a == late && float64(len(d.Events))/float64(sp.Events) < sp.LateFrom {
			continue
		}
		other := ""
		if sp.N > 1 {
			b := pick()
			for tries := 0; b == a && tries < 50; tries++ {
				b = pick()
			}
			if b == a {
				b = (a + 1) % sp.N
			}
			frac := float64(len(d.Events)) / float64(sp.Events)
			if muted >= 0 && frac >= sp.MuteFrom && frac < sp.MuteTo {
				if a == muted {
					continue
				}
				for tries := 0; tries < 8 && b == muted; tries++ {
					b = rng.Intn(sp.N - 1)
					if b >= a {
						b++
					}
				}
				if b == muted {
					b = a
				}
			}
			if hiddenCreator >= 0 && frac >= sp.HideFrom && frac < sp.HideTo {
				// blind creators do not pull from the hidden one; to keep the split alive
				// they also avoid pulling from creators that do see it, most of the time
				for tries := 0; tries < 6; tries++ {
					if blind[a] && (b == hiddenCreator || (!blind[b] && rng.Intn(4) != 0)) {
						b = rng.Intn(sp.N - 1)
						if b >= a {
							b++
						}
						continue
					}
					if !blind[a] && a != hiddenCreator && blind[b] && rng.Intn(4) != 0 {
						b = rng.Intn(sp.N - 1)
						if b >= a {
							b++
						}
						continue
					}
					break
				}
				if blind[a] && b == hiddenCreator {
					b = a
				}
			}
			if b != a {
				other = heads[b]
			}
		}
		if seqs[a] < 0 {
			if rng.Float64() < sp.NoOtherFirst {
				other = ""
			}
		} else if rng.Float64() < sp.Private {
			other = ""
		} else if rng.Float64() < sp.Repeat && lastOther[a] != "" {
			other = lastOther[a]
		}
		if seqs[a] < 0 && other == "" && sp.N > 1 && len(d.Events) > 0 && rng.Intn(2) == 0 {
			// keep most first events attached so that they are received normally
			for _, h := range heads {
				if h != "" {
					other = h
					break
				}
			}
		}
		if a == late && seqs[a] < 0 {
			other = "" // the late starter's first event has no parent at all
		}
		var txs [][]byte
		if rng.Float64() < sp.TxProb || (a == late && seqs[a] < 0) {
			k := 1 + rng.Intn(3)
			for j := 0; j < k; j++ {
				txc++
				txs = append(txs, []byte(fmt.Sprintf("dtx|%d|%d", a, txc)))
			}
		}
		ev := hg.NewEvent(txs, nil, nil, []string{heads[a], other}, keysPub(d.Keys[a]), seqs[a]+1)
		ts := baseTime + int64(len(d.Events)) + skews[a]
		if d.Liars[a] {
			ts = lyingTimes[rng.Intn(len(lyingTimes))]
			if rng.Intn(3) == 0 {
				ts = rng.Int63() - rng.Int63()
			}
		}
		ev.Body.Timestamp = ts
		if err := ev.Sign(d.Keys[a]); err != nil {
			panic(err)
		}
		de := &DagEvent{Body: ev.Body, Signature: ev.Signature, Hash: ev.Hex(), Creator: a, Parents: [2]string{heads[a], other}, Honest: !d.Liars[a]}
		d.Events = append(d.Events, de)
		d.ByHash[de.Hash] = de
		heads[a] = de.Hash
		seqs[a]++
		lastOther[a] = other
	}
	return d
}

func keysPub(k *ecdsa.PrivateKey) []byte {
	b, _ := common.DecodeFromString(pubHex(k))
	return b
}

// randomLinearExtension returns a random topological order of the DAG (Kahn).
func (d *Dag) randomLinearExtension(rng *rand.Rand, subset map[string]bool) []*DagEvent {
	indeg := map[string]int{}
	children := map[string][]string{}
	var ready []string
	for _, e := range d.Events {
		if subset != nil && !subset[e.Hash] {
			continue
		}
		c := 0
		for _, p := range e.Parents {
			if p != "" {
				c++
				children[p] = append(children[p], e.Hash)
			}
		}
		indeg[e.Hash] = c
		if c == 0 {
			ready = append(ready, e.Hash)
		}
	}
	var out []*DagEvent
	for len(ready) > 0 {
		i := rng.Intn(len(ready))
		h := ready[i]
		ready[i] = ready[len(ready)-1]
		ready = ready[:len(ready)-1]
		out = append(out, d.ByHash[h])
		for _, c := range children[h] {
			indeg[c]--
			if indeg[c] == 0 {
				ready = append(ready, c)
			}
		}
	}
	return out
}

// randomIdeal picks a downward-closed subset.
func (d *Dag) randomIdeal(rng *rand.Rand) map[string]bool {
	sub := map[string]bool{}
	var add func(h string)
	add = func(h string) {
		if h == "" || sub[h] {
			return
		}
		sub[h] = true
		e := d.ByHash[h]
		add(e.Parents[0])
		add(e.Parents[1])
	}
	k := 1 + rng.Intn(d.N)
	cut := len(d.Events)/4 + rng.Intn(len(d.Events)*3/4)
	for i := 0; i < k; i++ {
		add(d.Events[rng.Intn(cut+1)].Hash)
	}
	return sub
}

// ---------------------------------------------------------------------------
// Executions
// ---------------------------------------------------------------------------

type ExecOpts struct {
	Store      string // inmem | badger
	Cache      int
	Batch      int // consensus passes every Batch insertions (<=0: once at the end)
	Dir        string
	ReadValues bool
	// ProbeStraggler (workload search only): count the moments at which a round
	// has more than a supermajority of famous witnesses, another witness still
	// undecided, and an undetermined event seen by all the former but not the latter
	ProbeStraggler bool
	// RemoveCreator >= 0: when block RemoveAfterBlock is committed, the
	// validator set without that creator is recorded for round-received + 6,
	// the way a node does when a leave request is accepted in that block. The
	// creator's later events stay in the DAG (a former validator that keeps
	// gossiping).
	RemoveCreator    int
	RemoveAfterBlock int
	Removal          bool
}

type EvVals struct {
	Round, Lamport, RR int
	Witness            bool
	Fame               string
}

type DagExec struct {
	Blocks   []string
	BlockRR  []int
	Vals     map[string]EvVals
	Err      error
	ErrAt    int
	MaxUndet int
	// MaxPendingSpan: largest (last round - oldest round with an undecided
	// witness) seen after a consensus pass; >= 4 means a coin round voted
	MaxPendingSpan   int
	StragglerMoments int
	stragglerCands   [][3]string // (event, undecided witness, round as string)
	stragglerAt      []int       // insertion index at which each candidate was first seen
	curInsert        int
	H                *hg.Hashgraph
	Store            hg.Store
	Inserted         int
	RawBlocks        []*hg.Block
	// RemovalRound: round from which the scripted removal is effective (0: none)
	RemovalRound int
}

func (x *DagExec) close() {
	if x.Store != nil {
		x.Store.Close()
	}
}

func runConsensus(h *hg.Hashgraph) error {
	if err := h.DivideRounds(); err != nil {
		return fmt.Errorf("DivideRounds: %w", err)
	}
	if err := h.DecideFame(); err != nil {
		return fmt.Errorf("DecideFame: %w", err)
	}
	if err := h.DecideRoundReceived(); err != nil {
		return fmt.Errorf("DecideRoundReceived: %w", err)
	}
	if err := h.ProcessDecidedRounds(); err != nil {
		return fmt.Errorf("ProcessDecidedRounds: %w", err)
	}
	return nil
}

func execDag(d *Dag, order []*DagEvent, o ExecOpts) *DagExec {
	x := &DagExec{Vals: map[string]EvVals{}, ErrAt: -1}
	var store hg.Store
	if o.Store == "badger" {
		dir, err := os.MkdirTemp(o.Dir, "dagdb-")
		if err != nil {
			panic(err)
		}
		bs, err := hg.NewBadgerStore(o.Cache, filepath.Join(dir, "db"), false, nil)
		if err != nil {
			panic(err)
		}
		store = bs
	} else {
		store = hg.NewInmemStore(o.Cache)
	}
	x.Store = store
	cb := func(b *hg.Block) error {
		x.Blocks = append(x.Blocks, normBody(b.Body))
		x.BlockRR = append(x.BlockRR, b.RoundReceived())
		cp := *b
		x.RawBlocks = append(x.RawBlocks, &cp)
		if o.Removal && b.Index() == o.RemoveAfterBlock && x.RemovalRound == 0 {
			var rest []*peers.Peer
			for i, p := range d.Peers {
				if i != o.RemoveCreator {
					rest = append(rest, p)
				}
			}
			x.RemovalRound = b.RoundReceived() + 6
			if err := store.SetPeerSet(x.RemovalRound, peers.NewPeerSet(clonePeers(rest))); err != nil {
				return err
			}
		}
		return nil
	}
	h := hg.NewHashgraph(store, cb, quietLogger())
	x.H = h
	h.Init(peers.NewPeerSet(clonePeers(d.Peers)))
	for i, de := range order {
		x.curInsert = i
		ev := de.fresh()
		if err := h.InsertEvent(ev, true); err != nil {
			x.Err, x.ErrAt = fmt.Errorf("InsertEvent: %w", err), i
			return x
		}
		x.Inserted++
		if len(h.UndeterminedEvents) > x.MaxUndet {
			x.MaxUndet = len(h.UndeterminedEvents)
		}
		if o.Batch > 0 && (i+1)%o.Batch == 0 {
			if err := runConsensus(h); err != nil {
				x.Err, x.ErrAt = err, i
				return x
			}
			if pr := h.VerifPendingRounds(); len(pr) > 0 {
				if span := store.LastRound() - pr[0][0]; span > x.MaxPendingSpan {
					x.MaxPendingSpan = span
				}
				if o.ProbeStraggler {
					probeStraggler(x, h, store, pr)
				}
			}
		}
	}
	if err := runConsensus(h); err != nil {
		x.Err, x.ErrAt = err, len(order)
		return x
	}
	if o.ReadValues {
		for _, de := range order {
			v := EvVals{RR: -1, Fame: "n/a"}
			r, err := h.VerifRound(de.Hash)
			if err != nil {
				continue
			}
			v.Round = r
			v.Witness, _ = h.VerifWitness(de.Hash)
			v.Lamport, _ = h.VerifLamportTimestamp(de.Hash)
			if ri, err := store.GetRound(r); err == nil {
				_, v.Fame = ri.VerifFame(de.Hash)
			}
			x.Vals[de.Hash] = v
		}
		// round received from the round infos (events' private fields are not persisted)
		for r := 0; r <= store.LastRound(); r++ {
			ri, err := store.GetRound(r)
			if err != nil {
				continue
			}
			for _, eh := range ri.ReceivedEvents {
				if v, ok := x.Vals[eh]; ok {
					v.RR = r
					x.Vals[eh] = v
				}
			}
		}
	}
	return x
}

func isStoreMiss(err error) bool {
	if err == nil {
		return false
	}
	for e := err; e != nil; {
		if common.IsStore(e, common.KeyNotFound) || common.IsStore(e, common.TooLate) || common.IsStore(e, common.SkippedIndex) {
			return true
		}
		u, ok := e.(interface{ Unwrap() error })
		if !ok {
			break
		}
		e = u.Unwrap()
	}
	s := err.Error()
	for _, pat := range []string{"Not Found", "Too Late", "not found", "Skipped Index"} {
		if containsStr(s, pat) {
			return true
		}
	}
	return false
}

func containsStr(s, sub string) bool {
	return len(sub) == 0 || (len(s) >= len(sub) && (func() bool {
		for i := 0; i+len(sub) <= len(s); i++ {
			if s[i:i+len(sub)] == sub {
				return true
			}
		}
		return false
	})())
}

// compareExec returns a description of the first difference between a variant
// and the reference ("" if none). prefixOnly: the variant ran on a sub-DAG.
func compareExec(ref, v *DagExec, prefixOnly bool) string {
	if !prefixOnly && len(ref.Blocks) != len(v.Blocks) {
		return fmt.Sprintf("reference produced %d blocks, variant %d", len(ref.Blocks), len(v.Blocks))
	}
	if prefixOnly && len(v.Blocks) > len(ref.Blocks) {
		return fmt.Sprintf("sub-DAG produced %d blocks, the full DAG only %d", len(v.Blocks), len(ref.Blocks))
	}
	for i := range v.Blocks {
		if i < len(ref.Blocks) && ref.Blocks[i] != v.Blocks[i] {
			return fmt.Sprintf("block %d differs: reference %s / variant %s", i, trunc(ref.Blocks[i], 400), trunc(v.Blocks[i], 400))
		}
	}
	hashes := []string{}
	for h := range v.Vals {
		hashes = append(hashes, h)
	}
	sort.Strings(hashes)
	for _, h := range hashes {
		a, ok := ref.Vals[h]
		if !ok {
			continue
		}
		b := v.Vals[h]
		if a.Round != b.Round || a.Witness != b.Witness || a.Lamport != b.Lamport {
			return fmt.Sprintf("event %s: reference round=%d witness=%v lamport=%d, variant round=%d witness=%v lamport=%d", h[:12], a.Round, a.Witness, a.Lamport, b.Round, b.Witness, b.Lamport)
		}
		// A witness that arrives after its round was decided keeps an undefined
		// fame for ever and is, by design, treated as not famous: "False" and
		// "Undefined" are the same outcome once the round is decided.
		famous := func(f string) bool { return f == "True" }
		if prefixOnly {
			if b.Fame != "Undefined" && b.Fame != "n/a" && b.Fame != "absent" && famous(a.Fame) != famous(b.Fame) {
				return fmt.Sprintf("witness %s: fame %s in the sub-DAG but %s in the full DAG", h[:12], b.Fame, a.Fame)
			}
			if b.RR >= 0 && a.RR != b.RR {
				return fmt.Sprintf("event %s: round-received %d in the sub-DAG but %d in the full DAG", h[:12], b.RR, a.RR)
			}
		} else {
			if famous(a.Fame) != famous(b.Fame) {
				return fmt.Sprintf("witness %s: fame %s vs %s", h[:12], a.Fame, b.Fame)
			}
			if a.RR != b.RR {
				return fmt.Sprintf("event %s: round-received %d vs %d", h[:12], a.RR, b.RR)
			}
		}
	}
	return ""
}

func execDagWithBlocks(d *Dag, order []*DagEvent) *DagExec {
	return execDag(d, order, ExecOpts{Store: "inmem", Cache: len(order)*2 + 200, Batch: 1})
}

// delayedExtension returns a topological order in which the events of creator
// lag are postponed as long as possible (they arrive late, like the events of
// a validator that was unheard for a while).
func (d *Dag) delayedExtension(rng *rand.Rand, lag int) []*DagEvent {
	indeg := map[string]int{}
	children := map[string][]string{}
	var ready []string
	for _, e := range d.Events {
		c := 0
		for _, p := range e.Parents {
			if p != "" {
				c++
				children[p] = append(children[p], e.Hash)
			}
		}
		indeg[e.Hash] = c
		if c == 0 {
			ready = append(ready, e.Hash)
		}
	}
	var out []*DagEvent
	for len(ready) > 0 {
		cand := []int{}
		for i, h := range ready {
			if d.ByHash[h].Creator != lag {
				cand = append(cand, i)
			}
		}
		var i int
		if len(cand) > 0 {
			i = cand[rng.Intn(len(cand))]
		} else {
			i = rng.Intn(len(ready))
		}
		h := ready[i]
		ready[i] = ready[len(ready)-1]
		ready = ready[:len(ready)-1]
		out = append(out, d.ByHash[h])
		for _, c := range children[h] {
			indeg[c]--
			if indeg[c] == 0 {
				ready = append(ready, c)
			}
		}
	}
	return out
}

// electionProfile replays the virtual voting on a fully inserted DAG (using the
// real strongly-see / see predicates) to find elections in which, at a normal
// round right before a coin round, some witnesses already hold a supermajority
// and others do not. It is used as a *workload search heuristic* only (to pick
// DAGs that exercise the coin-round logic), never as an oracle.
func electionProfile(x *DagExec) (partialBeforeCoin int, maxDiff int) {
	partialBeforeCoin, maxDiff, _ = electionProfileZ(x)
	return
}

// electionProfileZ also returns the witnesses (hashes) from which a node could
// look at such an election without knowing the deciders: delivering their
// ancestry first reproduces the view of a node that went through the coin round.
func electionProfileZ(x *DagExec) (partialBeforeCoin int, maxDiff int, free []string) {
	partialBeforeCoin, maxDiff, free, _ = electionProfileFull(x)
	return
}

// partialInfo: an election in which, right before a coin round, only some of
// the witnesses present could decide, and decided "not famous".
type partialInfo struct {
	Round    int
	Deciders []string
	Total    int
}

func electionProfileFull(x *DagExec) (partialBeforeCoin int, maxDiff int, free []string, partials []partialInfo) {
	h, st := x.H, x.Store
	last := st.LastRound()
	for r := 0; r <= last-4; r++ {
		ri, err := st.GetRound(r)
		if err != nil {
			continue
		}
		for _, w := range ri.Witnesses() {
			votes := map[string]bool{}
			decided := false
			for j := r + 1; j <= last && !decided; j++ {
				rj, err := st.GetRound(j)
				if err != nil {
					break
				}
				psj, err := st.GetPeerSet(j)
				if err != nil {
					break
				}
				diff := j - r
				deciders, total := 0, 0
				noDeciders := 0
				var noDeciderList []string
				for _, y := range rj.Witnesses() {
					total++
					if diff == 1 {
						s, _ := h.VerifAncestor(y, w)
						votes[y] = s
						continue
					}
					prev, err := st.GetRound(j - 1)
					if err != nil {
						continue
					}
					psp, _ := st.GetPeerSet(j - 1)
					yays, nays := 0, 0
					for _, z := range prev.Witnesses() {
						ss, _ := h.VerifStronglySee(y, z, psp)
						if ss {
							if votes[z] {
								yays++
							} else {
								nays++
							}
						}
					}
					v, t := false, nays
					if yays >= nays {
						v, t = true, yays
					}
					if diff%4 != 0 {
						votes[y] = v
						if t >= psj.SuperMajority() {
							deciders++
							if !v {
								noDeciders++
								noDeciderList = append(noDeciderList, y)
							}
						}
					} else {
						if t >= psj.SuperMajority() {
							votes[y] = v
						} else {
							votes[y] = middleBitOf(y)
						}
					}
				}
				if diff > maxDiff && total > 0 {
					maxDiff = diff
				}
				if profileDebug != nil && diff%4 == 3 && deciders < total {
					profileDebug(fmt.Sprintf("r=%d diff=%d total=%d deciders=%d noDeciders=%d", r, diff, total, deciders, noDeciders))
				}
				if diff%4 != 0 && deciders > 0 {
					if deciders < total && diff%4 == 3 && noDeciders > 0 {
						partials = append(partials, partialInfo{Round: j, Deciders: append([]string{}, noDeciderList...), Total: total})
						// is there a witness two rounds later that does not descend from any
						// of the deciders (a node can reach it without having them)?
						hit := false
						for _, jj := range []int{j + 2, j + 3} {
							r2, err := st.GetRound(jj)
							if err != nil {
								continue
							}
							for _, z := range r2.Witnesses() {
								isFree := true
								for _, y0 := range noDeciderList {
									if a, _ := h.VerifAncestor(z, y0); a {
										isFree = false
									}
								}
								if isFree {
									free = append(free, z)
									if jj == j+2 {
										hit = true
									}
								}
							}
						}
						if hit {
							partialBeforeCoin++
						}
					}
					if deciders == total {
						decided = true
					}
					// with partial deciders the election continues for the nodes that lack them
				}
			}
		}
	}
	return
}

var profileDebug func(string)

func middleBitOf(hexs string) bool {
	b, err := decodeHex(hexs)
	if err != nil || len(b) == 0 {
		return true
	}
	return b[len(b)/2] != 0
}

func probeStraggler(x *DagExec, h *hg.Hashgraph, store hg.Store, pending [][2]int) {
	for _, pr := range pending {
		ri, err := store.GetRound(pr[0])
		if err != nil {
			continue
		}
		ps, err := store.GetPeerSet(pr[0])
		if err != nil {
			continue
		}
		fws := ri.FamousWitnesses()
		if len(fws) <= ps.SuperMajority() {
			continue
		}
		var open []string
		for _, w := range ri.Witnesses() {
			if _, f := ri.VerifFame(w); f == "Undefined" {
				open = append(open, w)
			}
		}
		if len(open) == 0 {
			continue
		}
		// events still waiting to be received, or received in this very round
		// (so that the probe does not depend on how the code under test resolves
		// the situation it is looking for)
		cands := append([]string{}, h.UndeterminedEvents...)
		for _, eh := range ri.ReceivedEvents {
			cands = append(cands, eh)
		}
		for _, ev := range cands {
			all := true
			for _, w := range fws {
				if s, _ := h.VerifAncestor(w, ev); !s {
					all = false
					break
				}
			}
			if !all {
				continue
			}
			for _, w := range open {
				if s, _ := h.VerifAncestor(w, ev); !s {
					x.stragglerCands = append(x.stragglerCands, [3]string{ev, w, fmt.Sprint(pr[0])})
					x.stragglerAt = append(x.stragglerAt, x.curInsert)
				}
			}
		}
	}
}

// stragglerSensitive counts the recorded candidates whose undecided witness
// ended up famous (so that the event must not be received in that round).
func stragglerSensitive(x *DagExec) int {
	return len(stragglerMoments(x))
}

// stragglerMoments returns the insertion indexes (in the executed order) at
// which a sensitive situation first appeared.
func stragglerMoments(x *DagExec) []int {
	out := []int{}
	seen := map[[3]string]bool{}
	for k, c := range x.stragglerCands {
		if seen[c] {
			continue
		}
		seen[c] = true
		var r int
		fmt.Sscan(c[2], &r)
		ri, err := x.Store.GetRound(r)
		if err != nil {
			continue
		}
		if _, f := ri.VerifFame(c[1]); f == "True" {
			out = append(out, x.stragglerAt[k])
		}
	}
	return out
}

func stragglerSensitiveOld(x *DagExec) int {
	n := 0
	seen := map[[3]string]bool{}
	for _, c := range x.stragglerCands {
		if seen[c] {
			continue
		}
		seen[c] = true
		var r int
		fmt.Sscan(c[2], &r)
		ri, err := x.Store.GetRound(r)
		if err != nil {
			continue
		}
		if _, f := ri.VerifFame(c[1]); f == "True" {
			n++
		}
	}
	return n
}
