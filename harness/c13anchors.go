package main

import (
	"fmt"
	"strings"

	hg "github.com/mosaicnetworks/babble/src/hashgraph"
	"github.com/mosaicnetworks/babble/src/peers"
)

// ---------------------------------------------------------------------------
// C13, every block as anchor: one DAG (with a creator that starts late with a
// parentless first event, private chains, first events without other-parent)
// is run by a full-history Hashgraph; then, for every block it produced, a
// second real Hashgraph is reset from that block and its frame (as encoded on
// the wire) and is fed the events it does not hold, in creation order, as a
// sync would. Every block it then produces must equal the full node's block
// of the same index. This enumerates where the anchor falls relative to every
// late or parentless event, which random histories only hit by luck.
// ---------------------------------------------------------------------------

func framesDifferOnlyByLowerRounds(full, reset *hg.Frame) bool {
	if full == nil || reset == nil || len(full.Events) != len(reset.Events) || full.Round != reset.Round || full.Timestamp != reset.Timestamp {
		return false
	}
	lower := 0
	cmp := func(x, y *hg.FrameEvent) bool {
		if x.Core.Hex() != y.Core.Hex() || x.Core.Signature != y.Core.Signature || x.LamportTimestamp != y.LamportTimestamp {
			return false
		}
		if x.Round != y.Round {
			if y.Round > x.Round {
				return false
			}
			lower++
		}
		// (with a lower round for an earlier event of the same creator, a later
		// event may become that creator's witness of the round at the reset node)
		return true
	}
	for i := range full.Events {
		if !cmp(full.Events[i], reset.Events[i]) {
			return false
		}
	}
	if len(full.Roots) != len(reset.Roots) {
		return false
	}
	for k, ra := range full.Roots {
		rb, ok := reset.Roots[k]
		if !ok || len(ra.Events) != len(rb.Events) {
			return false
		}
		for i := range ra.Events {
			if !cmp(ra.Events[i], rb.Events[i]) {
				return false
			}
		}
	}
	return lower > 0
}

func runC13Anchors(cs CaseSpec) *CaseResult {
	res := newResult(cs)
	rng := cs.rng("c13anchors")
	sp := dagSpecFromCase(cs)
	sp.LateStart = true
	sp.LateFrom = 0.3 + 0.4*rng.Float64()
	sp.Liars = 0
	d := genDag(rng, cs.Seed*7919+int64(cs.Index), sp)
	big := len(d.Events)*2 + 200
	full := execDag(d, d.Events, ExecOpts{Store: "inmem", Cache: big, Batch: 1})
	defer full.close()
	res.Evaluations++
	if full.Err != nil {
		res.inconclusive(fmt.Sprintf("full-history execution failed: %v", full.Err))
		return res
	}
	res.count("anchor_dags", 1)
	res.count("anchor_full_node_blocks", int64(len(full.RawBlocks)))
	ids := map[int]uint32{}
	for i, p := range d.Peers {
		ids[i] = p.ID()
	}
	for k := 0; k+1 < len(full.RawBlocks); k++ {
		anchor := full.RawBlocks[k]
		fr, err := full.Store.GetFrame(anchor.RoundReceived())
		if err != nil {
			res.count("anchor_frames_missing", 1)
			continue
		}
		var blk hg.Block
		var frame hg.Frame
		if wireCopy(anchor, &blk) != nil || wireCopy(fr, &frame) != nil {
			continue
		}
		store := hg.NewInmemStore(big)
		var got []*hg.Block
		h := hg.NewHashgraph(store, func(b *hg.Block) error {
			cp := *b
			got = append(got, &cp)
			return nil
		}, quietLogger())
		h.Init(peers.NewPeerSet(clonePeers(d.Peers)))
		if err := h.Reset(&blk, &frame); err != nil {
			res.violate("C13", "C13:reset-from-honest-anchor-fails", fmt.Sprintf("a node cannot reset itself from block %d and its frame as served by a full-history node: %v", anchor.Index(), err),
				map[string]interface{}{"anchor_index": anchor.Index(), "n": sp.N, "events": len(d.Events)})
			store.Close()
			return res
		}
		res.Evaluations++
		res.count("anchors_tried", 1)
		refused := false
		for _, de := range d.Events {
			if _, err := store.GetEvent(de.Hash); err == nil {
				continue
			}
			if last, ok := store.KnownEvents()[ids[de.Creator]]; ok && de.Body.Index <= last {
				continue // below what the frame holds of this creator
			}
			if err := h.InsertEventAndRunConsensus(de.fresh(), true); err != nil {
				// parents below the frame (documented limitation): the property only
				// speaks of a node for as long as it can insert what it receives
				refused = true
				res.count("anchors_where_the_reset_node_had_to_refuse_an_event", 1)
				break
			}
		}
		_ = refused
		for _, b := range got {
			if b.Index() <= anchor.Index() || b.Index() >= len(full.RawBlocks) {
				continue
			}
			want := full.RawBlocks[b.Index()]
			res.count("anchor_blocks_compared", 1)
			if normBody(b.Body) == normBody(want.Body) {
				continue
			}
			sig := "C13:block-disagreement"
			ff, e1 := full.Store.GetFrame(want.RoundReceived())
			rf, e2 := store.GetFrame(b.RoundReceived())
			wb, bb := want.Body, b.Body
			wb.FrameHash, bb.FrameHash = nil, nil
			if e1 == nil && e2 == nil && normBody(wb) == normBody(bb) && framesDifferOnlyByLowerRounds(ff, rf) {
				sig = "C13:reset-node-assigns-lower-round-to-late-event"
			}
			diff := []string{}
			if e1 == nil && e2 == nil {
				diff = frameDiff(ff, rf)
			}
			txs := func(bl *hg.Block) string {
				out := []string{}
				for _, t := range bl.Transactions() {
					out = append(out, string(t))
				}
				return strings.Join(out, " ")
			}
			res.violate("C13", sig,
				fmt.Sprintf("a node reset from block %d (round %d) of a full-history node delivers a block %d that differs from the full node's", anchor.Index(), anchor.RoundReceived(), b.Index()),
				map[string]interface{}{"anchor_index": anchor.Index(), "anchor_round": anchor.RoundReceived(), "block": b.Index(), "full_round_received": want.RoundReceived(), "reset_round_received": b.RoundReceived(),
					"full_txs": trunc(txs(want), 300), "reset_txs": trunc(txs(b), 300), "frame_diff": diff, "n": sp.N, "events": len(d.Events), "dag": exportDag(d, 60)})
			store.Close()
			return res
		}
		store.Close()
	}
	if len(full.RawBlocks) >= 4 {
		res.digest("c13anchors", cs.Seed, cs.Index, len(d.Events), d.Events[len(d.Events)-1].Hash)
	}
	res.Sample = map[string]interface{}{"kind": "every block of one DAG as fast-sync anchor", "n": sp.N, "events": len(d.Events), "blocks": len(full.RawBlocks)}
	return res
}
