package main

import (
	"bytes"
	"encoding/json"
	"fmt"
	"math/rand"
	"os"
	"path/filepath"
	"reflect"
	"strings"
	"time"

	hg "github.com/mosaicnetworks/babble/src/hashgraph"
	bnet "github.com/mosaicnetworks/babble/src/net"
	"github.com/mosaicnetworks/babble/src/peers"
)

// ---------------------------------------------------------------------------
// C15 encoding identity
// ---------------------------------------------------------------------------

func payloadVariants(rng *rand.Rand) [][][]byte {
	big := make([]byte, 60000)
	rng.Read(big)
	bin := make([]byte, 64)
	rng.Read(bin)
	return [][][]byte{
		nil, {}, {nil}, {{}}, {[]byte("a")}, {nil, {}, []byte("x")}, {bin}, {big}, {[]byte("\x00\xff\xfe\"\\\n{}[]null"), []byte("é世界")},
		{[]byte("1"), []byte("2"), []byte("3"), []byte("4"), []byte("5")},
	}
}

func samePayload(a, b [][]byte) bool {
	if len(a) != len(b) {
		return false
	}
	for i := range a {
		if !bytes.Equal(a[i], b[i]) {
			return false
		}
	}
	return true
}

func runC15Events(cs CaseSpec) *CaseResult {
	res := newResult(cs)
	rng := cs.rng("c15ev")
	n := int(cs.I("n", 4))
	keys := []*SimKey{}
	ps := []*peers.Peer{}
	monikers := []string{"plain", "quo\"te", "uni世界", "", "back\\slash", "new\nline", "tab\t", "<html>&amp;"}
	for i := 0; i < n; i++ {
		k := &SimKey{detKey(cs.Seed, "c15", cs.Index*100+i)}
		keys = append(keys, k)
		ps = append(ps, mkPeer(k.K, fmt.Sprintf("addr%d:%s", i, monikers[(i+1)%len(monikers)]), monikers[i%len(monikers)]))
	}
	dir := dagWorkDir(cs)
	defer os.RemoveAll(dir)
	mkHg := func(store hg.Store) *hg.Hashgraph {
		h := hg.NewHashgraph(store, hg.DummyInternalCommitCallback, quietLogger())
		h.Init(peers.NewPeerSet(clonePeers(ps)))
		return h
	}
	dbPath := filepath.Join(dir, "c15db")
	cache := int(cs.I("cache", 30))
	bstore, err := hg.NewBadgerStore(cache, dbPath, false, nil)
	if err != nil {
		res.inconclusive(err.Error())
		return res
	}
	A := mkHg(hg.NewInmemStore(100000)) // creator side
	B := mkHg(hg.NewInmemStore(100000)) // receiver side (knows the parents)
	D := mkHg(bstore)                   // database side (small cache: forces eviction)
	heads := make([]string, n)
	seqs := make([]int, n)
	for i := range seqs {
		seqs[i] = -1
	}
	variants := payloadVariants(rng)
	type made struct {
		hash string
		ev   *hg.Event
	}
	var all []made
	total := int(cs.I("events", 150))
	fail := func(sig, msg string, w map[string]interface{}) *CaseResult {
		res.violate("C15", sig, msg, w)
		bstore.Close()
		return res
	}
	for e := 0; e < total; e++ {
		a := rng.Intn(n)
		other := ""
		switch rng.Intn(4) {
		case 0:
		default:
			if n > 1 {
				b := rng.Intn(n - 1)
				if b >= a {
					b++
				}
				other = heads[b]
			}
		}
		txs := variants[rng.Intn(len(variants))]
		var itxs []hg.InternalTransaction
		switch rng.Intn(4) {
		case 0:
			itxs = []hg.InternalTransaction{}
		case 1:
			for j := 0; j < 1+rng.Intn(4); j++ {
				k := detKey(cs.Seed, "c15join", e*10+j)
				p := peers.NewPeer(pubHex(k), monikers[rng.Intn(len(monikers))], monikers[rng.Intn(len(monikers))])
				itx := hg.NewInternalTransaction(hg.TransactionType(rng.Intn(2)), *p)
				itx.Sign(k)
				itxs = append(itxs, itx)
			}
		}
		var sigs []hg.BlockSignature
		switch rng.Intn(4) {
		case 0:
			sigs = []hg.BlockSignature{}
		case 1:
			for j := 0; j < 1+rng.Intn(5); j++ {
				sigs = append(sigs, hg.BlockSignature{Validator: keysPub(keys[a].K), Index: rng.Intn(1000) - 3, Signature: fmt.Sprintf("%x|%x", rng.Int63(), rng.Int63())})
			}
		}
		ev := hg.NewEvent(txs, itxs, sigs, []string{heads[a], other}, keysPub(keys[a].K), seqs[a]+1)
		ev.Body.Timestamp = []int64{time.Now().Unix(), -1, 0, -9223372036854775808, 9223372036854775807, 1 << 53, (1 << 53) + 1, -(1 << 62)}[rng.Intn(8)]
		if err := ev.Sign(keys[a].K); err != nil {
			continue
		}
		hash := ev.Hex()
		if err := A.InsertEvent(ev, true); err != nil {
			res.inconclusive("creator refused its own event: " + err.Error())
			bstore.Close()
			return res
		}
		res.Evaluations++
		res.count("encoding_events", 1)
		// (1) wire form through the transport's JSON, rebuilt by a node that knows the parents
		w := ev.ToWire()
		var resp bnet.SyncResponse
		if err := wireCopy(&bnet.SyncResponse{FromID: 1, Events: []hg.WireEvent{w}}, &resp); err != nil {
			return fail("C15:wire-event-not-transportable", "wire event cannot pass the JSON transport: "+err.Error(), nil)
		}
		ev2, err := B.ReadWireInfo(resp.Events[0])
		if err != nil {
			return fail("C15:wire-event-unreadable", fmt.Sprintf("receiver that knows the parents cannot rebuild the event: %v", err), map[string]interface{}{"event": describeEvent(ev)})
		}
		if ev2.Hex() != hash {
			return fail("C15:hash-changes-over-wire", fmt.Sprintf("event %s has hash %s after wire+JSON conversion", hash[:14], ev2.Hex()[:14]),
				map[string]interface{}{"event": describeEvent(ev), "rebuilt": describeEvent(ev2)})
		}
		if ok, err := ev2.Verify(); !ok || err != nil {
			return fail("C15:signature-invalid-after-wire", fmt.Sprintf("event %s no longer verifies after wire+JSON conversion (%v)", hash[:14], err), map[string]interface{}{"event": describeEvent(ev)})
		}
		if !samePayload(ev.Transactions(), ev2.Transactions()) {
			return fail("C15:payload-changes-over-wire", fmt.Sprintf("transactions of event %s differ after wire+JSON conversion", hash[:14]), map[string]interface{}{"event": describeEvent(ev)})
		}
		if err := B.InsertEvent(ev2, false); err != nil {
			return fail("C15:rebuilt-event-refused", fmt.Sprintf("the rebuilt event is refused by the receiver: %v", err), map[string]interface{}{"event": describeEvent(ev)})
		}
		res.count("encoding_wire_roundtrips", 1)
		// (2) database form
		raw, err := ev.MarshalDB()
		if err != nil {
			return fail("C15:db-marshal-fails", err.Error(), nil)
		}
		ev3 := new(hg.Event)
		if err := ev3.UnmarshalDB(raw); err != nil {
			return fail("C15:db-unmarshal-fails", err.Error(), nil)
		}
		if ev3.Hex() != hash || !samePayload(ev.Transactions(), ev3.Transactions()) {
			return fail("C15:hash-changes-in-db-form", fmt.Sprintf("event %s changes hash or payload through MarshalDB/UnmarshalDB", hash[:14]), map[string]interface{}{"event": describeEvent(ev)})
		}
		if ok, _ := ev3.Verify(); !ok {
			return fail("C15:signature-invalid-after-db-form", fmt.Sprintf("event %s no longer verifies after the DB form", hash[:14]), nil)
		}
		c1, o1, s1, p1 := ev.VerifWireIDs()
		c3, o3, s3, p3 := ev3.VerifWireIDs()
		if c1 != c3 || o1 != o3 || s1 != s3 || p1 != p3 || ev.VerifTopologicalIndex() != ev3.VerifTopologicalIndex() ||
			!reflect.DeepEqual(ev.VerifLastAncestors(), ev3.VerifLastAncestors()) || !reflect.DeepEqual(ev.VerifFirstDescendants(), ev3.VerifFirstDescendants()) {
			return fail("C15:private-fields-lost-in-db-form", fmt.Sprintf("event %s loses wire ids / topological index / coordinates through the DB form", hash[:14]), nil)
		}
		// real Badger write
		if err := D.InsertEvent(cloneEvent(ev), true); err != nil {
			return fail("C15:badger-insert-fails", err.Error(), nil)
		}
		all = append(all, made{hash, ev})
		heads[a] = hash
		seqs[a]++
	}
	// events evicted from the cache are read back from the database
	check := func(st *hg.BadgerStore, phase string) *CaseResult {
		for _, m := range all {
			got, err := st.GetEvent(m.hash)
			if err != nil {
				return fail("C15:stored-event-unreadable", fmt.Sprintf("%s: event %s cannot be read back: %v", phase, m.hash[:14], err), nil)
			}
			if got.Hex() != m.hash || !samePayload(got.Transactions(), m.ev.Transactions()) {
				return fail("C15:stored-event-differs", fmt.Sprintf("%s: event %s read back with another hash or payload", phase, m.hash[:14]), nil)
			}
			if ok, _ := got.Verify(); !ok {
				return fail("C15:stored-event-signature-invalid", fmt.Sprintf("%s: event %s no longer verifies", phase, m.hash[:14]), nil)
			}
			dbev, err := st.VerifDBGetEvent(m.hash)
			if err != nil || dbev.Hex() != m.hash {
				return fail("C15:db-event-differs", fmt.Sprintf("%s: database copy of event %s missing or different", phase, m.hash[:14]), nil)
			}
			// its wire form must still be what the creator would send
			if !reflect.DeepEqual(normWire(dbev.ToWire()), normWire(m.ev.ToWire())) {
				return fail("C15:wire-form-differs-after-db", fmt.Sprintf("%s: event %s read from the database converts to a different wire form", phase, m.hash[:14]),
					map[string]interface{}{"from_db": fmt.Sprintf("%+v", dbev.ToWire()), "original": fmt.Sprintf("%+v", m.ev.ToWire())})
			}
			res.count("encoding_db_reads", 1)
		}
		return nil
	}
	if r := check(bstore, "after eviction"); r != nil {
		return r
	}
	bstore.Close()
	re, err := hg.NewBadgerStore(cache, dbPath, false, nil)
	if err != nil {
		res.inconclusive("reopen: " + err.Error())
		return res
	}
	bstore = re
	if r := check(re, "after close and reopen"); r != nil {
		return r
	}
	re.Close()
	res.digest("c15ev", cs.Seed, cs.Index, len(all))
	res.Sample = map[string]interface{}{"kind": "event round-trips", "events": len(all), "n": n, "payload_variants": len(variants)}
	return res
}

func normWire(w hg.WireEvent) hg.WireEvent {
	b, _ := json.Marshal(w)
	var o hg.WireEvent
	json.Unmarshal(b, &o)
	return o
}

func describeEvent(ev *hg.Event) map[string]interface{} {
	return map[string]interface{}{"hash": ev.Hex(), "index": ev.Index(), "parents": ev.Body.Parents, "txs": fmt.Sprintf("%q", ev.Body.Transactions), "txs_nil": ev.Body.Transactions == nil,
		"itxs": len(ev.Body.InternalTransactions), "itxs_nil": ev.Body.InternalTransactions == nil, "sigs": len(ev.Body.BlockSignatures), "sigs_nil": ev.Body.BlockSignatures == nil, "timestamp": ev.Body.Timestamp}
}

// runC15Frames: blocks and frames of real histories (and permuted rebuilds)
// through the JSON transport and the canonical encoding.
func runC15Frames(cs CaseSpec) *CaseResult {
	res := newResult(cs)
	nw := NewNetwork(cs, res)
	defer nw.Close()
	opts := defaultOpts()
	nw.DefaultOpts = opts
	nw.GenesisNodes(int(cs.I("n", 4)), opts, nil)
	rng := cs.rng("c15fr")
	sp := ScheduleSpec{Steps: int(cs.I("steps", 250)), Shape: cs.Str("shape", "uniform"), SubmitProb: 0.5, TxKinds: 6, Joins: int(cs.I("joins", 1)), Leaves: int(cs.I("leaves", 0)), Simultaneous: cs.I("simultaneous", 0) == 1, EmptyProb: 0.05}
	nw.Mons = []Monitor{NewMonEncoding()}
	nw.RunSchedule(sp)
	if nw.stopped {
		return res
	}
	nw.FairCycles(10)
	checked := 0
	resetsDone := map[int]int{}
	served := map[int]bool{}
	for _, n := range nw.upReal() {
		st := n.Core.Hg().Store
		for i := st.LastBlockIndex(); i >= 0; i-- {
			b, err := st.GetBlock(i)
			if err != nil {
				continue
			}
			f, err := st.GetFrame(b.RoundReceived())
			if err != nil {
				continue
			}
			res.Evaluations++
			// transport JSON (FastForwardResponse)
			var out bnet.FastForwardResponse
			if err := wireCopy(&bnet.FastForwardResponse{FromID: n.ID, Block: *b, Frame: *f, Snapshot: []byte{1, 2}}, &out); err != nil {
				res.violate("C15", "C15:response-not-transportable", err.Error(), nil)
				return res
			}
			h1, _ := b.Body.Hash()
			h2, _ := out.Block.Body.Hash()
			if !bytes.Equal(h1, h2) {
				res.violate("C15", "C15:block-hash-changes-over-json", fmt.Sprintf("node %d block %d: body hash differs after the JSON transport", n.Idx, i), map[string]interface{}{"before": normBody(b.Body), "after": normBody(out.Block.Body)})
				return res
			}
			for _, bs := range out.Block.GetSignatures() {
				if ok, err := out.Block.Verify(bs); !ok || err != nil {
					res.violate("C15", "C15:block-signature-invalid-after-json", fmt.Sprintf("node %d block %d: a signature no longer verifies after the JSON transport", n.Idx, i), nil)
					return res
				}
				res.count("encoding_block_signatures_verified", 1)
			}
			fh1, _ := f.Hash()
			fh2, _ := out.Frame.Hash()
			if !bytes.Equal(fh1, fh2) || !bytes.Equal(fh1, b.Body.FrameHash) {
				res.violate("C15", "C15:frame-hash-changes-over-json", fmt.Sprintf("node %d round %d: frame hash differs after the JSON transport (or from the block's frame hash)", n.Idx, f.Round), nil)
				return res
			}
			// canonical encoding round trip (database form)
			raw, err := f.Marshal()
			if err == nil {
				f3 := new(hg.Frame)
				if err := f3.Unmarshal(raw); err != nil {
					res.violate("C15", "C15:frame-canonical-decode-fails", err.Error(), nil)
					return res
				}
				fh3, _ := f3.Hash()
				if !bytes.Equal(fh1, fh3) {
					res.violate("C15", "C15:frame-hash-changes-over-canonical-encoding", fmt.Sprintf("node %d round %d: frame hash differs after Marshal/Unmarshal", n.Idx, f.Round), nil)
					return res
				}
			}
			// same content, maps filled in another order, events re-wrapped
			g := &hg.Frame{Round: out.Frame.Round, Timestamp: out.Frame.Timestamp, Peers: out.Frame.Peers, Events: out.Frame.Events, Roots: map[string]*hg.Root{}, PeerSets: map[int][]*peers.Peer{}}
			rk := []string{}
			for k := range out.Frame.Roots {
				rk = append(rk, k)
			}
			for _, i := range rng.Perm(len(rk)) {
				g.Roots[rk[i]] = out.Frame.Roots[rk[i]]
			}
			pk := []int{}
			for k := range out.Frame.PeerSets {
				pk = append(pk, k)
			}
			for _, i := range rng.Perm(len(pk)) {
				g.PeerSets[pk[i]] = out.Frame.PeerSets[pk[i]]
			}
			fh4, _ := g.Hash()
			if !bytes.Equal(fh1, fh4) {
				res.violate("C15", "C15:frame-hash-depends-on-map-order", fmt.Sprintf("node %d round %d: frame hash changes when its maps are filled in another order", n.Idx, f.Round), nil)
				return res
			}
			// a node that resets itself from this block and frame as received over
			// the transport must afterwards hold, and serve, a frame that still
			// hashes to the block's frame hash (once per round: honest nodes' frames
			// are equal)
			for pass := 0; pass < 2 && !served[f.Round]; pass++ {
				if pass == 1 {
					served[f.Round] = true
				}
				var blk hg.Block
				var frm hg.Frame
				if wireCopy(&out.Block, &blk) == nil && wireCopy(&out.Frame, &frm) == nil {
					if pass == 1 {
						// the same decoded frame in a slice with room to grow (how much room
						// a decoder leaves is not part of the value it decoded)
						room := 8
						for _, r := range frm.Roots {
							if r != nil {
								room += len(r.Events)
							}
						}
						frm.Events = append(make([]*hg.FrameEvent, 0, len(frm.Events)+room), frm.Events...)
						res.count("encoding_resets_from_a_decoded_frame_whose_event_slice_has_room_to_grow", 1)
					}
					rs := hg.NewInmemStore(5000)
					rh := hg.NewHashgraph(rs, func(*hg.Block) error { return nil }, quietLogger())
					rh.Init(peers.NewPeerSet(clonePeers(nw.Genesis)))
					if err := rh.Reset(&blk, &frm); err == nil {
						res.count("encoding_frames_read_back_from_a_store_reset_from_the_transported_frame", 1)
						res.max("encoding_max_events_in_a_frame_used_for_a_reset", int64(len(frm.Events)))
						sf, err := rs.GetFrame(blk.RoundReceived())
						var sfh []byte
						if err == nil {
							sfh, _ = sf.Hash()
						}
						var out2 bnet.FastForwardResponse
						if err == nil {
							// ... and as it would be served in turn
							if wireCopy(&bnet.FastForwardResponse{Block: blk, Frame: *sf}, &out2) == nil {
								sfh2, _ := out2.Frame.Hash()
								if !bytes.Equal(sfh, sfh2) {
									sfh = sfh2
								}
							}
						}
						if err != nil || !bytes.Equal(sfh, b.Body.FrameHash) {
							res.violate("C15", "C15:frame-held-by-a-reset-node-no-longer-hashes-to-its-block",
								fmt.Sprintf("node %d round %d: a store reset from the block and frame as received over the JSON transport holds a frame of round %d (%d events) whose hash is not the block's frame hash (read error: %v)", n.Idx, f.Round, blk.RoundReceived(), len(frm.Events), err), nil)
							rs.Close()
							return res
						}
					} else {
						res.count("encoding_resets_refused", 1)
					}
					rs.Close()
				}
			}
			// a node that resets itself from this block and frame (as received over
			// the transport) derives the same membership facts as the sender,
			// whatever the order in which the frame's maps are walked: the first
			// round of every participant decides who gets a root in later frames,
			// and thereby later frame hashes
			if len(out.Frame.PeerSets) >= 2 && resetsDone[n.Idx] < 12 {
				resetsDone[n.Idx]++
				for k := 0; k < 6; k++ {
					var blk hg.Block
					var frm hg.Frame
					if wireCopy(&out.Block, &blk) != nil || wireCopy(&out.Frame, &frm) != nil {
						break
					}
					rs := hg.NewInmemStore(2000)
					rh := hg.NewHashgraph(rs, func(*hg.Block) error { return nil }, quietLogger())
					rh.Init(peers.NewPeerSet(clonePeers(nw.Genesis)))
					if err := rh.Reset(&blk, &frm); err != nil {
						rs.Close()
						res.count("encoding_resets_refused", 1)
						break
					}
					res.count("encoding_stores_reset_from_a_transported_frame", 1)
					for _, p := range st.RepertoireByID() {
						want, wok := st.FirstRound(p.ID())
						got, gok := rs.FirstRound(p.ID())
						if _, known := rs.RepertoireByID()[p.ID()]; !known {
							continue // joined after this frame
						}
						res.count("encoding_first_round_comparisons", 1)
						if wok != gok || want != got {
							res.violate("C15", "C15:membership-facts-depend-on-who-reads-the-frame",
								fmt.Sprintf("node %d round %d: participant %s first belongs to a validator set in round %d according to the sender, and in round %d (known: %v) according to a node that reset itself from the transported frame (attempt %d of 6; the frame lists %d validator sets)", n.Idx, f.Round, p.Moniker, want, got, gok, k+1, len(out.Frame.PeerSets)), nil)
							rs.Close()
							return res
						}
					}
					rs.Close()
				}
			}
			// events inside the frame keep their hashes and signatures
			for _, fe := range out.Frame.Events {
				if ok, err := fe.Core.Verify(); !ok || err != nil {
					res.violate("C15", "C15:frame-event-invalid-after-json", fmt.Sprintf("node %d round %d: frame event no longer verifies after the JSON transport", n.Idx, f.Round), nil)
					return res
				}
			}
			checked++
			res.count("encoding_block_frame_roundtrips", 1)
		}
	}
	if checked >= 3 {
		res.digest("c15fr", cs.Seed, cs.Index, checked)
	}
	res.Sample = map[string]interface{}{"kind": "block/frame round-trips of a real history", "blocks_and_frames": checked}
	return res
}

func init() {
	register(&PropDef{
		ID: "C15", Level: "exploration", Engine: "dagcheck",
		Rule:          "two kinds of cases: (a) ~150 generated events per case with payloads from a variant grammar (nil vs empty at every slice level, empty/binary/60kB transactions, 0..many internal transactions and block signatures, all parent combinations, extreme timestamps, peers with odd monikers) converted event->wire->transport JSON->event on a second real Hashgraph that knows the parents, event->DB form->event, written to a real Badger store with a cache smaller than the number of events, read back after eviction and after close/reopen: hash, signature validity, payload bytes, wire form and private fields must be identical; (b) all blocks and frames of real nodesim histories through the FastForwardResponse JSON transport, the canonical encoding and a rebuild with permuted map fill order: hashes equal, signatures valid; non-trivial: >=100 events or >=3 block/frame pairs converted",
		Assumptions:   []string{"block signatures inside generated events are attributed to the event's creator (the wire form carries no validator field by design)"},
		MinNontrivial: 8,
		Cases: func(tier string, seed int64) []CaseSpec {
			count := 24
			if tier == "thorough" {
				count = 400
			}
			cs := []CaseSpec{}
			for i := 0; i < count; i++ {
				if i%3 == 2 {
					c := CaseSpec{Kind: "frames", P: map[string]int64{"n": int64(3 + i%4), "steps": int64(200 + (i*31)%200), "joins": int64(i % 2)}}
					if i%6 == 5 {
						// several membership requests, some through the same node
						c.P["n"], c.P["joins"], c.P["leaves"], c.P["simultaneous"], c.P["steps"] = 4, 3, 1, 1, 420
					}
					cs = append(cs, c)
				} else {
					cs = append(cs, CaseSpec{Kind: "events", P: map[string]int64{"n": int64(2 + i%4), "events": 220, "cache": int64(120 + (i*7)%60)}})
				}
			}
			// histories in which a partition without quorum on either side heals, or a
			// validator catches up after a long silence: rounds then receive many
			// events at once and frames of a hundred events and more travel
			for i := 0; i < count/6; i++ {
				cs = append(cs, CaseSpec{Kind: "frames", P: map[string]int64{"n": int64(3 + i%2), "steps": int64(380 + 40*(i%3)), "joins": 0}, S: map[string]string{"shape": []string{"partition", "lag", "partition", "silent"}[i%4]}})
			}
			for i := 0; i < count/4; i++ {
				cs = append(cs, CaseSpec{Kind: "peersets", P: map[string]int64{"n": int64(1 + i%7)}})
			}
			return cs
		},
		Run: func(cs CaseSpec) *CaseResult {
			if cs.Kind == "peersets" {
				return runC15PeerSets(cs)
			}
			if cs.Kind == "frames" {
				return runC15Frames(cs)
			}
			return runC15Events(cs)
		},
		PerCaseTimeout: 10 * time.Minute,
	})
}

// cloneEvent copies the public part of an event (private fields start afresh).
func cloneEvent(ev *hg.Event) *hg.Event {
	b, _ := json.Marshal(struct {
		Body      hg.EventBody
		Signature string
	}{ev.Body, ev.Signature})
	c := new(hg.Event)
	json.Unmarshal(b, c)
	return c
}

// runC15PeerSets: validator sets written to a real Badger store and read back
// from the database (also after close and reopen) must be the same value: same
// hash, same peers field by field, and a frame built from the reloaded peers
// must hash like one built from the originals. Keys come in every spelling the
// code base accepts (0X/0x prefix, upper, lower and mixed case hex digits):
// the spelling is part of what gets hashed.
func runC15PeerSets(cs CaseSpec) *CaseResult {
	res := newResult(cs)
	rng := cs.rng("c15ps")
	dir := dagWorkDir(cs)
	defer os.RemoveAll(dir)
	spell := func(hexKey string, mode int) string {
		body := hexKey[2:]
		switch mode {
		case 1:
			return "0x" + strings.ToLower(body)
		case 2:
			return "0X" + strings.ToLower(body)
		case 3:
			b := []byte(body)
			for i := range b {
				if rng.Intn(2) == 0 {
					b[i] = strings.ToLower(string(b[i]))[0]
				}
			}
			return "0x" + string(b)
		}
		return hexKey
	}
	sets := map[int]*peers.PeerSet{}
	n := int(cs.I("n", 4))
	for si, round := range []int{0, 5, 17, 40} {
		ps := []*peers.Peer{}
		for i := 0; i < n+si; i++ {
			k := detKey(cs.Seed, "c15ps", cs.Index*100+i)
			ps = append(ps, peers.NewPeer(spell(pubHex(k), (i+si)%4), fmt.Sprintf("addr-%d:%d", i, 1000+rng.Intn(9000)), []string{"", "m", "näme with spaces", "\u0000x"}[rng.Intn(4)]))
		}
		sets[round] = peers.NewPeerSet(ps)
	}
	open := func() (*hg.BadgerStore, error) { return hg.NewBadgerStore(100, dir, false, nil) }
	st, err := open()
	if err != nil {
		res.inconclusive(err.Error())
		return res
	}
	for round, ps := range sets {
		if err := st.SetPeerSet(round, ps); err != nil {
			res.inconclusive(fmt.Sprintf("SetPeerSet(%d): %v", round, err))
			st.Close()
			return res
		}
	}
	check := func(when string) bool {
		for round, want := range sets {
			got, err := st.VerifDBGetPeerSet(round)
			res.Evaluations++
			res.count("peer_sets_read_back_from_the_database", 1)
			if err != nil {
				res.violate("C15", "C15:peer-set-unreadable-from-database", fmt.Sprintf("%s: the validator set of round %d cannot be read back: %v", when, round, err), nil)
				return false
			}
			hw, _ := want.Hash()
			hgot, _ := got.Hash()
			diff := ""
			if !bytes.Equal(hw, hgot) {
				diff = "hash differs"
			}
			if len(got.Peers) != len(want.Peers) {
				diff = fmt.Sprintf("%d peers instead of %d", len(got.Peers), len(want.Peers))
			} else {
				for i := range want.Peers {
					a, b := want.Peers[i], got.Peers[i]
					if a.PubKeyHex != b.PubKeyHex || a.NetAddr != b.NetAddr || a.Moniker != b.Moniker {
						diff = fmt.Sprintf("peer %d is {%s %q %q} instead of {%s %q %q}", i, trunc(b.PubKeyHex, 14), b.NetAddr, b.Moniker, trunc(a.PubKeyHex, 14), a.NetAddr, a.Moniker)
						break
					}
				}
			}
			if diff == "" {
				// a frame built from the reloaded peers hashes like one built from the originals
				fa := &hg.Frame{Round: round, Peers: want.Peers, Roots: map[string]*hg.Root{}, Events: []*hg.FrameEvent{}, PeerSets: map[int][]*peers.Peer{round: want.Peers}}
				fb := &hg.Frame{Round: round, Peers: got.Peers, Roots: map[string]*hg.Root{}, Events: []*hg.FrameEvent{}, PeerSets: map[int][]*peers.Peer{round: got.Peers}}
				ha, _ := fa.Hash()
				hb, _ := fb.Hash()
				if !bytes.Equal(ha, hb) {
					diff = "a frame built from the reloaded peers has another hash"
				}
			}
			if diff != "" {
				res.violate("C15", "C15:peer-set-changes-through-database", fmt.Sprintf("%s: the validator set of round %d read back from the database is not the one written: %s", when, round, diff), map[string]interface{}{"round": round})
				return false
			}
		}
		return true
	}
	if !check("same store instance") {
		st.Close()
		return res
	}
	st.Close()
	st, err = open()
	if err != nil {
		res.inconclusive("reopen: " + err.Error())
		return res
	}
	ok := check("after close and reopen")
	st.Close()
	if ok {
		res.digest("c15ps", cs.Seed, cs.Index, n)
	}
	res.Sample = map[string]interface{}{"kind": "validator sets through the database", "sets": len(sets), "spellings": "0X upper / 0x lower / 0X lower / mixed"}
	return res
}

// MonEncoding: every event a node holds must keep hashing to the key it is
// stored under, keep a valid signature of its creator, and survive the wire
// form (event -> wire -> transport JSON -> event, on the same node, which knows
// its parents) with the same hash - at the time it is first seen and every time
// it is looked at again (an event is immutable once signed).
type MonEncoding struct {
	seen map[int]int // node -> number of order entries already examined once
}

func NewMonEncoding() *MonEncoding        { return &MonEncoding{seen: map[int]int{}} }
func (m *MonEncoding) Name() string       { return "encoding" }
func (m *MonEncoding) Finish(nw *Network) {}
func (m *MonEncoding) AfterStep(nw *Network) {
	for _, n := range nw.Nodes {
		if n.Node == nil || n.Puppet || !n.Up || n.StoreClosed {
			continue
		}
		st := n.Core.Hg().Store
		// new events, plus a window of older ones again
		lo := m.seen[n.Idx] - 40
		if lo < 0 {
			lo = 0
		}
		for i := lo; i < len(n.order); i++ {
			h := n.order[i]
			ev, err := st.GetEvent(h)
			if err != nil {
				continue
			}
			nw.Res.count("encoding_stored_events_examined", 1)
			fresh := &hg.Event{Body: ev.Body, Signature: ev.Signature}
			if fresh.Hex() != h {
				nw.violate("C15", "C15:stored-event-no-longer-hashes-to-its-key",
					fmt.Sprintf("node %d: the event stored under %s (creator %s index %d) now hashes to %s: its body changed after it was signed", n.Idx, trunc(h, 14), trunc(ev.Creator(), 12), ev.Index(), trunc(fresh.Hex(), 14)),
					map[string]interface{}{"node": n.Idx, "internal_transactions": len(ev.Body.InternalTransactions), "transactions": len(ev.Body.Transactions)})
				return
			}
			if (i >= m.seen[n.Idx] || nw.Step%10 == 0) && !harnessVerify(fresh) {
				nw.violate("C15", "C15:stored-event-signature-invalid", fmt.Sprintf("node %d: the signature of stored event %s no longer verifies", n.Idx, trunc(h, 14)), map[string]interface{}{"node": n.Idx})
				return
			}
			if i >= m.seen[n.Idx] {
				// wire round trip on this node
				w, err := n.Core.ToWire([]*hg.Event{ev})
				if err != nil || len(w) != 1 {
					continue
				}
				var w2 hg.WireEvent
				if wireCopy(&w[0], &w2) != nil {
					continue
				}
				back, err := n.Core.FromWire([]hg.WireEvent{w2})
				if err != nil || len(back) != 1 {
					continue
				}
				nw.Res.count("encoding_wire_round_trips_of_stored_events", 1)
				if back[0].Hex() != h {
					nw.violate("C15", "C15:hash-changes-over-wire", fmt.Sprintf("node %d: stored event %s comes back from its wire form with hash %s", n.Idx, trunc(h, 14), trunc(back[0].Hex(), 14)), map[string]interface{}{"node": n.Idx})
					return
				}
			}
		}
		m.seen[n.Idx] = len(n.order)
	}
}
