#!/bin/bash
# Builds the verification harness offline from files on disk only.
set -e
cd "$(dirname "$0")"
export GOFLAGS=-mod=mod GOPROXY=off GOSUMDB=off GOTOOLCHAIN=local
mkdir -p .build .work evidence
cp /repo/go.sum harness/go.sum
( cd harness && go build -tags verif -o ../.build/vcheck . )
( cd harness && go build -race -tags verif -o ../.build/vcheck-race . ) || echo "warning: race-detector build failed"
echo "setup ok"
