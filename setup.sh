#!/bin/bash
# Builds the verification harness offline from files on disk only.
set -e
cd "$(dirname "$0")"
export GOFLAGS=-mod=mod GOPROXY=off GOSUMDB=off GOTOOLCHAIN=local
mkdir -p .build .work evidence
cp /repo/go.sum harness/go.sum
( cd harness && go build -tags verif -o ../.build/vcheck . )
echo "setup ok"
