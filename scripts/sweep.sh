#!/bin/bash
# usage: sweep.sh <seed> [tier] [ids...]  -- runs checks and prints one line each
SEED=${1:-1}; TIER=${2:-quick}; shift 2 2>/dev/null
IDS="$@"; [ -z "$IDS" ] && IDS="C01 C02 C03 C04 C05 C06 C07 C08 C09 C10 C11 C12 C13 C14 C15 C16 C17 C18 C19 C20"
cd "$(dirname "$(readlink -f "$0")")/.."
if [ -n "${SWEEP_BUILD_ONCE:-}" ]; then
  # build now, reuse the binary for every property (see ./check)
  ./check C19 --tier quick >/dev/null 2>&1
  export VERIF_NOBUILD=1
fi
for p in $IDS; do
  s=$(date +%s)
  out=$(VERIF_SEED=$SEED ./check $p --tier $TIER 2>&1); rc=$?
  e=$(date +%s)
  echo "$p seed=$SEED tier=$TIER exit=$rc wall=$((e-s))s $(echo "$out" | grep -c '^VIOLATION') viol $(echo "$out" | grep -c '^KNOWN-FINDING') known | $(echo "$out" | grep "^$p tier" | sed 's/.*cases=/cases=/')"
  if [ $rc -ne 0 ]; then echo "$out" | grep -A2 '^VIOLATION\|^BROKEN' | head -12; fi
done
