#!/bin/bash
# usage: onecase.sh PROP INDEX [SEED] [TIER]
# Debug helper: runs a single case of a property in a worker process, with a
# goroutine dump (SIGQUIT) if it exceeds $TO seconds (default 120).
P=$1; I=$2; S=${3:-1}; T=${4:-quick}
cd /verif
export VERIF_DIR=/verif VERIF_WORKDIR=/tmp/onecase-work GOFLAGS=-mod=mod GOPROXY=off GOSUMDB=off GOTOOLCHAIN=local
mkdir -p $VERIF_WORKDIR
cp /repo/go.sum harness/go.sum
(cd harness && go build -tags verif -o ../.build/vcheck .) || exit 2
./.build/vcheck cases $P $T $S > /tmp/cases.json
python3 -c "
import json
c=json.load(open('/tmp/cases.json'))
json.dump([c[$I]],open('/tmp/onecase.json','w'))
print(c[$I])"
rm -f /tmp/onecase.out
timeout -s QUIT ${TO:-120} ./.build/vcheck worker /tmp/onecase.json /tmp/onecase.out > /tmp/onecase.err 2>&1
echo exit=$?
python3 - <<'EOF'
import json
try:
    for l in open('/tmp/onecase.out'):
        if l.startswith('RESULT '):
            r=json.loads(l[7:]); r.pop('sample',None)
            print(json.dumps(r)[:3000])
except Exception as e: print(e)
EOF
