#!/bin/bash
# usage: race_baseline.sh [seeds...]   (default 1 2 3)
# Collects, on the tree as it is, the access pairs the Go race detector reports in the race-instrumented
# cases of the quick tier and writes their union to /verif/race_baseline.json. Run it on the unchanged
# tree only; the file is committed and only read at run time (reports are never a verdict).
cd "$(dirname "$(readlink -f "$0")")/.."
SEEDS="$@"; [ -z "$SEEDS" ] && SEEDS="1 2 3"
T=$(mktemp -d)
for s in $SEEDS; do
  for p in C01 C02 C05 C08 C17 C20; do
    VERIF_SEED=$s VERIF_EVIDENCE_DIR=$T/$s ./check $p --tier quick >/dev/null 2>&1
  done
done
python3 - "$T" <<'PY'
import json,glob,sys,os
pairs=set()
old='/verif/race_baseline.json'
if os.path.exists(old):
    pairs|=set(json.load(open(old)).get('pairs',[]))
for f in glob.glob(sys.argv[1]+'/*/*.json'):
    r=json.load(open(f))['coverage'].get('race_detector') or {}
    for p in r.get('access_pairs_babble',[]):
        pairs.add(p.rsplit(' x',1)[0])
json.dump({"description":"access pairs (innermost Babble frames of the two accesses) reported by the Go race detector on the unchanged tree; informational baseline, never a verdict","pairs":sorted(pairs)},open(old,'w'),indent=1)
print(len(pairs),"pairs")
PY
rm -rf "$T"
