#!/usr/bin/env python3
import json,glob,sys
import jsonschema
m=json.load(open('/verif/MANIFEST.json')); s=json.load(open('/root/.vp/MANIFEST.schema.json')); jsonschema.validate(m,s); print('manifest valid,',len(m['checks']),'checks,',len(m.get('not_applicable',[])),'not_applicable')
s=json.load(open('/root/.vp/EVIDENCE.schema.json'))
for f in sorted(glob.glob('/verif/evidence/*.json')):
    try:
        jsonschema.validate(json.load(open(f)),s); print(f,'valid')
    except Exception as e:
        print(f,'INVALID',str(e)[:300])
