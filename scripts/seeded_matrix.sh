#!/bin/bash
# usage: seeded_matrix.sh [ids...]  -- applies every stored seeded change to /repo in turn, runs the check of the
# property it breaks (quick tier, seed 1), reverts, and writes seeded/MATRIX.txt. /repo must be clean and nothing
# else may be using it meanwhile.
cd "$(dirname "$(readlink -f "$0")")/.."
IDS="$@"; [ -z "$IDS" ] && IDS=$(ls seeded | grep '^C[0-9][0-9][a-z]\?$')
OUT=seeded/MATRIX.txt
[ $# -eq 0 ] && : > $OUT
for id in $IDS; do
  prop=${id:0:3}
  r=$(scripts/try_seeded.sh $id "$(pwd)/seeded/$id" $prop 2>&1 | grep -v '^$\|conda')
  line=$(echo "$r" | head -1 | sed 's/; C[0-9]* tier=quick seed=1://')
  sigs=$(echo "$r" | grep 'signature:' | sed 's/.*signature: //' | sort -u | tr '\n' ' ')
  echo "$line | $sigs" | tee -a $OUT
done
