#!/bin/bash
# usage: try_self.sh <mutant-name> <check ids...> : applies /verif/seeded/self/<name>.diff to /repo, runs checks, reverts
N=$1; shift
cd /repo || exit 2
[ -n "$(git status --porcelain)" ] && { echo "/repo not clean"; exit 2; }
git apply /verif/seeded/self/$N.diff || { echo "$N does not apply"; exit 1; }
export GOFLAGS=-mod=mod GOPROXY=off GOSUMDB=off GOTOOLCHAIN=local
go build ./... || { echo "$N does not build"; git checkout -- .; exit 1; }
for c in "$@"; do
  out=$(cd /verif && VERIF_EVIDENCE_DIR=/tmp/try-seeded-evidence ./check $c 2>&1); rc=$?
  echo "$N vs $c: exit=$rc | $(echo "$out" | grep "^$c tier" | sed 's/.*cases=/cases=/' | cut -c1-90) | $(echo "$out" | grep -A1 '^VIOLATION' | grep signature | sort | uniq -c | tr '\n' ';' | cut -c1-200)"
done
git checkout -- . ; git status --short | head -2
