#!/bin/bash
# usage: seeded_matrix_isolated.sh [ids...]
# Like seeded_matrix.sh, but on a private copy: a git worktree of /repo's HEAD and a copy of /verif
# (harness pointed at that worktree) under $MX (default /tmp/mx), so that /repo and /verif stay free
# for other work meanwhile. Applies every stored seeded change in turn, runs the check of the property
# it breaks (quick tier, seed 1), reverts; prints one line per change and writes seeded/MATRIX.txt
# (in /verif) when run without arguments. The private copy is removed at the end.
MX=${MX:-/tmp/mx}
export GOFLAGS=-mod=mod GOPROXY=off GOSUMDB=off GOTOOLCHAIN=local
HERE="$(cd "$(dirname "$(readlink -f "$0")")/.." && pwd)"
IDS="$@"; [ -z "$IDS" ] && IDS=$(ls "$HERE/seeded" | grep '^C[0-9][0-9][a-z]\?$')
git -C /repo worktree remove --force "$MX/repo" >/dev/null 2>&1; rm -rf "$MX"; mkdir -p "$MX"
git -C /repo worktree add --detach "$MX/repo" HEAD >/dev/null 2>&1 || { echo "cannot create worktree"; exit 2; }
mkdir -p "$MX/verif"
rsync -a --exclude .git --exclude .work --exclude .build --exclude violations --exclude seeded "$HERE/" "$MX/verif/"
sed -i "s#=> /repo#=> $MX/repo#" "$MX/verif/harness/go.mod"
[ -f "$MX/repo/go.sum" ] || cp /repo/go.sum "$MX/repo/go.sum"
cp "$MX/repo/go.sum" "$MX/verif/harness/go.sum"
OUT="$HERE/seeded/MATRIX.txt"
[ $# -eq 0 ] && : > "$OUT.new"
cleanup() { git -C /repo worktree remove --force "$MX/repo" >/dev/null 2>&1; rm -rf "$MX"; }
trap cleanup EXIT
for id in $IDS; do
  prop=${id:0:3}
  cd "$MX/repo" || exit 2
  git reset -q --hard HEAD
  if ! git apply --3way "$HERE/seeded/$id/patch.diff" 2>/tmp/mx-apply.err && ! git apply "$HERE/seeded/$id/patch.diff" 2>>/tmp/mx-apply.err; then
    line="$id vs $prop: patch does not apply to $(git rev-parse --short HEAD)"
  else
    mkdir -p "$MX/verif/.build" "$MX/verif/.work"
    ( cd "$MX/verif/harness" && go build -tags verif -o ../.build/vcheck . && go build -race -tags verif -o ../.build/vcheck-race . ) >/tmp/mx-build.err 2>&1
    if [ $? -ne 0 ]; then
      line="$id vs $prop: does not build"
    else
      out=$(cd "$MX/verif" && VERIF_DIR="$MX/verif" VERIF_TIER=quick VERIF_SEED=${SEED:-1} VERIF_EVIDENCE_DIR="$MX/evidence" ./.build/vcheck run $prop 2>&1); rc=$?
      sigs=$(echo "$out" | grep -A1 '^VIOLATION' | grep 'signature:' | sed 's/.*signature: //' | sort -u | tr '\n' ' ')
      line="$id vs $prop: exit=$rc $(echo "$out" | grep -c '^VIOLATION') violation line(s) $(echo "$out" | grep "^$prop tier" | sed 's/.*cases=/cases=/; s/ evaluations.*//') | $sigs"
    fi
  fi
  echo "$line"
  [ $# -eq 0 ] && echo "$line" >> "$OUT.new"
  rm -rf "$MX/verif/violations" "$MX/verif/.work"
done
[ $# -eq 0 ] && mv "$OUT.new" "$OUT"
exit 0
