#!/bin/bash
# Runs the repository's own test suite with the verif guard OFF (no -tags verif).
# Serialised with a lock because src/node tests bind fixed TCP ports.
export GOFLAGS=-mod=mod GOPROXY=off GOSUMDB=off GOTOOLCHAIN=local
cd /repo || exit 2
exec flock /tmp/babble-nodetest.lock go test -vet=off -count=1 -timeout 25m ./... "$@"
