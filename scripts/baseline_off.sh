#!/bin/bash
# Runs the repository's own test suite with the verif guard OFF (no -tags verif).
# src/node tests bind fixed TCP ports: the suite runs in a private network
# namespace when possible (so concurrent runs cannot collide), else under a lock.
export GOFLAGS=-mod=mod GOPROXY=off GOSUMDB=off GOTOOLCHAIN=local
HERE="$(dirname "$(readlink -f "$0")")"
cd "${REPO_DIR:-/repo}" || exit 2
exec "$HERE/netns_run.sh" go test -vet=off -count=1 -timeout 25m ./... "$@"
