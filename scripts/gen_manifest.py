#!/usr/bin/env python3
"""Generates /verif/MANIFEST.json from the table below (single source of truth)."""
import json, subprocess, sys

CHECKS = {
 "C01": dict(engine="nodesim", cat="exploration", ref="DESIGN.md §3 C01",
   technique="runtime monitoring: online agreement monitor over commit callbacks of real nodes in a harness-scheduled network",
   text="Every delivery of block i by any full-history node is compared, at the commit callback, with the first delivery of block i anywhere (index, round-received, payload, receipts, frame hash, peer-set hash, timestamp, state hash); store views are re-compared after every step. Histories are seeded random schedules of real Node objects (lagging node, silent minority, healing partition, split view, truncated/dropped/stale syncs, joins/leaves). Held means: no disagreement on the executions listed in the evidence.",
   note="Trusted: the simulator's synchronous transport is faithful to one-lock-hold-per-step; no equivocation generated; hooks are read-only."),
 "C02": dict(engine="nodesim", cat="exploration", ref="DESIGN.md §3 C02",
   technique="runtime monitoring: callback-sequence monitor plus re-reads of delivered blocks after every step",
   text="Per node: commit callbacks must have consecutive indexes (0, or anchor+1 after a reset) and strictly increasing round-received; every delivered index is re-read from the store (recent ones every step, all periodically) and must equal the delivered body plus the application's response; signature maps may only grow.",
   note="Reads happen between lock holds (single-threaded simulator). In-memory stores are not judged for blocks they evicted."),
 "C04": dict(engine="nodesim", cat="exploration", ref="DESIGN.md §3 C04",
   technique="runtime monitoring: delivered blocks joined with the harness's own DAG record (ancestry DFS, payload concatenation)",
   text="The harness records every event (parents, payload) at the store boundary. For each delivered block of each node: block payload must be the concatenation of its frame's events' payloads, frame = events the node marks received in that round, no event twice, and every payload-carrying ancestor of a committed payload-carrying event is committed earlier.",
   note="The DAG record is built from what real stores expose; unique transaction ids make the join unambiguous."),
 "C05": dict(engine="nodesim", cat="exploration", ref="DESIGN.md §3 C05",
   technique="runtime monitoring with fault injection: multiset conservation monitor over submissions, pools, own events and commits",
   text="After every step: committed multiset <= submitted multiset per node; submitted(X) = pool(X) + payload(own events of X) for every running node X, under dropped/truncated/stale syncs, bursts, duplicate-content/empty/binary/large transactions and transactions added from inside the commit callback; after a fair suffix every transaction accepted by a running node is committed exactly as often as submitted on every full-history node.",
   note="A restarted node legitimately loses its pool; the property only speaks about nodes that keep running."),
 "C06": dict(engine="nodesim", cat="exploration", ref="DESIGN.md §3 C06",
   technique="runtime monitoring: bounded-progress check (logical all-pairs cycles) after adversarial prefixes",
   text="Liveness restated as bounded progress: after any random prefix (all shapes and faults, a minority < n/3 silent from any point, possibly for good), at most 60 fair all-pairs cycles with the default sync limit must leave every live node idle with all payload events, transactions and membership requests committed and equal chain lengths. The evidence reports the cycles actually needed.",
   note="An unbounded eventually is out of reach for runtime monitoring; the bound is a fixed constant far above what was observed. No equivocation."),
 "C10": dict(engine="nodesim", cat="exploration", ref="DESIGN.md §3 C10",
   technique="runtime monitoring: per-node replay of delivered receipts compared with the node's round->validator-set function after every step",
   text="For every node (including late joiners replaying from genesis) the function round -> validator set is compared after every step with genesis modified by the accepted receipts of that node's delivered blocks at round-received+6; block peer-set hashes and witness membership are checked. Membership scripts: successive / simultaneous joins, leaves, re-join after leave, refusals.",
   note="Sets compared as sets of keys; order judged through the block's peer-set hash against the node's own reported set."),
 "C19": dict(engine="thresholds", cat="exploration", ref="DESIGN.md §3 C19",
   technique="runtime monitoring: the real threshold methods and acceptance decisions executed for every n in 1..100000 against integer arithmetic",
   text="Exhaustive for the stated range: SuperMajority()/TrustCount() of real PeerSet values for every n = 1..100000 against 'least k with 3k>2n' and 'accepted count > n/3' and the derived intersection facts; random branching add/remove/re-add sequences through WithNewPeer/WithRemovedPeer against a model of distinct keys; the real CheckBlock and SetAnchorBlock for all n<=16, k<=n with real keys.",
   note="For n>1500 the PeerSet is assembled from the same exported fields NewPeerSet fills (maps shared between successive n). Refusal of sufficient signatures is not flagged."),
}

REASONS_NOT_YET = "check not built yet in this session (planned; see DESIGN.md)"

ALL = ["C%02d" % i for i in range(1, 21)]

def main():
    checks = []
    for pid in ALL:
        if pid not in CHECKS:
            continue
        c = CHECKS[pid]
        checks.append({
            "property_id": pid,
            "quick_cmd": "./check %s --tier quick" % pid,
            "thorough_cmd": "./check %s --tier thorough" % pid,
            "evidence_file": "/verif/evidence/%s.json" % pid,
            "replay_cmd_template": "./check %s --replay {path}" % pid,
            "engine": c["engine"],
            "level_claimed": {"category": c["cat"], "text": c["text"], "design_ref": c["ref"]},
            "level_note": c["note"],
            "technique": c["technique"],
        })
    try:
        hooks = subprocess.check_output(["git", "-C", "/repo", "log", "--format=%H %s"], text=True).splitlines()
        hook_commits = [l.split()[0] for l in hooks if "verif hooks" in l]
    except Exception:
        hook_commits = []
    m = {
        "version": 1,
        "setup_cmd": "./setup.sh",
        "hooks": {
            "guard": "verif",
            "enable": "go build -tags verif (the harness module /verif/harness replaces github.com/mosaicnetworks/babble with /repo and is always built with -tags verif)",
            "baseline_off_cmd": "/verif/scripts/baseline_off.sh",
            "source_commits": hook_commits,
            "add_only": True,
        },
        "engines": [
            {"name": "nodesim", "path": "/verif/harness", "serves_properties": [p for p in ALL if p in CHECKS and CHECKS[p]["engine"] == "nodesim"],
             "kind_free_text": "deterministic single-threaded network of real node.Node objects driven through a synchronous harness transport; monitors at the commit callback, RPC boundary and store API"},
            {"name": "thresholds", "path": "/verif/harness/thresholds.go", "serves_properties": [p for p in ALL if p in CHECKS and CHECKS[p]["engine"] == "thresholds"],
             "kind_free_text": "executes the real quorum arithmetic and acceptance decisions over an exhaustive range of set sizes"},
        ],
        "checks": checks,
        "not_applicable": [{"property_id": p, "reason": REASONS_NOT_YET} for p in ALL if p not in CHECKS],
        "notes": "Technique family: runtime monitoring. Every check rebuilds the harness against /repo's working tree with -tags verif. Exit 0 held / 1 violation / 2 broken or vacuous. Known findings: /verif/known_findings.json.",
    }
    json.dump(m, open("/verif/MANIFEST.json", "w"), indent=1)
    print("wrote MANIFEST.json with", len(checks), "checks")

if __name__ == "__main__":
    main()
