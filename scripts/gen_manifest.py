#!/usr/bin/env python3
"""Generates /verif/MANIFEST.json from the table below (single source of truth)."""
import json, subprocess, sys

CHECKS = {
 "C01": dict(engine="nodesim", cat="exploration", ref="DESIGN.md §3 C01",
   technique="runtime monitoring: online agreement monitor over commit callbacks of real nodes in a harness-scheduled network",
   text="Every delivery of block i by any full-history node is compared, at the commit callback, with the first delivery of block i anywhere (index, round-received, payload, receipts, frame hash, peer-set hash, timestamp, state hash); store views are re-compared after every step. Histories are seeded random schedules of real Node objects (lagging node, silent minority, healing partition, split view, truncated/dropped/stale syncs, joins/leaves, transient frame-write failures), fixed and searched long-election DAGs delivered to real Hashgraph instances in different arrival orders, and live soak runs (real goroutines, TCP, concurrent submitters and readers). Held means: no disagreement on the executions listed in the evidence. One recorded known finding (late validator-set change, narrow signature).",
   note="Trusted: the simulator's synchronous transport is faithful to one-lock-hold-per-step; no equivocation generated; hooks are read-only."),
 "C02": dict(engine="nodesim", cat="exploration", ref="DESIGN.md §3 C02",
   technique="runtime monitoring: callback-sequence monitor plus re-reads of delivered blocks after every step",
   text="Per node: commit callbacks must have consecutive indexes (0, or anchor+1 after a reset) and strictly increasing round-received; every delivered index is re-read from the store (recent ones every step, all periodically) and must equal the delivered body plus the application's response; the set of signers may only grow; the same blocks are read back through the node's HTTP service API (/block/, /blocks/). Includes in-place fast-forward resets served by the peer with the oldest anchor, transient frame-write failures in the middle of a consensus pass, and live soak runs with concurrent readers.",
   note="Reads happen between lock holds (single-threaded simulator). In-memory stores are not judged for blocks they evicted."),
 "C04": dict(engine="nodesim", cat="exploration", ref="DESIGN.md §3 C04",
   technique="runtime monitoring: delivered blocks joined with the harness's own DAG record (ancestry DFS, payload concatenation)",
   text="The harness records every event (parents, payload) at the store boundary. For each delivered block of each node: block payload must be the concatenation of its frame's events' payloads, frame = events the node marks received in that round, no event twice, and every payload-carrying ancestor of a committed payload-carrying event is committed earlier. A quarter of the histories lose commit acknowledgements (the application processes a block, the commit call returns an error).",
   note="The DAG record is built from what real stores expose; unique transaction ids make the join unambiguous."),
 "C05": dict(engine="nodesim", cat="exploration", ref="DESIGN.md §3 C05",
   technique="runtime monitoring with fault injection: multiset conservation monitor over submissions, pools, own events and commits",
   text="After every step: committed multiset <= submitted multiset per node; submitted(X) = pool(X) + payload(own events of X) for every running node X, under dropped/truncated/stale syncs, bursts, duplicate-content/empty/binary/large transactions and transactions added from inside the commit callback; after a fair suffix every transaction accepted by a running node is committed exactly as often as submitted on every full-history node. Includes storage write failures on first writes and live soak runs whose submitters overwrite their buffer after SubmitTx returned.",
   note="A restarted node legitimately loses its pool; the property only speaks about nodes that keep running."),
 "C06": dict(engine="nodesim", cat="exploration", ref="DESIGN.md §3 C06",
   technique="runtime monitoring: bounded-progress check (logical all-pairs cycles) after adversarial prefixes",
   text="Liveness restated as bounded progress: after any random prefix (all shapes and faults, a minority < n/3 silent from any point, possibly for good), at most 60 fair all-pairs cycles with the default sync limit must leave every live node idle with all payload events, transactions and membership requests committed and equal chain lengths. Includes in-place fast-forwards, membership requests arriving while idle and two leave requests in quick succession; the two-thirds premise is computed from the harness's own replay of delivered receipts. The evidence reports the cycles actually needed.",
   note="An unbounded eventually is out of reach for runtime monitoring; the bound is a fixed constant far above what was observed. No equivocation."),
 "C10": dict(engine="nodesim", cat="exploration", ref="DESIGN.md §3 C10",
   technique="runtime monitoring: per-node replay of delivered receipts compared with the node's round->validator-set function after every step",
   text="For every node (including late joiners replaying from genesis) the function round -> validator set is compared after every step with genesis modified by the accepted receipts of that node's delivered blocks at round-received+6; block peer-set hashes and witness membership are checked. Membership scripts: successive / simultaneous joins, leaves, re-join after leave, refusals.",
   note="Sets compared as sets of keys; order judged through the block's peer-set hash against the node's own reported set."),
 "C19": dict(engine="thresholds", cat="exploration", ref="DESIGN.md §3 C19",
   technique="runtime monitoring: the real threshold methods and acceptance decisions executed for every n in 1..100000 against integer arithmetic",
   text="Exhaustive for the stated range: SuperMajority()/TrustCount() of real PeerSet values for every n = 1..100000 against 'least k with 3k>2n' and 'accepted count > n/3' and the derived intersection facts; random branching add/remove/re-add sequences through WithNewPeer/WithRemovedPeer against a model of distinct keys; the real CheckBlock and SetAnchorBlock for all n<=16, k<=n with real keys, and the anchor decision through the signature pool on a node that knows a second, larger validator set; the fame decisions of a real Hashgraph on corpus shapes and random DAGs (5-7 validators) are compared with a harness-side replay of the votes in which only a supermajority of the validators decides.",
   note="For n>1500 the PeerSet is assembled from the same exported fields NewPeerSet fills (maps shared between successive n). Refusal of sufficient signatures is not flagged."),
 "C03": dict(engine="dagcheck", cat="exploration", ref="DESIGN.md §3 C03",
   technique="runtime monitoring: differential execution of one DAG by many real Hashgraph instances (orders, stores, caches, batchings, sub-DAGs)",
   text="Each seeded synthetic DAG is executed by a reference real Hashgraph and ~14 variants (random linear extensions, fresh process state, Badger, cache sizes from the measured in-flight bound, batched consensus passes, downward-closed sub-DAGs); per-event round/witness/Lamport/fame/round-received and all blocks must be identical (prefix for sub-DAGs). Fixed shapes (long election, straggler witness), uneven creator activity, descendants-last orders and creation-order prefixes are part of every run. Batching differences (passes other than one per insertion, which the code base never uses) are a recorded known finding with two signatures; every other dimension is strict.",
   note="Static validator set; variants ending in a store-miss error below the default cache are outside the supported range and dropped (counted)."),
 "C07": dict(engine="dagcheck", cat="exploration", ref="DESIGN.md §3 C07",
   technique="runtime monitoring over an input grammar: tampered insertion attempts against a harness-side admission predicate plus state-digest and listing invariants",
   text="Valid DAGs are fed to a real Hashgraph through the real insert path with ~60 hostile attempts per case (each body field altered with/without re-signing by the Byzantine creator, equivocations, wrong/duplicate/negative/skipped indexes, unknown parents, foreign creators, membership requests signed by others, requests about the creator itself with forged signatures), directly and through wire decoding; admissibility is decided by the harness's own signature verification; an inadmissible event must be refused, a refusal must leave a state digest unchanged, per-creator listings must stay gap-free with index == position.",
   note="A valid event being refused is not flagged. Panics during an attempt count as refusal here (C08 judges survival)."),
 "C08": dict(engine="hostile", cat="exploration", ref="DESIGN.md §3 C08",
   technique="runtime monitoring with hostile input generation: recover-instrumented synchronous RPC path plus real TCP streams against running nodes in child processes",
   text="Warmed-up networks of real nodes receive batches of hostile messages from a value grammar: all request types through the wire encoding into processRPC (babbling and suspended victims, events validly signed by a Byzantine validator with hostile block signatures), hostile Sync/EagerSync/FastForward/Join responses consumed by pulling, catching-up and joining victims, raw byte streams and malformed JSON on a real TCP transport. No panic / process death, valid exchanges keep working, delivered blocks unchanged, new transactions still commit.",
   note="In-process tier stops a case at its first panic; process death in the TCP tier is reported through the worker's exit. WebRTC not exercised."),
 "C09": dict(engine="nodesim+puppet", cat="exploration", ref="DESIGN.md §3 C09",
   technique="runtime monitoring: invariant scan of stored block signatures and the anchor after every step, under adversarial signature payloads from puppet validators and pool injection",
   text="Histories with puppet validators (< n/3) gossiping hostile block signatures, plus valid signatures by strangers / removed / not-yet-effective validators injected into pools. After every step: each recorded signature verifies against the node's own body and its signer is in the block's round set; the anchor has > n/3 valid distinct signatures and never moves backwards; honest nodes only sign delivered blocks over the final body, also when their application sits behind the real socket proxy pair and becomes unreachable twice.",
   note="Puppets never equivocate; the harness verifies signatures itself."),
 "C12": dict(engine="nodesim+tamperer", cat="exploration", ref="DESIGN.md §3 C12",
   technique="runtime monitoring over mutations of valid inputs: reference acceptance rule plus full state digest around core.fastForward and the node-level flow",
   text="Valid (block, frame, snapshot) triples harvested from honest nodes are tampered (every block field, frame component, signature-map manipulation incl. one signer under several key spellings) and offered to lagging / fresh / previously reset victims through core.fastForward and Node.fastForward with a Byzantine responder; responses failing the reference rule must be refused and leave hashgraph, store, validator sets and application untouched.",
   note="A rule-satisfying response being refused is not flagged."),
 "C13": dict(engine="nodesim", cat="exploration", ref="DESIGN.md §3 C13",
   technique="runtime monitoring: agreement / validator-set / frame monitors extended to fast-forwarded nodes in histories with resets",
   text="Histories with validators that lose their data and reset from an honest anchor (any serving peer, chained), fast-sync joiners, anchors inside pending membership windows (including resets triggered while two validator-set changes are pending, followed by a third change); reset nodes' blocks from anchor+1, their validator-set function and all nodes' frames per round are compared after every step.",
   note="A reset node is judged only for as long as it can insert what it receives (property's own escape clause)."),
 "C14": dict(engine="nodesim+forger", cat="exploration", ref="DESIGN.md §3 C14",
   technique="runtime monitoring over forged inputs: forged self-signed validator sets offered to victims under a state digest",
   text="Forged responses (1-4 stranger keys, self-made validator set, correctly self-signed block, empty or copied frame, any block index) are offered to victims in three states through core.fastForward and through the node-level flow next to honest responders, including forger keys whose 32-bit peer id equals that of a validator the victim knows; they must be refused with the state digest unchanged.",
   note="'Reason to trust' = configured peers, genesis peers, current validators and derived sets. A known Byzantine validator forging is outside this property."),
 "C18": dict(engine="nodesim+puppet / dagcheck", cat="exploration", ref="DESIGN.md §3 C18",
   technique="runtime monitoring: per-block timestamp oracle from the harness's own record of claimed times, with lying puppet validators and synthetic DAGs with skewed clocks",
   text="For each delivered block the timestamp must lie between the two middle claimed times of the famous witnesses of its round-received and within the honest famous witnesses' range when fewer than a third lie; exercised with puppets claiming extreme times in nodesim and with lying creators in synthetic DAGs.",
   note="Any value between the two middle elements counts as the median for even counts."),
 "C11": dict(engine="nodesim+crash", cat="fault_enumeration", ref="DESIGN.md §3 C11",
   technique="runtime monitoring with fault injection: crash points at every kind of store write (in-process) and real SIGKILL of a child process, then bootstrap and comparison with durable logs",
   text="Each case is one crash point: the victim's store dies at its k-th write call (before or after the write reached the database; k spread over the history; all write kinds) or a child process running an all-Badger network SIGKILLs itself at such a call without closing anything. The node is rebuilt from its database with bootstrap: re-delivered blocks must equal the application's durable log, completed-writes subset of known events subset of attempted-writes, head/seq restored, no height reused afterwards, agreement with the rest of the network after a continuation schedule. Clean shutdowns, second stops after a first bootstrap, and events the victim must refuse (offered by a relay before the crash) included.",
   note="Process kill, not machine crash. In-process points release the Badger handle via Close; real kills are the SIGKILL tier. Stores reset by fast-sync excluded (bootstrap from 0 only)."),
 "C15": dict(engine="dagcheck", cat="exploration", ref="DESIGN.md §3 C15",
   technique="runtime monitoring: round-trip equalities over generated events/blocks/frames through the real wire, JSON, database and canonical encodings",
   text="Generated events with a payload variant grammar go event->wire->transport JSON->event on a second real Hashgraph, event->DB form->event, into a real Badger store (read back after eviction and after reopen); blocks and frames of real histories go through the FastForwardResponse JSON, the canonical encoding and a rebuild with permuted map order. Validator sets in every accepted key spelling are written to Badger and read back from the database before and after a reopen; in the nodesim histories every stored event is re-hashed, re-verified and sent through its wire form when first seen and again later. Hash, signature validity, payload bytes, wire form and private fields must be unchanged.",
   note="Block signatures inside generated events are attributed to their creator (wire form has no validator field by design)."),
 "C16": dict(engine="storecheck", cat="exploration", ref="DESIGN.md §3 C16",
   technique="runtime monitoring: model-based differential replay of recorded store call sequences against the real BadgerStore across cache sizes, with interleaved reads and close/reopen",
   text="The exact write sequences a real Hashgraph produced are replayed against a fresh BadgerStore with cache sizes from 1 to default, with random reads of old keys and full audits (API and DB-level reads of every record type, topological and per-participant listings complete/ordered/gap-free) before close, after reopen and at the end, against a map model.",
   note="A write returning an error is a refused write and not applied to the model; cache-only reads judged through DB-level hooks only."),
 "C17": dict(engine="nodesim", cat="exploration", ref="DESIGN.md §3 C17",
   technique="runtime monitoring: frozen-state digest around valid would-be-effective requests in every non-babbling state; exact sync-diff oracle for suspended nodes; threshold monitor after every suspension check",
   text="Real nodes in suspended / maintenance / joining / catching-up / shutdown states receive valid EagerSync (with events they lack), Sync, Join, FastForward requests and submissions: nothing may change, mutating requests must be refused; a run-time suspended node must answer syncs with exactly its events beyond the requester's known map in insertion order. Quorum-less runs with small limits: after each heartbeat check suspended iff new undetermined > limit x validators or evicted. A live tier (RunAsync, TCP) checks the same on the node's own background loop: a lone node whose gossip list is itself, and networks in which more than a third of the validators never start.",
   note="Submitted transactions may enter the pool of a non-babbling node (no event is created)."),
 "C20": dict(engine="live", cat="exploration", ref="DESIGN.md §3 C20",
   technique="runtime monitoring with fault injection: real proxy pairs over loopback behind a cutting TCP forwarder, comparing both sides' views of blocks, responses and transactions",
   text="Generated blocks, commit responses, snapshots and tagged transaction sequences pass through InmemProxy and the socket proxy pair; the application's view must equal Babble's (body hash, bytes, signature map), responses equal on the way back, handler errors surface, transactions arrive byte-identical in order while the caller reuses its buffer; with connections cut at random byte offsets a call either fails or is faithful and acknowledged submissions were delivered.",
   note="Duplicate delivery on client retry is not judged."),
}

# additions of the third session, appended to the level text / technique
EXTRA_TEXT = {
 "C01": " One live soak per run executes in a worker built with the Go race detector (other timing for the same oracle; reports go to coverage.race_detector, never a verdict).",
 "C02": " A validator of a quiet live network told to leave (Node.Leave) from another goroutine while its slow application is busy with a block. Three quarters of the live soaks run with delays injected at the node's store, transport and application calls. Live soaks with paced submitters (20+ blocks re-read by concurrent readers while submissions go on), one with several readers per node hammering the block API (a worker that dies of a runtime fatal error in Node.GetBlock is the violation node-dies-while-reporting-a-delivered-block; fixed finding a0705e5), one under the Go race detector (reports in coverage.race_detector, never a verdict).",
 "C03": " Creator clocks decades ahead of the executing machine's clock (all / half of the creators) and the block time of the reference execution compared with the median the DAG defines.",
 "C05": " Live soaks with crowds of 60 concurrent clients blocked in SubmitTx on one node. One storage fault per history in the consensus pass that follows the insertion of a node's own event (only the network-wide half of C05 is judged for the faulted node). Live soaks with paced submitters, one under the Go race detector; a soak whose watchdog expires is decided on node state (all idle and a transaction missing = dropped), otherwise inconclusive.",
 "C08": " Every TCP case ends with a phase of 96 connections at once (strangers' validly signed join requests that the application refuses, sync requests): the handlers run side by side in the victim. After an adopted rule-satisfying forgery and after hostile join responses the victim's real peer selector is exercised the way its background loop does. Validly signed forks of the Byzantine validator with hostile indexes in requests and responses (must be refused without harm). One TCP case under the Go race detector / checkptr, where timing-dependent probes are inconclusive and process death is decisive.",
 "C10": " For every block a full-history node delivers, a valid signature by every identity outside the replayed validator set of its round (former, future, not-yet-effective validators) is put through the node's signature pool and must not be recorded.",
 "C11": " Histories with 40-70 KB transactions (replay batches of megabytes); restarts with fast-sync enabled whose fast-forward request nobody answers (fixed finding 1dd4887).",
 "C14": " A third of the forged responses carry decoy entries under known validators' keys in the signature map (junk, random numbers, the validator's genuine signature of another block), which endorse nothing.",
 "C17": " Two more live modes: from the instant the node's own babbling loop returns (hook VerifRunBabbleOnce: Suspend() has finished waiting) nothing may change while a live companion keeps gossiping; and the application calls Suspend() on a node with a slow store (injected delays under its core lock) while three validators push at it: from the return on nothing may change. Live cases also run under the Go race detector (reports in coverage.race_detector, never a verdict).",
 "C18": " Honest clocks decades ahead of the executing machine's clock in a share of the synthetic DAGs.",
 "C19": " DAGs in which a validator is removed by a scripted set change and keeps gossiping: every recorded witness must belong to its round's set and every round increment is recounted over validators only.",
 "C20": " Three concurrent callers (CommitBlock, GetSnapshot, OnStateChanged from different goroutines, as a running node issues them) against a slow application whose every answer is derived from the call's own argument: each caller must get the answer to its own call or an error. Proxy pairs also run under the Go race detector (reports in coverage.race_detector, never a verdict).",
}
EXTRA_TEXT["C06"] = " Live cases (real goroutines, timers, TCP): crowds of 60 concurrent clients at one node and paced submitters with injected delays; when every node is idle under its own lock an accepted transaction that is still uncommitted is a violation (decided on state; an expired watchdog alone is inconclusive)."
EXTRA_TEXT["C15"] = " Every transported frame that lists two or more validator sets is used to reset six fresh stores whose first-round table must equal the sender's."

# additions of the fourth session
EXTRA4 = {
 "C01": " Four deep-lag histories per run: a validator hears nothing for more than half of a long history and then receives a backlog of 500+ events in whole syncs of the default limit.",
 "C04": " Six cases per run put one synthetic DAG through a real Hashgraph on Badger whose cache (40-60) is smaller than the events in flight (75-115): events are evicted and read back from the database between the passes of one consensus run; the delivered blocks are judged with the same oracle against the harness's record of the DAG.",
 "C07": " The bootstrap route: a valid DAG is written to a real Badger store, the store closed, one event record altered with the raw database handle (re-signed with another validator's key, signature replaced or undecodable, payload / timestamp / membership request rewritten on a chain head), the store reopened and bootstrapped; every event the restarted hashgraph lists must pass the harness's own signature check.",
 "C09": " Histories in which validators lose their data and reset from a peer's anchor while the relay adds entries to the signature map of the (sufficiently signed, otherwise untouched) anchor block: valid signatures by strangers and by identities outside the block's validator set, junk under stranger keys, under lax spellings of a member's key and under keys of members that have not signed (fixed finding 71df378).",
 "C11": " Crash points placed inside the run of re-writes that one insertion makes (first descendants of the ancestors, one store write per ancestor).",
 "C14": " A quarter of the forgeries name a validator the victim knows in the self-made set, use a block index at which the victim holds (and once verified) that validator's signature, and repeat that genuine signature string under its key.",
 "C15": " Every transported frame is also used to reset a fresh store (as decoded, and from a decoded slice with room to grow); the frame read back from that store and re-encoded must still hash to the block's frame hash. Histories with healing partitions and lagging validators add frames of many events.",
 "C16": " Sparse look-ups of events by hash and by creator/index before they are written (as the node's parent checks and wire decoding do) must fail, and the same keys must be readable later, after the item has left the in-memory window.",
 "C19": " A third of the additions in the edit sequences name the validator under the lower-case spelling of its key.",
 "C02": " Six histories per run in which validators reset their running hashgraph in place from the peer with the oldest anchor (usually below their own last block) while a validator lags.",
 "C05": " An eighth of the histories inject transient frame-write failures while decided rounds are turned into blocks.",
 "C08": " The concurrent phase also delivers two join requests four times each, byte for byte, over different connections.",
 "C17": " Three live cases per run watch validators started without gossip (Run(false)) while a validator that never gives up pushes events at them.",
 "C20": " Three cases per run submit through the socket proxy while nothing is taken from the node-side channel for 3-4 proxy timeouts: every call that reported success must be a transaction that arrives once the channel has been drained to quiescence.",
}
for k, v in EXTRA4.items():
    EXTRA_TEXT[k] = EXTRA_TEXT.get(k, "") + v
EXTRA_TECH = {
 "C06": "; plus live soaks with a state-based verdict",
 "C01": "; live soak also under the Go race detector (informational)",
 "C02": "; live soaks with concurrent readers, also under the Go race detector (informational; worker death is decisive)",
 "C05": "; live soaks also under the Go race detector (informational)",
 "C08": "; TCP tier also under the Go race detector / checkptr",
 "C17": "; live cases also under the Go race detector (informational)",
 "C20": "; also under the Go race detector (informational)",
}
for _k, _v in EXTRA_TEXT.items():
    CHECKS[_k]["text"] += _v
for _k, _v in EXTRA_TECH.items():
    CHECKS[_k]["technique"] += _v

REASONS_NOT_YET = "check not built yet in this session (planned; see DESIGN.md)"

ALL = ["C%02d" % i for i in range(1, 21)]

def main():
    checks = []
    for pid in ALL:
        if pid not in CHECKS:
            continue
        c = CHECKS[pid]
        checks.append({
            "property_id": pid,
            "quick_cmd": "./check %s --tier quick" % pid,
            "thorough_cmd": "./check %s --tier thorough" % pid,
            "evidence_file": "/verif/evidence/%s.json" % pid,
            "replay_cmd_template": "./check %s --replay {path}" % pid,
            "engine": c["engine"],
            "level_claimed": {"category": c["cat"], "text": c["text"], "design_ref": c["ref"]},
            "level_note": c["note"],
            "technique": c["technique"],
        })
    try:
        hooks = subprocess.check_output(["git", "-C", "/repo", "log", "--format=%H %s"], text=True).splitlines()
        hook_commits = [l.split()[0] for l in hooks if "verif hooks" in l]
    except Exception:
        hook_commits = []
    m = {
        "version": 1,
        "setup_cmd": "./setup.sh",
        "hooks": {
            "guard": "verif",
            "enable": "go build -tags verif (the harness module /verif/harness replaces github.com/mosaicnetworks/babble with /repo and is always built with -tags verif)",
            "baseline_off_cmd": "/verif/scripts/baseline_off.sh",
            "source_commits": hook_commits,
            "add_only": True,
        },
        "engines": [
            {"name": "nodesim", "path": "/verif/harness", "serves_properties": [p for p in ALL if p in CHECKS and CHECKS[p]["engine"] == "nodesim"],
             "kind_free_text": "deterministic single-threaded network of real node.Node objects driven through a synchronous harness transport; monitors at the commit callback, RPC boundary and store API"},
            {"name": "dagcheck", "path": "/verif/harness/dag.go", "serves_properties": ["C03", "C07", "C18"],
             "kind_free_text": "synthetic fork-free DAG generator; one DAG executed by many fresh real Hashgraph instances; tamperer over valid events"},
            {"name": "hostile", "path": "/verif/harness/c08.go", "serves_properties": ["C08"],
             "kind_free_text": "hostile value grammar delivered to real nodes in-process (with recover and attribution) and over real TCP (child processes)"},
            {"name": "fastsync", "path": "/verif/harness/ff.go", "serves_properties": ["C12", "C13", "C14"],
             "kind_free_text": "harvests valid fast-forward responses from honest nodes, tampers / forges them and applies them to victims under a full state digest"},
            {"name": "crash", "path": "/verif/harness/c11.go", "serves_properties": ["C11"],
             "kind_free_text": "crashing store decorator (panic or SIGKILL at the k-th write), child-process kill tier, bootstrap verifier"},
            {"name": "storecheck", "path": "/verif/harness/storecheck.go", "serves_properties": ["C16"],
             "kind_free_text": "records real store call sequences and replays them against BadgerStore under a map model"},
            {"name": "live", "path": "/verif/harness/live.go", "serves_properties": ["C08", "C20"],
             "kind_free_text": "real goroutines and sockets: TCP gossip transport and socket proxies on loopback, harness forwarder for connection cuts"},
            {"name": "thresholds", "path": "/verif/harness/thresholds.go", "serves_properties": [p for p in ALL if p in CHECKS and CHECKS[p]["engine"] == "thresholds"],
             "kind_free_text": "executes the real quorum arithmetic and acceptance decisions over an exhaustive range of set sizes"},
        ],
        "checks": checks,
        "not_applicable": [{"property_id": p, "reason": REASONS_NOT_YET} for p in ALL if p not in CHECKS],
        "notes": "Technique family: runtime monitoring and sanitizers. Every check rebuilds the harness against /repo's working tree with -tags verif, once plain and once with the Go race detector (cases marked race=1; reports are evidence, never a verdict). Exit 0 held / 1 violation / 2 broken or vacuous. Known findings: /verif/known_findings.json.",
    }
    json.dump(m, open("/verif/MANIFEST.json", "w"), indent=1)
    print("wrote MANIFEST.json with", len(checks), "checks")

if __name__ == "__main__":
    main()
