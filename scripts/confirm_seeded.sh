#!/bin/bash
# usage: confirm_seeded.sh <ID> [srcdir]
# Confirms a seeded change produced by a sub-agent (default srcdir
# /tmp/seeded-out/<ID>): in a scratch worktree of /repo HEAD
#   1. the patch applies and the tree builds,
#   2. the demonstration FAILS with the patch and PASSES without it,
#   3. the repository's own test suite still passes with the patch (serialised
#      with a lock: src/node binds fixed ports).
# Writes /verif/seeded/<ID>/{patch.diff,<demo>,demo_cmd.txt,notes.md,confirm.log}
# and prints a summary line. The worktree is removed afterwards.
set -u
ID=$1
SRC=${2:-/tmp/seeded-out/$ID}
DEST=/verif/seeded/$ID
WT=/tmp/cs-$ID
export GOFLAGS=-mod=mod GOPROXY=off GOSUMDB=off GOTOOLCHAIN=local
mkdir -p "$DEST"
LOG=$DEST/confirm.log
: > "$LOG"
git -C /repo worktree remove --force "$WT" >/dev/null 2>&1
git -C /repo worktree add --detach "$WT" HEAD >>"$LOG" 2>&1 || { echo "$ID: worktree failed"; exit 2; }
cleanup() { git -C /repo worktree remove --force "$WT" >/dev/null 2>&1; rm -rf "$WT"; }
trap cleanup EXIT
cd "$WT" || exit 2
if ! git apply --check "$SRC/patch.diff" >>"$LOG" 2>&1; then echo "$ID: PATCH DOES NOT APPLY"; exit 1; fi
DEMO=$(ls "$SRC"/zz_seeded_*_test.go 2>/dev/null | head -1)
DEMOCMD=$(grep -v '^\s*$' "$SRC/demo_cmd.txt" | grep 'go test' | head -1 | sed 's/^[`$ ]*//; s/`$//; s#flock [^ ]* ##g')
PKG=$(echo "$DEMOCMD" | grep -o '\./src/[^ ]*' | head -1)
[ -z "$PKG" ] && { echo "$ID: cannot parse demo_cmd ($DEMOCMD)"; exit 1; }
cp "$DEMO" "$WT/$PKG/"
echo "cd $WT && $DEMOCMD" > /tmp/cs-demo-$ID.sh
RUNDEMO="/verif/scripts/netns_run.sh bash /tmp/cs-demo-$ID.sh"
echo "== demo without patch: $RUNDEMO" >>"$LOG"
( eval "$RUNDEMO" ) >>"$LOG" 2>&1; WITHOUT=$?
git apply "$SRC/patch.diff" >>"$LOG" 2>&1
go build ./... >>"$LOG" 2>&1 || { echo "$ID: DOES NOT BUILD"; exit 1; }
echo "== demo with patch" >>"$LOG"
( eval "$RUNDEMO" ) >>"$LOG" 2>&1; WITH=$?
rm -f "$WT/$PKG/$(basename "$DEMO")"
echo "== existing suite with patch" >>"$LOG"
REPO_DIR="$WT" /verif/scripts/baseline_off.sh > "$DEST/suite.log" 2>&1; SUITE=$?
FAILS=$(grep -E '^--- FAIL' "$DEST/suite.log" | awk '{print $3}' | sort -u | tr '\n' ' ')
NONFLAKY=$(echo "$FAILS" | tr ' ' '\n' | grep -v -E '^(TestJoinFull.*|TestJoinLateExtra|TestLeaveRequest|TestWebRTCStreamLayerWithWampSignal)?$' | tr '\n' ' ')
cp "$SRC/patch.diff" "$DEST/patch.diff"
cp "$DEMO" "$DEST/"
cp "$SRC/demo_cmd.txt" "$DEST/" 2>/dev/null
cp "$SRC/notes.md" "$DEST/" 2>/dev/null
tail -5 "$DEST/suite.log" >> "$LOG"
grep -E '^(ok|FAIL|---)' "$DEST/suite.log" > "$DEST/suite_summary.txt"; rm -f "$DEST/suite.log"
echo "$ID: demo_without_patch_exit=$WITHOUT demo_with_patch_exit=$WITH suite_exit=$SUITE failing_tests=[$FAILS] nonflaky_failures=[$NONFLAKY]" | tee "$DEST/confirm_summary.txt"
