#!/bin/bash
# usage: netns_run.sh <command...>
# Runs the command in a private network namespace with loopback and a veth
# interface (WebRTC tests need a non-loopback interface), so that test suites
# that bind fixed ports can run concurrently. Falls back to a lock.
if unshare -n true 2>/dev/null; then
  exec unshare -n bash -c 'ip link set lo up; ip link add veth0 type veth peer name veth1 2>/dev/null && ip addr add 10.77.0.1/24 dev veth0 && ip link set veth0 up && ip link set veth1 up; exec "$@"' -- "$@"
fi
exec flock /tmp/babble-nodetest.lock "$@"
