#!/bin/bash
# usage: try_seeded.sh <ID> <patchdir> [check ids...]  -- applies a seeded patch to /repo, runs the checks, reverts
ID=$1; DIR=$2; shift 2
cd /repo || exit 2
if [ -n "$(git status --porcelain)" ]; then echo "/repo not clean"; exit 2; fi
if ! git apply --3way "$DIR/patch.diff" 2>/tmp/apply.err; then
  if ! git apply "$DIR/patch.diff" 2>>/tmp/apply.err; then echo "$ID: patch does not apply"; cat /tmp/apply.err | head -5; git checkout -- . ; git reset -q --hard HEAD; exit 1; fi
fi
for c in "$@"; do
  out=$(cd /verif && VERIF_EVIDENCE_DIR=/tmp/try-seeded-evidence ./check $c 2>&1)
  rc=$?
  echo "$ID vs $c: exit=$rc $(echo "$out" | grep -c '^VIOLATION') violation line(s); $(echo "$out" | grep '^'$c' tier' | head -1)"
  echo "$out" | grep -A2 '^VIOLATION' | grep signature | sort | uniq -c | head -5
done
cd /repo && git reset -q --hard HEAD && git status --short | head -3
