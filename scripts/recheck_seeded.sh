#!/bin/bash
# usage: recheck_seeded.sh <ID>  -- reruns, with the seeded patch applied in a scratch worktree, only the
# tests of the repository suite that failed during confirm_seeded.sh (to tell load-induced flakiness from breakage)
ID=$1
DEST=/verif/seeded/$ID
WT=/tmp/rc-$ID
export GOFLAGS=-mod=mod GOPROXY=off GOSUMDB=off GOTOOLCHAIN=local
FAILS=$(sed -n 's/.*nonflaky_failures=\[\(.*\)\]/\1/p' $DEST/confirm_summary.txt)
[ -z "$(echo $FAILS | tr -d ' ')" ] && { echo "$ID: nothing to recheck"; exit 0; }
git -C /repo worktree remove --force $WT >/dev/null 2>&1
git -C /repo worktree add --detach $WT HEAD >/dev/null 2>&1 || exit 2
cd $WT && git apply $DEST/patch.diff || exit 2
PAT=$(echo $FAILS | tr ' ' '|')
/verif/scripts/netns_run.sh go test -vet=off -count=2 -timeout 20m -run "^($PAT)\$" ./src/node/ ./src/net/ > $DEST/recheck.log 2>&1; RC=$?
cd /; git -C /repo worktree remove --force $WT >/dev/null 2>&1; rm -rf $WT
echo "$ID: recheck of [$FAILS] with patch applied, 2 runs each: exit=$RC $(grep -E '^(ok|FAIL|--- FAIL)' $DEST/recheck.log | tr '\n' ' ')" | tee -a $DEST/confirm_summary.txt
